#!/bin/bash
# Build the overlay venv (offline). Idempotent; safe under concurrent invocation (flock).
set -e
HERE="$(cd "$(dirname "$0")" && pwd)"
cd "$HERE"
exec 9>"$HERE/.venv.lock"
flock 9
SP=.venv/lib/python3.12/site-packages
write_pth() { printf "import site; site.addsitedir('/venv/lib/python3.12/site-packages')\n/repo/src\n/repo\n" > $SP/_overlay.pth; }
if [ -x .venv/bin/crosshair ] && .venv/bin/python -c "import crosshair, z3, jsonschema, lxml" 2>/dev/null; then
  write_pth
  exit 0
fi
rm -rf .venv
/venv/bin/python -m venv .venv
write_pth
PIP_NO_INDEX=1 .venv/bin/pip install -q --no-index --find-links /opt/veriftools/wheels crosshair-tool z3-solver jsonschema >/dev/null
.venv/bin/python -c "import crosshair, z3, jsonschema, lxml, sdc11073"

#!/bin/bash
# usage: tools/mutcheck.sh <PROP> <file-relative-to-repo> <sed-expression> [tier]
# Applies a one-line mutation to a scratch worktree of /repo HEAD (+ uncommitted changes are NOT included) and runs the check on it.
PROP=$1; FILE=$2; EXPR=$3; TIER=${4:-quick}
WT=/tmp/mut_$$
git -C /repo worktree add -q $WT HEAD || exit 9
cp $WT/$FILE $WT/$FILE.orig
sed -i -E "$EXPR" $WT/$FILE
if cmp -s $WT/$FILE $WT/$FILE.orig; then echo "MUTATION DID NOT APPLY"; git -C /repo worktree remove --force $WT; exit 9; fi
diff $WT/$FILE.orig $WT/$FILE | head -6
rm $WT/$FILE.orig
cd "$(dirname "$0")/.." && VERIF_EVIDENCE_DIR=/tmp/mut_evid_$$ PYTHONPATH=$WT/src:$WT ./check $PROP $TIER 2>&1 | grep -E "VIOLATION|HARNESS-ERROR|KNOWN|quick:|thorough:" | cut -c1-220
git -C /repo worktree remove --force $WT
rm -rf /tmp/mut_evid_$$

#!/bin/bash
# usage: tools/seedcheck.sh <seed-dir-name> [tier]   applies seeded/<name>/patch.diff to /repo, runs the property's check, restores /repo
NAME=$1; TIER=${2:-quick}
HERE="$(cd "$(dirname "$0")/.." && pwd)"
PROP=${NAME%%_*}
if ! git -C /repo diff --quiet; then echo "/repo has uncommitted changes"; exit 9; fi
git -C /repo apply $HERE/seeded/$NAME/patch.diff || exit 9
cd $HERE && VERIF_EVIDENCE_DIR=/tmp/seedcheck_ev_$$ ./check $PROP $TIER > /tmp/seedcheck_$$.log 2>&1; RC=$?
git -C /repo checkout -- .
grep -E "VIOLATION|HARNESS-ERROR|$TIER:" /tmp/seedcheck_$$.log | cut -c1-200
python3 - <<PY
import json,re
p='$HERE/seeded/$NAME/meta.json'; m=json.load(open(p))
log=open('/tmp/seedcheck_$$.log').read()
viol=sorted(set(re.findall(r'obligation=(\S+) label=(\S+)',log)))
m.setdefault('checks_run',{})['$TIER']={'cmd':'git -C /repo apply seeded/$NAME/patch.diff; ./check $PROP $TIER; git -C /repo checkout -- .','exit':$RC,
   'caught': $RC==1, 'violations':[{'obligation':o,'label':l} for o,l in viol][:12]}
json.dump(m,open(p,'w'),indent=1)
PY
rm -rf /tmp/seedcheck_ev_$$ /tmp/seedcheck_$$.log
echo "exit=$RC"

#!/bin/bash
# usage: tools/seedcheck.sh <seed-dir-name> [tier [other-property]]   applies seeded/<name>/patch.diff to /repo, runs the property's check, restores /repo
NAME=$1; TIER=${2:-quick}
HERE="$(cd "$(dirname "$0")/.." && pwd)"
PROP=${3:-${NAME%%_*}}      # optional 3rd argument: run ANOTHER property's check on this seed
KEY=$TIER; [ -n "$3" ] && KEY="$TIER:$3"
# the patch is applied to a scratch worktree of /repo HEAD (equivalent to: git -C /repo apply <patch>; ./check ...; git -C /repo checkout -- .
# but /repo itself stays untouched, so several seed checks and a test-suite run can go on at the same time)
WT=/tmp/seedcheck_wt_$$
git -C /repo worktree add -q $WT HEAD || exit 9
git -C $WT apply $HERE/seeded/$NAME/patch.diff || { git -C /repo worktree remove --force $WT; exit 9; }
cd $HERE && VERIF_EVIDENCE_DIR=/tmp/seedcheck_ev_$$ PYTHONPATH=$WT/src:$WT ./check $PROP $TIER > /tmp/seedcheck_$$.log 2>&1; RC=$?
git -C /repo worktree remove --force $WT
grep -E "VIOLATION|HARNESS-ERROR|$TIER:" /tmp/seedcheck_$$.log | cut -c1-200
python3 - <<PY
import json,re
p='$HERE/seeded/$NAME/meta.json'; m=json.load(open(p))
log=open('/tmp/seedcheck_$$.log').read()
viol=sorted(set(re.findall(r'obligation=(\S+) label=(\S+)',log)))
m.setdefault('checks_run',{})['$KEY']={'cmd':'scratch worktree of /repo HEAD + git apply seeded/$NAME/patch.diff; PYTHONPATH=<wt>/src:<wt> ./check $PROP $TIER','exit':$RC,
   'caught': $RC==1, 'violations':[{'obligation':o,'label':l} for o,l in viol][:12]}
json.dump(m,open(p,'w'),indent=1)
PY
rm -rf /tmp/seedcheck_ev_$$ /tmp/seedcheck_$$.log
echo "exit=$RC"

#!/bin/bash
# usage: tools/seed_suite.sh <group-name> <seed> [<seed> ...]
# Applies all given seeded patches to ONE scratch worktree of /repo HEAD and runs the repository's complete, unedited test suite on it.
# (Several patches at once because one suite run takes ~13 min; if the combined run fails the group is split and re-run.)
HERE="$(cd "$(dirname "$0")/.." && pwd)"
G=$1; shift
WT=/tmp/seedsuite_$G
git -C /repo worktree add -q $WT HEAD || exit 9
for s in "$@"; do git -C $WT apply $HERE/seeded/$s/patch.diff || { echo "patch $s does not apply"; git -C /repo worktree remove --force $WT; exit 9; }; done
cd $WT && PYTHONPATH=$WT/src:$WT timeout 3000 /venv/bin/python -m pytest -q -p no:cacheprovider --timeout=900 --continue-on-collection-errors tests > /tmp/seedsuite_$G.log 2>&1
RES=$(tail -1 /tmp/seedsuite_$G.log)
FAILED=$(grep -E "^(FAILED|ERROR) " /tmp/seedsuite_$G.log | head -5 | tr '\n' ';')
cd /; git -C /repo worktree remove --force $WT
python3 - "$G" "$RES" "$FAILED" "$@" <<'PY'
import json,sys
g,res,failed,*seeds=sys.argv[1:]
here=__import__('os').environ.get('HERE_DIR','/verif')
for s in seeds:
    p=f'{here}/seeded/{s}/meta.json'; m=json.load(open(p))
    m['suite_verified']={'group':seeds,'result':res.strip('= '),'failed':failed,
                         'how':'all patches of the group applied to one scratch worktree of /repo HEAD; PYTHONPATH=<wt>/src:<wt> /venv/bin/python -m pytest -q -p no:cacheprovider tests'}
    json.dump(m,open(p,'w'),indent=1)
print(g,res,failed)
PY

#!/bin/bash
# usage: tools/seed_import_next.sh <PROP> <seeder-out-dir>   imports patch1/patch2 under the next free seed numbers, runs the check
PROP=$1; SRC=$2
HERE="$(cd "$(dirname "$0")/.." && pwd)"
for n in 1 2; do
  [ -f $SRC/patch$n.diff ] || continue
  k=1; while [ -d $HERE/seeded/${PROP}_$k ]; do k=$((k+1)); done
  TMP=/tmp/seedimp_$$; rm -rf $TMP; mkdir -p $TMP
  cp $SRC/patch$n.diff $TMP/patch$k.diff; cp $SRC/demo$n.py $TMP/demo$k.py; cp $SRC/meta$n.json $TMP/meta$k.json
  $HERE/tools/seed_import.sh $PROP $k $TMP
  rm -rf $TMP
  echo "== ${PROP}_$k"; $HERE/tools/seedcheck.sh ${PROP}_$k | tail -3 | cut -c1-230
done

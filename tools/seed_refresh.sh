#!/bin/bash
# usage: tools/seed_refresh.sh <seed>   re-bases seeded/<seed>/patch.diff onto /repo HEAD with a 3-way apply (after fix: commits
# changed the context lines); keeps the original as patch.orig.diff. Exit 0 refreshed / still applies, 8 = conflicts (port by hand).
NAME=$1; HERE="$(cd "$(dirname "$0")/.." && pwd)"
WT=/tmp/seedrefresh_wt_$$
git -C /repo worktree add -q --detach $WT HEAD || exit 9
cd $WT
if git apply --check $HERE/seeded/$NAME/patch.diff 2>/dev/null; then echo "$NAME: applies as is"; RC=0
elif git apply --3way $HERE/seeded/$NAME/patch.diff >/dev/null 2>&1 && ! git diff HEAD | grep -q '^[+ ]<<<<<<<'; then
  [ -f $HERE/seeded/$NAME/patch.orig.diff ] || cp $HERE/seeded/$NAME/patch.diff $HERE/seeded/$NAME/patch.orig.diff
  git diff HEAD > $HERE/seeded/$NAME/patch.diff
  python3 - <<PY
import json
p='$HERE/seeded/$NAME/meta.json'; m=json.load(open(p))
m['refreshed_for_head']='$(git -C /repo rev-parse --short HEAD)'
json.dump(m,open(p,'w'),indent=1)
PY
  echo "$NAME: refreshed (3-way)"; RC=0
else echo "$NAME: CONFLICTS"; RC=8; fi
cd /; git -C /repo worktree remove --force $WT
exit $RC

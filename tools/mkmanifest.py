#!/usr/bin/env python3
"""Regenerate MANIFEST.json from checks/*.py (MANIFEST_ENTRY dicts) — run from /verif."""
import importlib
import json
import sys
from pathlib import Path

ROOT = Path(__file__).resolve().parent.parent
sys.path.insert(0, str(ROOT))
ALL = [f'C{i:02d}' for i in range(1, 21)]
PENDING_REASON = 'no solver-based check registered for this property (yet); see DESIGN.md'

READY = set((ROOT / 'tools' / 'ready.txt').read_text().split())
checks, na = [], []
for pid in ALL:
    if pid not in READY:
        na.append({'property_id': pid, 'reason': PENDING_REASON})
        continue
    try:
        mod = importlib.import_module(f'checks.{pid}')
        e = mod.MANIFEST_ENTRY
    except (ImportError, AttributeError):
        na.append({'property_id': pid, 'reason': PENDING_REASON})
        continue
    if e.get('not_applicable'):
        na.append({'property_id': pid, 'reason': e['not_applicable']})
        continue
    checks.append({
        'property_id': pid,
        'quick_cmd': f'./check {pid} quick',
        'thorough_cmd': f'./check {pid} thorough',
        'evidence_file': f'/verif/evidence/{pid}.json',
        'replay_cmd_template': f'./check {pid} --replay {{path}}',
        'engine': e.get('engine', 'crosshair'),
        'level_claimed': {'category': 'model_checking', 'text': e['text'], 'design_ref': f'DESIGN.md §2 {pid}'},
        'level_note': e['note'],
        'technique': e['technique'],
    })

manifest = {
    'version': 1,
    'setup_cmd': './setup.sh',
    'hooks': {'guard': 'SDC11073_VERIF', 'enable': 'no source hooks: all instrumentation is attached from the harness side '
              '(attribute replacement, module-attribute stubs); ./check exports SDC11073_VERIF=1 for uniformity',
              'baseline_off_cmd': 'cd /repo && /venv/bin/python -m pytest -ra -q -p no:cacheprovider --timeout=900 '
                                  '--continue-on-collection-errors --junitxml=/tmp/sdc11073_baseline.junit.xml',
              'source_commits': [], 'add_only': True},
    'engines': [
        {'name': 'crosshair', 'path': 'vf/main.py + harness/', 'kind_free_text':
            'E1: CrossHair 0.0.110 (symbolic execution of Python with z3) over harnesses that drive the real sdc11073 classes',
         'serves_properties': [c['property_id'] for c in checks if 'crosshair' in c['engine']]},
        {'name': 'pysym', 'path': 'vf/pysym.py', 'kind_free_text':
            'E2: AST->SMT translation of arithmetic kernels read from /repo at run time; z3 (Real/Int) and cvc5 (QF_BVFP)',
         'serves_properties': [c['property_id'] for c in checks if 'pysym' in c['engine']]},
        {'name': 'sched', 'path': 'vf/sched.py', 'kind_free_text':
            'E3: event templates recorded from the real handlers/transactions + SMT (z3 Int order variables) over interleavings',
         'serves_properties': [c['property_id'] for c in checks if 'sched' in c['engine']]},
    ],
    'checks': checks,
    'not_applicable': na,
    'notes': 'All checks: exit 0 = held within the stated bounds (inconclusive obligations are listed in the evidence and never '
             'counted as confirmed); exit 1 + VIOLATION line = solver counterexample replayed on the real code; exit 3 = harness '
             'error (counterexample that does not reproduce concretely, crashed obligation). Known findings: known_findings.json.',
}
(ROOT / 'MANIFEST.json').write_text(json.dumps(manifest, indent=1) + '\n')
try:
    import jsonschema
    jsonschema.validate(manifest, json.load(open('/root/.vp/MANIFEST.schema.json')))
    print('MANIFEST.json valid:', len(checks), 'checks,', len(na), 'not applicable')
except ImportError:
    print('written (jsonschema not available for validation)')

#!/usr/bin/env python3
"""Rewrite the seeded-changes table in DESIGN.md (between the SEEDTABLE markers) from seeded/*/meta.json."""
import glob
import json
import os
import re

ROOT = os.path.dirname(os.path.dirname(os.path.abspath(__file__)))
rows = []
for d in sorted(glob.glob(ROOT + '/seeded/*')):
    m = json.load(open(d + '/meta.json'))
    name = os.path.basename(d)
    cr = m.get('checks_run', {})
    q = cr.get('quick') or cr.get('thorough') or {}
    if m.get('status_on_current_head', '').startswith('OBSOLETE'):
        verdict = 'obsolete (see note)'
    elif q.get('caught'):
        verdict = 'caught'
    elif q:
        verdict = '**missed**'
    else:
        verdict = 'not run'
    by = '; '.join(sorted({v['obligation'] + ' -> `' + v['label'] + '`' for v in q.get('violations', [])})[:2])
    hist = m.get('history', '')
    summ = (m.get('summary') or '').replace('|', '/').replace('\n', ' ')
    needs = (m.get('needs_to_manifest') or '').replace('|', '/').replace('\n', ' ')
    suite = m.get('suite_verified', {}).get('result', 'seeder-run only')
    rows.append(f'| {name} | {m["property"]} | {summ[:230]} | {needs[:200]} | {verdict} | {by} | {hist} | {suite} |')
table = ['| seed | property | change | needs to manifest | check verdict | caught by (obligation -> label) | history | existing suite with the patch |',
         '|---|---|---|---|---|---|---|---|'] + rows
p = ROOT + '/DESIGN.md'
s = open(p).read()
new = '<!-- SEEDTABLE:BEGIN -->\n' + '\n'.join(table) + '\n<!-- SEEDTABLE:END -->'
if '<!-- SEEDTABLE:BEGIN -->' in s:
    s = re.sub(r'<!-- SEEDTABLE:BEGIN -->.*?<!-- SEEDTABLE:END -->', lambda _m: new, s, flags=re.S)
else:
    s += '\n' + new + '\n'
open(p, 'w').write(s)
print(len(rows), 'seeds')

#!/bin/bash
# usage: tools/seed_import.sh <PROP> <n> <out-dir-of-seeder>   -> /verif/seeded/<PROP>_<n>/{patch.diff,demo.py,meta.json} + demo verification
PROP=$1; N=$2; SRC=$3
DST="$(cd "$(dirname "$0")/.." && pwd)/seeded/${PROP}_$N"
mkdir -p $DST
cp $SRC/patch$N.diff $DST/patch.diff; cp $SRC/demo$N.py $DST/demo.py; cp $SRC/meta$N.json $DST/meta.seeder.json
WT=/tmp/seedverify_$$
git -C /repo worktree add -q $WT HEAD || exit 9
cd $WT
PYTHONPATH=$WT/src:$WT timeout 300 /venv/bin/python $DST/demo.py > $DST/demo_clean.log 2>&1; RC_CLEAN=$?
git apply $DST/patch.diff || { echo "PATCH DOES NOT APPLY"; RC_APPLY=1; }
PYTHONPATH=$WT/src:$WT timeout 300 /venv/bin/python $DST/demo.py > $DST/demo_patched.log 2>&1; RC_PATCHED=$?
cd /; git -C /repo worktree remove --force $WT
echo "$PROP_$N demo: clean rc=$RC_CLEAN patched rc=$RC_PATCHED"
python3 - <<PY
import json
m=json.load(open('$DST/meta.seeder.json'))
out={'property':'$PROP','summary':m.get('summary'),'needs_to_manifest':m.get('needs_to_manifest'),
     'seeder_tests_run':m.get('tests_run'),'seeder_tests_result':m.get('tests_result'),
     'verified':{'demo_on_clean_tree_rc':$RC_CLEAN,'demo_with_patch_rc':$RC_PATCHED,
                 'how':'scratch worktree of /repo HEAD; PYTHONPATH=<wt>/src:<wt> /venv/bin/python demo.py before and after git apply patch.diff'}}
json.dump(out,open('$DST/meta.json','w'),indent=1)
PY
rm -f $DST/meta.seeder.json

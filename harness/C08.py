"""C08 harnesses (CrossHair, E1): WS-Eventing subscriptions deliver exactly while alive and end cleanly.

(a') life_int      - real SubscriptionBase.__init__/renew/remaining_seconds/is_valid with symbolic integer clock, durations, maximum.
(b)  send_iff_alive / filter_match - real BicepsSubscription.send_notification_report and
                     BicepsSubscriptionAsync.async_send_notification_report (coroutine driven with send(None)); lifetime fields are
                     symbolic ints/bools planted on a subscription built by the real constructor; sandwich oracle for the filter.
(c)  mgr_history   - the four real subscription managers behind the real _EventService dispatcher, driven with real SOAP envelopes;
                     every choice (manager kind, pre-state, operation, operands) is a symbolic selector resolved by explicit branching,
                     the history itself then runs on concrete values against a reference model of subscription liveness.
The real-valued lifetime arithmetic (rounding of remaining_seconds) is decided separately by SMT, see harness/C08_smt.py.
"""
from types import SimpleNamespace
from urllib.parse import urlsplit

from lxml import etree

from vf.hutil import Oracle, exc_result, pick, quiet, untraced

quiet()
from harness import C08_env as env  # noqa: E402
from sdc11073.definitions_sdc import SdcV1Definitions  # noqa: E402
from sdc11073.dispatch.request import RequestData  # noqa: E402
from sdc11073.namespaces import EventingActions  # noqa: E402
from sdc11073.provider import subscriptionmgr as sms  # noqa: E402
from sdc11073.provider import subscriptionmgr_async as sma  # noqa: E402
from sdc11073.provider import subscriptionmgr_base as smb  # noqa: E402
from sdc11073.provider.dpwshostedservice import _EventService  # noqa: E402
from sdc11073.pysoap.msgfactory import MessageFactory  # noqa: E402
from sdc11073.pysoap.msgreader import MessageReader  # noqa: E402
from sdc11073.pysoap.soapclient import HTTPReturnCodeError  # noqa: E402
from sdc11073.xml_types import eventing_types as evt  # noqa: E402
from sdc11073.xml_types.addressing_types import HeaderInformationBlock  # noqa: E402

SDC = SdcV1Definitions
MF = MessageFactory(SDC, None, logger=None, validate=False)
MR = MessageReader(SDC, None, logger=None, validate=False)
BASE_URLS = [urlsplit('http://127.0.0.1:9000/dev')]
BODY = etree.Element('body')
DELIVERY_ERRORS = (Exception,)       # the subscription counts the failure and re-raises; the managers log and go on (mgr_history)

A1, A2, A3 = 'http://x/y/Act1', 'http://x/y/Act2', 'http://x/y/Act3'
# report actions against the filter (A1, A2): literal first entry, literal second entry, a proper suffix of an entry (the
# library matches by suffix), unrelated
ACTIONS = (A1, A2, 'Act1', A3)
FILTERS = ((A1, A2), ())
NOTIFY = 'http://10.0.0.1:8000/notify'
FILTER_SEPS = (' ', '\n    ', '\t', '  ')


def _limit():
    return smb.SubscriptionBase.MAX_NOTIFY_ERRORS


# ------------------------------------------------------------------------------------------------ (a') + (b): one subscription

def _mk_sub(cls, pool, filt, mx, expires=None):
    """A subscription built by the REAL constructor from a Subscribe object (no XML involved)."""
    req = evt.Subscribe()
    req.set_filter('\n    '.join(filt) + '\n')      # one action per line, as a pretty-printing subscriber writes the list
    req.Delivery.NotifyTo.Address = NOTIFY
    if expires is not None:
        req.Expires = expires
    return cls(None, req, [], BASE_URLS, mx, pool, msg_factory=MF, log_prefix='')


def life_int(is_async: bool, mx: int, has_req: bool, req: int, t0: int, d1: int, has_req2: bool, req2: int, d2: int,
             closed: bool, errors: int) -> str:
    """
    Integer-valued lifetime on the real code: Subscribe at t0 (requested req or none), read at t0+d1, Renew there, read at t0+d1+d2.
    pre: mx >= 1
    pre: req >= 1
    pre: req2 >= 1
    pre: t0 >= 0
    pre: d1 >= 0
    pre: d2 >= 0
    pre: errors >= 0
    post: __return__ == 'ok'
    """
    orc = Oracle()
    try:
        clock = env.install(env.FakeClock(t0))
        cls = sma.BicepsSubscriptionAsync if is_async else sms.BicepsSubscription
        s = _mk_sub(cls, env.FakePool(is_async), (A1,), mx, req if has_req else None)
        g = s._expire_seconds
        orc.check(g <= mx, 'granted_exceeds_provider_max')
        orc.check(not has_req or g <= req, 'granted_exceeds_requested')
        orc.check(0 <= s.remaining_seconds <= g, 'remaining_exceeds_granted')
        s._is_closed = closed
        s.notify_errors = errors
        clock.now = t0 + d1
        rem = s.remaining_seconds
        orc.check(rem == (g - d1 if d1 < g else 0), 'remaining_inconsistent_with_granted')
        alive = (not closed) and d1 < g and errors < _limit()
        valid = s.is_valid
        orc.check(not valid or not closed, 'valid_although_closed')
        orc.check(not valid or d1 < g, 'valid_after_expiry')
        orc.check(not valid or errors < _limit(), 'valid_after_failure_limit')
        orc.check(valid or not alive, 'invalid_although_alive')
        s.renew(req2 if has_req2 else None)
        g2 = s._expire_seconds
        orc.check(g2 <= mx, 'granted_exceeds_provider_max')
        orc.check(not has_req2 or g2 <= req2, 'granted_exceeds_requested')
        clock.now = t0 + d1 + d2
        rem2 = s.remaining_seconds
        orc.check(rem2 == (g2 - d2 if d2 < g2 else 0), 'remaining_inconsistent_with_granted')
        orc.check(s.is_valid == ((not closed) and d2 < g2 and errors < _limit()), 'valid_inconsistent_after_renew')
    except Exception as ex:  # noqa: BLE001
        return exc_result(orc, ex, 'life')
    return orc.result()


def _deliver(s, is_async, action):
    """What a manager does with one subscription for one report: filter match, then the real send method."""
    if not s.matches(action):
        return
    try:
        if is_async:
            env.drive(s.async_send_notification_report(BODY, action))
        else:
            s.send_notification_report(BODY, action)
    except DELIVERY_ERRORS:
        pass   # the managers log and swallow exactly these (checked on the real managers in mgr_history)


def _check_delivery(orc, n_sent, posts, alive, closed, unsub, expired, failed, literal, suffix):
    """Sandwich oracle for one report and one subscription. n_sent: messages handed to the subscriber's client."""
    sent = n_sent > 0
    orc.check(not sent or not unsub, 'sent_after_unsubscribe')
    orc.check(not sent or not closed, 'sent_after_end')
    orc.check(not sent or not expired, 'sent_after_expiry')
    orc.check(not sent or not failed, 'sent_after_delivery_failure_limit')
    orc.check(not sent or suffix, 'sent_action_not_in_filter')
    orc.check(sent or not (alive and literal), 'not_sent_while_alive')
    orc.check(n_sent <= 1, 'sent_more_than_once')
    for netloc, path, msg in posts:
        orc.check((netloc, path) == ('10.0.0.1:8000', '/notify') and msg.p_msg.header_info_block.To == NOTIFY,
                  'notification_wrong_address')


def send_iff_alive(is_async: bool, closed: bool, errors: int, expire: int, started: int, now: int, dt: int, unsub: bool,
                   empty_filter: bool, asel: int, asel2: int, o1: int) -> str:
    """
    Two consecutive reports to one subscription in an arbitrary lifetime state; the first delivery has outcome o1.
    pre: errors >= 0
    pre: expire >= 0
    pre: started >= 0
    pre: now >= started
    pre: dt >= 0
    pre: 0 <= asel < 4
    pre: 0 <= asel2 < 4
    pre: 0 <= o1 < 7
    post: __return__ == 'ok'
    """
    orc = Oracle()
    try:
        clock = env.install(env.FakeClock(now))
        pool = env.FakePool(is_async)
        filt, action, action2 = (FILTERS[1] if empty_filter else FILTERS[0]), pick(asel, ACTIONS), pick(asel2, ACTIONS)
        cls = sma.BicepsSubscriptionAsync if bool(is_async) else sms.BicepsSubscription
        with untraced():     # concrete inputs only
            s = _mk_sub(cls, pool, filt, 7200)
        s._is_closed = closed
        s.notify_errors = errors
        s._expire_seconds = expire
        s._started = started
        s.unsubscribed_at = clock.time() if unsub else None
        lim = _limit()
        # ---- report 1
        fails = errors
        alive = (not closed) and (not unsub) and now - started < expire and fails < lim
        pool.outcome = o1      # resolved by the fake client when (and only if) a message is handed over
        _deliver(s, is_async, action)
        n1 = len(pool.log)
        _check_delivery(orc, n1, pool.log, alive, closed, unsub, now - started >= expire, fails >= lim,
                        action in filt, any(f.endswith(action) for f in filt))
        if n1 > 0:
            fails = 0 if pool.outcome == 'ok' else fails + 1
        # ---- report 2 at a later time, delivery would succeed
        clock.now = now + dt
        pool.outcome = 'ok'
        del pool.log[:]
        alive = (not closed) and (not unsub) and now + dt - started < expire and fails < lim
        _deliver(s, is_async, action2)
        _check_delivery(orc, len(pool.log), pool.log, alive, closed, unsub, now + dt - started >= expire, fails >= lim,
                        action2 in filt, any(f.endswith(action2) for f in filt))
    except Exception as ex:  # noqa: BLE001
        return exc_result(orc, ex, 'send')
    return orc.result()


def filter_match(f0: str, f1: str, two: bool, action: str, maxlen: int) -> str:
    """
    Filter sandwich on symbolic strings: literal membership => match => some entry ends with the (stripped) action.
    pre: 1 <= len(f0) <= maxlen
    pre: 1 <= len(f1) <= maxlen
    pre: len(action) <= maxlen
    pre: 1 <= maxlen <= 3
    post: __return__ == 'ok'
    """
    orc = Oracle()
    try:
        if f0 != ''.join(f0.split()) or f1 != ''.join(f1.split()):
            return 'ok'   # filter entries are produced by str.split(): they never contain white space
        env.install(env.FakeClock(0))
        with untraced():     # concrete inputs only
            s = _mk_sub(sms.BicepsSubscription, env.FakePool(), (A1,), 7200)
        s.actions_filter = [f0, f1] if two else [f0]
        m = s.matches(action)
        orc.check(m or action not in s.actions_filter, 'literal_filter_entry_not_matched')
        orc.check(not m or any(f.endswith(action.strip()) for f in s.actions_filter), 'matched_action_not_in_filter')
    except Exception as ex:  # noqa: BLE001
        return exc_result(orc, ex, 'match')
    return orc.result()


# ------------------------------------------------------------------------------------------------ (c): manager histories

MGRS = (sms.PathDispatchingSubscriptionsManager, sms.ReferenceParamSubscriptionsManager,
        sma.SubscriptionsManagerPathAsync, sma.SubscriptionsManagerReferenceParamAsync)
MAX_DUR = 30
DURS = (None, 5, 9999)          # Expires absent / short / above the provider maximum
DTS = (1, 4, 40)                # clock advances: 1+4 reaches the short expiry exactly; 4 passes the housekeeping delay; 40 > max
SVC_PATH = '/dev/StateEvent'
SVC_ADDR = 'http://127.0.0.1:9000/dev/StateEvent'
T_START = 100
OP_SUBSCRIBE, OP_RENEW, OP_STATUS, OP_UNSUB, OP_REPORT, OP_ADVANCE, OP_HOUSEKEEPING, OP_STOP = range(8)
# per subscriber slot: has EndTo?, filter
SLOTS = ((True, (A1,)), (False, (A1, A2)))
# pre-states, built through the same real requests (checked by the same oracle)
PRE = (
    (),
    ((OP_SUBSCRIBE, 0, 1, 0),),
    ((OP_SUBSCRIBE, 0, 1, 0), (OP_SUBSCRIBE, 1, 0, 0)),
    # subscription #0 unsubscribed and collected by housekeeping: its identifier is "no longer known"
    ((OP_SUBSCRIBE, 0, 1, 0), (OP_SUBSCRIBE, 1, 0, 0), (OP_UNSUB, 0, 0, 0), (OP_ADVANCE, 0, 1, 0), (OP_HOUSEKEEPING, 0, 0, 0)),
    # subscription #0 expired and collected by housekeeping
    ((OP_SUBSCRIBE, 0, 1, 0), (OP_SUBSCRIBE, 1, 0, 0), (OP_ADVANCE, 0, 1, 0), (OP_ADVANCE, 0, 1, 0), (OP_HOUSEKEEPING, 0, 0, 0)),
    # delivery to both subscriptions failed once (limit reached), not yet collected
    ((OP_SUBSCRIBE, 0, 1, 0), (OP_SUBSCRIBE, 1, 0, 0), (OP_REPORT, 0, 0, 1)),
)


class MSub:
    """Reference model of one subscription as promised to the subscriber by the provider's responses."""

    def __init__(self, idx, slot, notify, end, filt, addr, refp, granted, started):
        self.idx, self.slot, self.notify, self.end, self.filt = idx, slot, notify, end, filt
        self.addr, self.refp = addr, refp            # subscription manager EPR from the SubscribeResponse
        self.granted, self.started = granted, started
        self.unsub = self.ended = False
        self.fails = 0

    def expired(self, now):
        return now - self.started >= self.granted

    def alive(self, now):
        return (not self.unsub) and (not self.ended) and (not self.expired(now)) and self.fails < _limit()


def _ep(address):
    u = urlsplit(address)
    return u.netloc, u.path


class World:
    def __init__(self, mk):
        self.mk = mk
        self.is_async = mk >= 2
        self.by_ref = mk in (1, 3)
        self.clock = env.install(env.FakeClock(T_START))
        self.pool = env.FakePool(self.is_async)
        self.mgr = MGRS[mk](SDC, MF, self.pool, max_subscription_duration=MAX_DUR, log_prefix='')
        self.mgr.set_base_urls(BASE_URLS)
        self.svc = _EventService(SimpleNamespace(msg_reader=MR), self.mgr, [])
        self.subs = []
        self.stopped = False
        self.n = 0

    # -- transport ---------------------------------------------------------------------------------------------
    def post(self, payload, addr, refp):
        """One request as the provider's HTTP layer hands it over: real envelope, real reader, path elements consumed."""
        inf = HeaderInformationBlock(action=payload.action, addr_to=addr, reference_parameters=refp)
        raw = MF.mk_soap_message(inf, payload).serialize(validate=False)
        rd = RequestData({'Accept-Encoding': 'gzip'}, urlsplit(addr).path, 'peer', raw, MR.read_received_message(raw, validate=False))
        rd.consume_current_path_element()   # device uuid
        rd.consume_current_path_element()   # hosted service
        resp = self.svc.on_post(rd)
        return MR.read_received_message(resp.serialize(validate=False), validate=False)

    def snapshot(self):
        return sorted((s.identifier_uuid.hex, s._started, s._expire_seconds, s.unsubscribed_at, s._is_closed, s.notify_errors)
                      for s in self.mgr._subscriptions.objects)

    def in_table(self, m):
        return any(s.notify_to_address == m.notify for s in self.mgr._subscriptions.objects)

    def target(self, t):
        """(model subscription or None, address, reference parameters) for target selector t: #0, #1, else a never issued id."""
        if t < len(self.subs):
            m = self.subs[t]
            return m, m.addr, m.refp
        if self.by_ref:
            el = etree.Element(smb.SubscriptionBase.IDENT_TAG)
            el.text = 'deadbeef' if t < 3 else None
            return None, SVC_ADDR, ([el] if t < 3 else [])
        return None, (SVC_ADDR + '/deadbeef' if t < 3 else SVC_ADDR), []

    def zombie(self, m):
        """Unsubscribed but not yet collected by housekeeping."""
        return m is not None and m.unsub and not m.ended and self.in_table(m)


def _is_fault(resp):
    return resp.q_name is not None and resp.q_name.localname == 'Fault'


def _check_grant(orc, granted, dur):
    orc.check(granted <= MAX_DUR, 'granted_exceeds_provider_max')
    orc.check(dur is None or granted <= dur, 'granted_exceeds_requested')
    orc.check(granted >= 0, 'granted_negative')


def _must_fault(w, m):
    """Why a request naming this target has to be answered with a fault (None: no such obligation)."""
    if m is None:
        return 'unknown'
    if m.unsub:
        return 'unsubscribed'
    if m.ended:
        return 'ended'
    return None


def step(w, orc, op, t, p, q, zombies):
    """One history step on the real manager + reference model. Returns False if the history is cut here (partition)."""
    now = w.clock.now
    lim = _limit()
    w.n += 1
    if op == OP_SUBSCRIBE:
        slot = t
        has_end, filt = SLOTS[slot]
        dur = DURS[p]
        notify = f'http://10.0.{slot}.1:8000/notify{w.n}'
        end = f'http://10.0.{slot}.9:8009/end{w.n}' if has_end else None
        req = evt.Subscribe()
        # wse:Filter is a whitespace separated list: any run of blanks, tabs and line breaks separates (and may surround) the
        # actions - a pretty-printing subscriber writes one action per line
        sep = FILTER_SEPS[w.n % len(FILTER_SEPS)]
        req.set_filter(('\n  ' if w.n % 2 else '') + sep.join(filt) + ('\n' if w.n % 2 else ''))
        req.Delivery.NotifyTo.Address = notify
        ident = etree.Element('{urn:verif}NotifyIdent')       # a reference parameter of the NotifyTo endpoint ONLY
        ident.text = f'n{w.n}'
        req.Delivery.NotifyTo.ReferenceParameters = [ident]
        if end:
            req.init_end_to()
            req.EndTo.Address = end
        if dur is not None:
            req.Expires = dur
        resp = w.post(req, SVC_ADDR, [])
        if _is_fault(resp):
            orc.check(w.stopped, 'subscribe_rejected')
            return True
        body = evt.SubscribeResponse.from_node(resp.p_msg.msg_node)
        _check_grant(orc, body.Expires, dur)
        w.subs.append(MSub(len(w.subs), slot, notify, end, filt, body.SubscriptionManager.Address,
                           list(body.SubscriptionManager.ReferenceParameters), body.Expires, now))
        w.stopped = False
    elif op in (OP_RENEW, OP_STATUS, OP_UNSUB):
        m, addr, refp = w.target(t)
        if w.zombie(m) and not zombies:
            return False
        name = ('renew', 'getstatus', 'unsubscribe')[op - OP_RENEW]
        dur = DURS[p] if op == OP_RENEW else None
        if op == OP_RENEW:
            payload = evt.Renew()
            if dur is not None:
                payload.Expires = dur
        else:
            payload = evt.GetStatus() if op == OP_STATUS else evt.Unsubscribe()
        before = w.snapshot()
        resp = w.post(payload, addr, refp)
        why = _must_fault(w, m)
        if _is_fault(resp):
            orc.check(m is None or not m.alive(now), name + '_on_live_subscription_faults')
            orc.check(w.snapshot() == before, 'fault_changed_subscription_table')
            return True
        orc.check(resp.action == payload.action + 'Response', 'unexpected_response')
        orc.check(why is None, f'{name}_on_{why}_succeeds')
        if m is None:
            return True
        if op == OP_RENEW:
            body = evt.RenewResponse.from_node(resp.p_msg.msg_node)
            _check_grant(orc, body.Expires, dur)
            m.granted, m.started = body.Expires, now
        elif op == OP_STATUS:
            body = evt.GetStatusResponse.from_node(resp.p_msg.msg_node)
            expect = max(m.granted - (now - m.started), 0)
            orc.check(body.Expires <= expect + 0.01, 'status_exceeds_granted_remaining')
            orc.check(body.Expires >= expect - 0.01, 'status_below_granted_remaining')
        else:
            m.unsub = True
    elif op == OP_REPORT:
        action = (A1, A2)[p]
        if not zombies and any(w.zombie(m) and any(f.endswith(action) for f in m.filt) for m in w.subs):
            return False
        w.pool.outcome = env.OUTCOMES[q]
        del w.pool.log[:]
        w.mgr.send_to_subscribers(BODY, action, None)
        log = list(w.pool.log)
        for m in w.subs:
            mine = [e for e in log if (e[0], e[1]) == _ep(m.notify)]
            sent = len(mine) > 0
            orc.check(not sent or not m.unsub, 'sent_after_unsubscribe')
            orc.check(not sent or not m.ended, 'sent_after_end')
            orc.check(not sent or not m.expired(now), 'sent_after_expiry')
            orc.check(not sent or m.fails < lim, 'sent_after_delivery_failure_limit')
            orc.check(not sent or any(f.endswith(action) for f in m.filt), 'sent_action_not_in_filter')
            orc.check(sent or not (m.alive(now) and action in m.filt), 'not_sent_while_alive')
            orc.check(len(mine) <= 1, 'sent_more_than_once')
            for e in mine:
                hib = e[2].p_msg.header_info_block
                orc.check(hib.To == m.notify and hib.Action == action, 'notification_wrong_address')
                orc.check([r.tag for r in hib.reference_parameters] == ['{urn:verif}NotifyIdent'], 'notification_without_notify_reference_parameters')
            if sent:
                m.fails = 0 if w.pool.outcome == 'ok' else m.fails + 1
        known = {_ep(m.notify) for m in w.subs}
        orc.check(all((e[0], e[1]) in known for e in log), 'sent_to_unknown_address')
        w.pool.outcome = 'ok'
    elif op == OP_ADVANCE:
        w.clock.now = now + DTS[p]
    elif op == OP_HOUSEKEEPING:
        env.housekeeping_pass(w.mgr, w.clock)
        for m in w.subs:
            orc.check(w.in_table(m) or not m.alive(now), 'live_subscription_dropped_by_housekeeping')
    else:   # OP_STOP
        send_end = p == 0
        w.pool.outcome = ('ok', 'refused')[q]
        del w.pool.log[:]
        w.mgr.stop_all(send_end)
        log = list(w.pool.log)
        if send_end:
            for m in w.subs:
                eps = {_ep(m.notify)} | ({_ep(m.end)} if m.end else set())
                mine = [e for e in log if (e[0], e[1]) in eps and e[2].p_msg.header_info_block.Action == EventingActions.SubscriptionEnd]
                if not m.alive(now):
                    # nothing is sent for a subscription that is not alive - a SubscriptionEnd is a message, too
                    orc.check(len(mine) == 0, 'subscription_end_sent_for_dead_subscription')
                    continue
                orc.check(len(mine) == 1, 'subscription_end_count!=1')
                want = m.end or m.notify
                for e in mine:
                    orc.check((e[0], e[1]) == _ep(want) and e[2].p_msg.header_info_block.To == want,
                              'subscription_end_wrong_address')
                    refs = [r.tag for r in e[2].p_msg.header_info_block.reference_parameters]
                    orc.check(('{urn:verif}NotifyIdent' in refs) == (m.end is None), 'subscription_end_with_reference_parameters_of_another_endpoint')
        else:
            orc.check(not any(e[2].p_msg.header_info_block.Action == EventingActions.SubscriptionEnd for e in log),
                      'subscription_end_sent_although_not_requested')
        for m in w.subs:
            m.ended = True
        w.stopped = True
        w.pool.outcome = 'ok'
    return True


def _history(mk, pre, steps, zombies):
    orc = Oracle()
    try:
        w = World(mk)
        for st in PRE[pre]:
            step(w, orc, *st, True)
        for st in steps:
            if st[0] < 0:
                break
            if not step(w, orc, *st, zombies):
                break
    except Exception as ex:  # noqa: BLE001
        return exc_result(orc, ex, 'history')
    return orc.result()


def _sel_step(op, t, p, q, nt, slim):
    """Resolve the selectors of one step by explicit branching; only those the operation uses are evaluated.
    slim: requested durations only {absent, 5 s} (the 9999 s > max request is left to the histories run with slim False)."""
    op = pick(op, tuple(range(8)))
    t_, p_, q_ = 0, 0, 0
    durs = (0, 1) if slim else (0, 1, 2)
    if op == OP_SUBSCRIBE:
        t_, p_ = pick(t, (0, 1)), pick(p, durs)
    elif op == OP_RENEW:
        t_, p_ = pick(t, tuple(range(nt))), pick(p, durs)
    elif op in (OP_STATUS, OP_UNSUB):
        t_ = pick(t, tuple(range(nt)))
    elif op == OP_REPORT:
        p_, q_ = pick(p, (0, 1)), pick(q, tuple(range(len(env.OUTCOMES))))
    elif op == OP_ADVANCE:
        p_ = pick(p, (0, 1, 2))
    elif op == OP_STOP:
        p_, q_ = pick(p, (0, 1)), pick(q, (0, 1))
    return op, t_, p_, q_


MKSETS = ((0, 1, 2, 3), (0, 3), (1, 2))


def mgr_history(mkset: int, mk: int, pre: int, n: int, nt: int, zombies: bool, slim: bool,
                op1: int, t1: int, p1: int, q1: int, op2: int, t2: int, p2: int, q2: int,
                op3: int, t3: int, p3: int, q3: int) -> str:
    """
    Manager kind MGRS[mk] (mk beyond the pool MKSETS[mkset] means its last entry), pre-state PRE[pre], then n <= 3 arbitrary steps. nt: number of request targets (3: #0, #1, never issued id; 4: + no id at all).
    zombies False: the history is cut before a step that addresses an unsubscribed, not yet collected subscription (those
    histories are the subject of the obligations run with zombies True).
    pre: 0 <= mkset < 3
    pre: 0 <= mk < 4
    pre: 0 <= pre < 6
    pre: 1 <= n <= 3
    pre: 3 <= nt <= 4
    pre: 0 <= op1 < 8
    pre: 0 <= t1 < 4
    pre: 0 <= p1 < 3
    pre: 0 <= q1 < 7
    pre: 0 <= op2 < 8
    pre: 0 <= t2 < 4
    pre: 0 <= p2 < 3
    pre: 0 <= q2 < 7
    pre: 0 <= op3 < 8
    pre: 0 <= t3 < 4
    pre: 0 <= p3 < 3
    pre: 0 <= q3 < 7
    post: __return__ == 'ok'
    """
    mk, pre = pick(mk, pick(mkset, MKSETS)), pick(pre, tuple(range(len(PRE))))
    n, nt, zombies, slim = pick(n, (1, 2, 3)), pick(nt, (3, 4)), bool(zombies), bool(slim)
    steps = [_sel_step(op1, t1, p1, q1, nt, slim)]
    if n >= 2:
        steps.append(_sel_step(op2, t2, p2, q2, nt, slim))
    if n >= 3:
        steps.append(_sel_step(op3, t3, p3, q3, nt, slim))
    with untraced():
        return _history(mk, pre, steps, zombies)


# ------------------------------------------------------------------------------------------------ delivery outcome at the soap client

ERR_STATUS = (200, 202, 301, 400, 404, 500, 503)
ERR_BODIES = (b'', b'<html><body><h1>404 Not Found</h1></body></html>', b'\xff\xfe\x00not utf-8', b'OK',
              b'<s12:Envelope xmlns:s12="http://www.w3.org/2003/05/soap-envelope"><s12:Body><s12:Fault><s12:Code><s12:Value>s12:Receiver'
              b'</s12:Value></s12:Code><s12:Reason><s12:Text xml:lang="en">x</s12:Text></s12:Reason></s12:Fault></s12:Body></s12:Envelope>')


def client_error_status(use_async: bool, ssel: int, bsel: int) -> str:
    """
    What the delivery code of the subscriptions sees from the REAL SoapClient / SoapClientAsync when the subscriber answers
    with status ERR_STATUS[ssel] and body ERR_BODIES[bsel] (empty, html error page, not utf-8, plain text, soap fault): an
    error status (>= 300) is reported as HTTPReturnCodeError - the exception both managers count as a delivery failure and
    survive - whatever the body is; a success status with an empty body is a successful delivery.
    pre: 0 <= ssel < 7
    pre: 0 <= bsel < 5
    post: __return__ == 'ok'
    """
    import asyncio
    from harness import httpstubs as hs
    from sdc11073.definitions_sdc import SdcV1Definitions
    from sdc11073.pysoap.msgreader import MessageReader
    from sdc11073.pysoap.soapclient import HTTPReturnCodeError, SoapClient
    from sdc11073.pysoap.soapclient_async import SoapClientAsync
    status, body = pick(ssel, ERR_STATUS), pick(bsel, ERR_BODIES)
    use_async = bool(use_async)
    with untraced():
        orc = Oracle()
        try:
            reader = MessageReader(SdcV1Definitions, None, hs.NullLogger(), validate=False)
            payload = b'<?xml version="1.0" encoding="utf-8"?><x/>'
            outcome = 'returned'
            try:
                if use_async:
                    class Resp:
                        reason = 'stub'

                        async def text(self):
                            return body.decode('utf-8', errors='replace')

                        async def __aenter__(self):
                            return self

                        async def __aexit__(self, *a):
                            return False
                    Resp.status = status
                    cl = SoapClientAsync('h:1', 1.0, hs.NullLogger(), None, SdcV1Definitions, reader, supported_encodings=[],
                                         request_encodings=[], chunk_size=0)
                    cl._http_connection = SimpleNamespace(post=lambda path, data=None, headers=None, **_kw: Resp(), closed=False)
                    msg = SimpleNamespace(p_msg=None, serialize=lambda request_manipulator=None: payload)
                    asyncio.run(cl.async_post_message_to('/p', msg))
                else:
                    cl = SoapClient('h:1', 1.0, hs.NullLogger(), None, SdcV1Definitions, reader, supported_encodings=[],
                                    request_encodings=[], chunk_size=0)
                    cl._http_connection = SimpleNamespace(
                        request=lambda *a, **k: None,
                        getresponse=lambda: hs.FakeResponse(hs.CIHeaders([('Content-Length', str(len(body)))]), hs.FakeStream(body),
                                                            status=status, reason='stub'))
                    cl._send_soap_request('/p', payload, 'msg')
            except HTTPReturnCodeError:
                outcome = 'http_error'
            except Exception as ex:  # noqa: BLE001
                outcome = 'other:' + type(ex).__name__
            if status >= 300:
                orc.check(outcome == 'http_error', 'error_status_not_reported_as_http_error:' + outcome.split(':')[0])
            elif body == b'':
                orc.check(outcome == 'returned', 'successful_delivery_reported_as_failure')
        except Exception as ex:  # noqa: BLE001
            return exc_result(orc, ex, 'client')
        return orc.result()


def pool_after_broken_connection(where: int, same_user: bool, n_users: int) -> str:
    """
    REAL SoapClientPool + REAL SoapClient (stub HTTP connection): the connection of the pooled client of a network location
    breaks (0 while sending the request, 1 while reading the response, 2 by an HTTP protocol error); afterwards the same or
    another user (subscription) of that location asks the pool for its client and posts a message: a request must really be
    attempted (a subscription that is alive is SENT the notification), it must not fail locally without any traffic.
    pre: 0 <= where <= 2
    pre: 1 <= n_users <= 3
    post: __return__ == 'ok'
    """
    import http.client
    from harness import httpstubs as hs
    from sdc11073.definitions_sdc import SdcV1Definitions
    from sdc11073.pysoap.msgreader import MessageReader
    from sdc11073.pysoap.soapclient import SoapClient
    from sdc11073.pysoap.soapclientpool import SoapClientPool
    where, same_user, n_users = pick(where, (0, 1, 2)), bool(same_user), pick(n_users, (1, 2, 3))
    with untraced():
        orc = Oracle()
        try:
            reader = MessageReader(SdcV1Definitions, None, hs.NullLogger(), validate=False)
            attempts = []
            broken = [True]

            class Conn:
                sock = SimpleNamespace(getsockname=lambda: ('10.0.0.2', 40000), getpeername=lambda: ('10.0.0.1', 8000),
                                       setsockopt=lambda *a: None, close=lambda: None)

                def __init__(self, *_a, **_k):
                    pass

                def connect(self):
                    pass

                def close(self):
                    self.sock = None

                def request(self, *a, **k):
                    attempts.append('request')
                    if broken[0] and where == 0:
                        raise ConnectionResetError(104, 'peer dropped the connection')

                def getresponse(self):
                    if broken[0] and where == 1:
                        raise ConnectionResetError(104, 'peer dropped the connection')
                    if broken[0] and where == 2:
                        raise http.client.RemoteDisconnected('Remote end closed connection without response')
                    return hs.FakeResponse(hs.CIHeaders([('Content-Length', '0')]), hs.FakeStream(b''), status=202, reason='Accepted')

            def factory(netloc, accepted):
                cl = SoapClient(netloc, 1.0, hs.NullLogger(), None, SdcV1Definitions, reader, supported_encodings=[],
                                request_encodings=[], chunk_size=0)
                cl._mk_http_connection = lambda: Conn()
                return cl
            pool = SoapClientPool(factory, '')
            msg = SimpleNamespace(p_msg=None, serialize=lambda request_manipulator=None, validate=True:
                                  b'<?xml version="1.0" encoding="utf-8"?><x/>')
            users = [f'subscription{i}' for i in range(n_users)]
            for u in users:
                pool.get_soap_client('10.0.0.1:8000', [], u)
            try:
                pool.get_soap_client('10.0.0.1:8000', [], users[0]).post_message_to('/notify', msg, validate=False)
                orc.fail('harness:connection-did-not-break')
            except http.client.NotConnected:
                pass            # what SoapClient makes of a broken connection
            broken[0] = False           # the subscriber is reachable again
            del attempts[:]
            user = users[0] if same_user else 'accepted_later'
            try:
                pool.get_soap_client('10.0.0.1:8000', [], user).post_message_to('/notify', msg, validate=False)
            except Exception as ex:  # noqa: BLE001
                orc.fail('delivery_fails_locally_after_an_earlier_connection_error:' + type(ex).__name__)
            orc.check(attempts == ['request'], 'no_request_made_after_an_earlier_connection_error')
        except Exception as ex:  # noqa: BLE001
            return exc_result(orc, ex, 'pool')
        return orc.result()

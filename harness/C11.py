"""C11 harnesses: MultiKeyLookup indices always agree with a linear scan (CrossHair, E1).

Keys are chosen by explicit branching on symbolic selectors from pools of distinct concrete keys, so that every equality
pattern among keys (all that hashing/equality can observe) is covered while the path tree stays finite.
"""
from vf.hutil import Oracle, exc_result, quiet, untraced

quiet()
from sdc11073 import multikey  # noqa: E402

U_POOL = ('u0', 'u1', 'u2', 'u3')
G_POOL = (None, 'ga', 'gb')
L_POOL = ((), ('x',), ('x', 'x'), ('x', 'y'), None)      # ('x', 'x'): the same key named twice (schema-valid for pm:Source)


class Obj:
    def __init__(self, name, u, g, l):  # noqa: E741
        self.name, self.u, self.g, self.l = name, u, g, (None if l is None else list(l))

    def __repr__(self):
        return f'Obj({self.name},{self.u},{self.g},{self.l})'


def pick(sel, pool):
    for i in range(len(pool) - 1):
        if sel == i:
            return pool[i]
    return pool[-1]


def mk_table():
    t = multikey.MultiKeyLookup()
    t.add_index('by_u', multikey.UIndexDefinition(lambda o: o.u))
    t.add_index('by_g', multikey.IndexDefinition(lambda o: o.g, index_none_values=False))
    t.add_index('by_l', multikey.IndexDefinition1n(lambda o: o.l, index_none_values=False))
    return t


def scan(objs):
    """Reference: group the stored objects by their current key values (what a linear scan would return)."""
    by_u, by_g, by_l = {}, {}, {}
    for o in objs:
        by_u.setdefault(o.u, []).append(o.name)
        if o.g is not None:
            by_g.setdefault(o.g, []).append(o.name)
        if o.l is not None:
            for k in dict.fromkeys(o.l):       # a scan finds the object once, however often it names the key
                by_l.setdefault(k, []).append(o.name)
    return by_u, by_g, by_l


def norm(idx):
    return {k: sorted(o.name for o in v) for k, v in idx.items()}


def snapshot(t):
    with untraced():
        return _snapshot(t)


def _snapshot(t):
    return (sorted(o.name for o in t.objects), norm(t.by_u), norm(t.by_g), norm(t.by_l),
            sorted((k, len(v)) for k, v in t._object_ids.items()))


def consistent(t, orc, tag):
    with untraced():
        _consistent(t, orc, tag)


def _consistent(t, orc, tag):
    by_u, by_g, by_l = scan(t.objects)
    orc.check(norm(t.by_u) == {k: sorted(v) for k, v in by_u.items()}, tag + ':uindex!=scan')
    orc.check(norm(t.by_g) == {k: sorted(v) for k, v in by_g.items()}, tag + ':index!=scan')
    orc.check(norm(t.by_l) == {k: sorted(v) for k, v in by_l.items()}, tag + ':index1n!=scan')
    orc.check(sorted(t._object_ids.keys()) == sorted(id(o) for o in t.objects), tag + ':object_ids!=objects')
    # lookups through the public accessors
    for o in t.objects:
        got = t.by_u.get_one(o.u, allow_none=True)
        orc.check(got is o, tag + ':get_one(u)')


def u_free(t, u, me):
    return all(o is me or o.u != u for o in t.objects)


def apply_op(t, objs, op, i, j, a, v, orc, tag):
    """One table operation chosen by selectors. Returns nothing; records violations in orc."""
    o, p = pick(i, objs), pick(j, objs)
    before = _snapshot(t)
    if op == 0:      # add (duplicate unique key => must be rejected with KeyError and leave the table untouched)
        dup = (o not in t.objects) and not u_free(t, o.u, o)
        try:
            t.add_object(o)
            orc.check(not dup, tag + ':dup-unique-key-accepted')
        except KeyError:
            orc.check(dup, tag + ':add-rejected-without-duplicate')
            orc.check(_snapshot(t) == before, tag + ':rejected-add-changed-table')
    elif op == 1:    # change an indexed attribute, then re-index
        if a == 0:
            nu = pick(v, U_POOL)
            if not u_free(t, nu, o):
                if o not in t.objects:
                    return
                # the new unique key is in use: the re-index must be REJECTED, the object must stay findable under its old key,
                # and once the application has put the old value back everything is as before
                old_u = o.u
                o.u = nu
                try:
                    t.update_object(o)
                    orc.fail(tag + ':dup-unique-key-accepted-by-update')
                except KeyError:
                    pass
                o.u = old_u
                orc.check(t.by_u.get_one(old_u, allow_none=True) is o, tag + ':object-lost-from-index-after-rejected-update')
                t.update_object(o)
                orc.check(_snapshot(t) == before, tag + ':rejected-update-changed-table')
                return
            o.u = nu
        elif a == 1:
            o.g = pick(v, G_POOL)
        else:
            lv = pick(v, L_POOL)
            o.l = None if lv is None else list(lv)
        if o in t.objects:
            t.update_object(o)
        else:
            try:
                t.update_object(o)
                orc.fail(tag + ':update-of-unknown-accepted')
            except ValueError:
                orc.check(_snapshot(t) == before, tag + ':rejected-update-changed-table')
    elif op == 2:
        t.remove_object(o)
        orc.check(o not in t.objects, tag + ':remove-left-object')
    elif op == 3:
        t.remove_objects([o, p])
        orc.check(o not in t.objects and p not in t.objects, tag + ':remove_objects-left-object')
    elif op == 4:
        t.clear()
        orc.check(len(t.objects) == 0, tag + ':clear-left-objects')
    else:            # add_objects of two objects with distinct free unique keys
        if o is p or o.u == p.u or not u_free(t, o.u, o) or not u_free(t, p.u, p):
            return
        t.add_objects([o, p])
        orc.check(o in t.objects and p in t.objects, tag + ':add_objects-missed')


def _mk_objs(g0, l0, same_u):
    # o0: the object whose keys are symbolic; o1: fixed neighbour; o2: outsider that may collide with o0's unique key
    return [Obj('o0', 'u0', pick(g0, G_POOL), pick(l0, L_POOL)),
            Obj('o1', 'u1', 'ga', ('x',)),
            Obj('o2', 'u0' if same_u else 'u2', 'ga', ('x', 'y'))]


def table_step(in0: bool, in2: bool, g0: int, l0: int, same_u: bool, op: int, i: int, j: int, a: int, v: int) -> str:
    """
    Inductive step: arbitrary small table content (built through the real add_object) then ONE arbitrary operation.
    pre: 0 <= g0 < 3
    pre: 0 <= l0 < 5
    pre: 0 <= op < 6
    pre: 0 <= i < 3
    pre: 0 <= j < 3
    pre: 0 <= a < 3
    pre: 0 <= v < 5
    post: __return__ == 'ok'
    """
    # selectors -> concrete values by explicit branching (this is where the solver forks); the rest is concrete
    R3, R5, R6 = (0, 1, 2), (0, 1, 2, 3, 4), (0, 1, 2, 3, 4, 5)
    in0, in2, same_u = bool(in0), bool(in2), bool(same_u)
    g0, l0, op = pick(g0, R3), pick(l0, R5), pick(op, R6)
    i = pick(i, R3) if op != 4 else 0
    j = pick(j, R3) if op in (3, 5) else 0
    a = pick(a, R3) if op == 1 else 0
    v = pick(v, R5) if op == 1 else 0
    with untraced():
        return _table_step(in0, in2, g0, l0, same_u, op, i, j, a, v)


def _table_step(in0, in2, g0, l0, same_u, op, i, j, a, v):
    orc = Oracle()
    objs = _mk_objs(g0, l0, same_u)
    t = mk_table()
    try:
        t.add_object(objs[1])
        if in0:
            t.add_object(objs[0])
        if in2 and not (same_u and in0):
            t.add_object(objs[2])
        _consistent(t, orc, 'pre')
        apply_op(t, objs, op, i, j, a, v, orc, 'op')
        _consistent(t, orc, 'post')
    except Exception as ex:  # noqa: BLE001
        return exc_result(orc, ex)
    return orc.result()


def table_two_ops(in0: bool, g0: int, l0: int, same_u: bool,
                  op1: int, i1: int, j1: int, a1: int, v1: int, op2: int, i2: int, j2: int, a2: int, v2: int) -> str:
    """
    Two consecutive arbitrary operations, checked after each.
    pre: 0 <= g0 < 3
    pre: 0 <= l0 < 5
    pre: 0 <= op1 < 6
    pre: 0 <= i1 < 3
    pre: 0 <= j1 < 3
    pre: 0 <= a1 < 3
    pre: 0 <= v1 < 5
    pre: 0 <= op2 < 6
    pre: 0 <= i2 < 3
    pre: 0 <= j2 < 3
    pre: 0 <= a2 < 3
    pre: 0 <= v2 < 5
    post: __return__ == 'ok'
    """
    R3, R5, R6 = (0, 1, 2), (0, 1, 2, 3, 4), (0, 1, 2, 3, 4, 5)
    in0, same_u = bool(in0), bool(same_u)
    g0, l0, op1, op2 = pick(g0, R3), pick(l0, R5), pick(op1, R6), pick(op2, R6)
    i1 = pick(i1, R3) if op1 != 4 else 0
    j1 = pick(j1, R3) if op1 in (3, 5) else 0
    a1 = pick(a1, R3) if op1 == 1 else 0
    v1 = pick(v1, R5) if op1 == 1 else 0
    i2 = pick(i2, R3) if op2 != 4 else 0
    j2 = pick(j2, R3) if op2 in (3, 5) else 0
    a2 = pick(a2, R3) if op2 == 1 else 0
    v2 = pick(v2, R5) if op2 == 1 else 0
    with untraced():
        return _table_two_ops(in0, g0, l0, same_u, op1, i1, j1, a1, v1, op2, i2, j2, a2, v2)


def _table_two_ops(in0, g0, l0, same_u, op1, i1, j1, a1, v1, op2, i2, j2, a2, v2):
    orc = Oracle()
    objs = _mk_objs(g0, l0, same_u)
    t = mk_table()
    try:
        t.add_object(objs[1])
        if in0:
            t.add_object(objs[0])
        apply_op(t, objs, op1, i1, j1, a1, v1, orc, 'op1')
        _consistent(t, orc, 'mid')
        apply_op(t, objs, op2, i2, j2, a2, v2, orc, 'op2')
        _consistent(t, orc, 'post')
    except Exception as ex:  # noqa: BLE001
        return exc_result(orc, ex)
    return orc.result()


def table_three_ops(in0: bool, g0: int, l0: int, same_u: bool,
                    op1: int, i1: int, j1: int, a1: int, v1: int, op2: int, i2: int, j2: int, a2: int, v2: int,
                    op3: int, i3: int, j3: int, a3: int, v3: int) -> str:
    """
    Three consecutive arbitrary operations, checked after each (thorough tier; case split over op1).
    pre: 0 <= g0 < 3
    pre: 0 <= l0 < 5
    pre: 0 <= op1 < 6
    pre: 0 <= i1 < 3
    pre: 0 <= j1 < 3
    pre: 0 <= a1 < 3
    pre: 0 <= v1 < 5
    pre: 0 <= op2 < 6
    pre: 0 <= i2 < 3
    pre: 0 <= j2 < 3
    pre: 0 <= a2 < 3
    pre: 0 <= v2 < 5
    pre: 0 <= op3 < 6
    pre: 0 <= i3 < 3
    pre: 0 <= j3 < 3
    pre: 0 <= a3 < 3
    pre: 0 <= v3 < 5
    post: __return__ == 'ok'
    """
    R3, R5, R6 = (0, 1, 2), (0, 1, 2, 3, 4), (0, 1, 2, 3, 4, 5)
    in0, same_u = bool(in0), bool(same_u)
    g0, l0 = pick(g0, R3), pick(l0, R5)
    steps = []
    for op, i, j, a, v in ((op1, i1, j1, a1, v1), (op2, i2, j2, a2, v2), (op3, i3, j3, a3, v3)):
        op = pick(op, R6)
        steps.append((op, pick(i, R3) if op != 4 else 0, pick(j, R3) if op in (3, 5) else 0,
                      pick(a, R3) if op == 1 else 0, pick(v, R5) if op == 1 else 0))
    with untraced():
        orc = Oracle()
        objs = _mk_objs(g0, l0, same_u)
        t = mk_table()
        try:
            t.add_object(objs[1])
            if in0:
                t.add_object(objs[0])
            for n, (op, i, j, a, v) in enumerate(steps, 1):
                apply_op(t, objs, op, i, j, a, v, orc, f'op{n}')
                _consistent(t, orc, f'after{n}')
        except Exception as ex:  # noqa: BLE001
            return exc_result(orc, ex)
        return orc.result()

"""C09 harnesses: operation invocations follow the BICEPS invocation-state protocol end to end (CrossHair, E1).

Provider side: the REAL SetService/ContextService._on_* -> ServiceWithOperations._handle_operation_request ->
SdcProvider.get_operation_by_handle / generate_transaction_id / handle_operation_request -> ScoOperationsRegistry.handle_operation_request
-> (queued) the body of _OperationsWorker.run executed IN THE CALLING THREAD -> SetService.notify_operation, on a small real
ProviderMdib. The handler outcome, direct/queued mode, known/unknown operation handle and the request kind are selectors, the
start value of the provider's transaction counter is a symbolic int.

Consumer side: the REAL OperationsManager.call_operation / on_operation_invoked_report. XML parsing is an identity stub, so
transaction ids are UNCONSTRAINED symbolic ints; the position of the response's critical section among the reports is a
symbolic int; invocation states are selectors.
"""
import queue
import threading
import types
from collections import deque
from concurrent.futures import Future

from vf.hutil import concrete, Oracle, exc_result, pick, quiet, untraced

quiet()

from sdc11073 import loghelper  # noqa: E402
from sdc11073.consumer import operations as cops  # noqa: E402
from sdc11073.definitions_sdc import SdcV1Definitions  # noqa: E402
from sdc11073.mdib import descriptorcontainers as dc  # noqa: E402
from sdc11073.provider import operations as pops  # noqa: E402
from sdc11073.provider import sco as sco_mod  # noqa: E402
from sdc11073.provider.porttypes.contextserviceimpl import ContextService  # noqa: E402
from sdc11073.provider.porttypes.setserviceimpl import SetService  # noqa: E402
from sdc11073.provider.providerimpl import SdcProvider  # noqa: E402
from sdc11073.xml_types import msg_types  # noqa: E402

from harness import mdibkit as k  # noqa: E402

IS = msg_types.InvocationState
NON_FINAL = (IS.WAIT, IS.START)
FAILING = (IS.FAILED, IS.CANCELLED, IS.CANCELLED_MANUALLY)
# selector pools. The first four are the quick-tier pool (one representative per class the code distinguishes + both non-finals)
STATES = (IS.WAIT, IS.START, IS.FINISHED, IS.FAILED, IS.FINISHED_MOD, IS.CANCELLED, IS.CANCELLED_MANUALLY)
RAISES = 'raises'
OUTCOMES = (IS.FINISHED, IS.FINISHED_MOD, IS.FAILED, RAISES, IS.CANCELLED, IS.CANCELLED_MANUALLY)
OUTCOME_NAMES = ('fin', 'finmod', 'fail', 'raises', 'cancelled', 'cancelled_manually')

STUBS_PROVIDER = [
    'XML parsing / serialisation is an identity stub: <Request>.from_node returns the prepared request OBJECT, '
    'OperationInvokedReport.as_etree_node returns the report OBJECT, msg_factory.mk_reply_soap_message returns the response OBJECT',
    'provider = stub object holding the real ProviderMdib, the sco registry dict, _transaction_id (symbolic) and a real '
    'threading.Lock; its methods get_operation_by_handle / generate_transaction_id / handle_operation_request are the real '
    'SdcProvider functions',
    'port types created with __new__ (no HTTP server, no sockets); the subscriptions manager is a capture list',
    '_OperationsWorker is never started as a thread: run() is executed in the calling thread; its queue is a queue.Queue '
    'subclass (real capacity) whose get() hands out the stop sentinel when empty instead of blocking and whose put() is '
    'non-blocking (the 1 s put timeout elapses without the worker making progress)',
    'time module inside sco.py / operations.py replaced by a concrete increasing clock with a no-op sleep',
    'operation handler = stub returning ExecuteResult(target, <state by selector>) or raising RuntimeError',
    'logging disabled',
]
STUBS_CONSUMER = [
    'XML parsing is an identity stub: AbstractSetResponse.from_node / OperationInvokedReport.from_node return the prepared real '
    'msg_types objects whose TransactionId is an unconstrained symbolic int',
    'hosted service client stub: post_message delivers the reports that arrive before the response is processed (their number is '
    'the symbolic position) by calling on_operation_invoked_report, then returns the response',
    'OperationsManager._transactions (dict) is replaced by a list-backed mapping with the same interface (key comparison by ==, '
    'no hashing of symbolic keys); it and the recent-parts deque (subclass, real maxlen) record whether _transactions_lock is '
    'held at every access - that is what reduces the thread interleavings to the position of the critical sections',
    'concurrent.futures.Future inside consumer/operations.py is a subclass that records every set_result call',
    'logging disabled',
]

sco_mod.time = k.FROZEN_TIME


def pickv(value, pool):
    """Like pick, but by VALUE: returns the concrete member of pool that equals the (symbolic) value (the last one otherwise)."""
    for x in pool[:-1]:
        if value == x:
            return x
    return pool[-1]

pops.time = k.FROZEN_TIME


# ------------------------------------------------------------------------------------------------ identity XML stubs

class _Parsed:
    """Stands in for a msg_types class on the receiving side: the 'node' handed to from_node IS the prepared object."""

    def __init__(self, cls):
        self._cls = cls

    def from_node(self, node):
        return node

    def __call__(self, *a, **kw):
        return self._cls(*a, **kw)


class _Report(msg_types.OperationInvokedReport):
    def as_etree_node(self, *_a, **_k):
        return self


REQUESTS = ('SetString', 'SetValue', 'Activate', 'SetContextState', 'SetAlertState', 'SetComponentState', 'SetMetricState')


def _mk_msg_types_proxy():
    ns = types.SimpleNamespace(**{n: getattr(msg_types, n) for n in dir(msg_types) if not n.startswith('_')})
    for name in REQUESTS:
        setattr(ns, name, _Parsed(getattr(msg_types, name)))
    ns.OperationInvokedReport = _Report
    return ns


class _DataModelProxy:
    def __init__(self, real):
        self._real = real
        self.msg_types = _mk_msg_types_proxy()

    def __getattr__(self, name):
        return getattr(self._real, name)


class _DefinitionsProxy:
    data_model = _DataModelProxy(SdcV1Definitions.data_model)

    def __getattr__(self, name):
        return getattr(SdcV1Definitions, name)


DEFS = _DefinitionsProxy()


# ------------------------------------------------------------------------------------------------ provider world

# request kind -> (descriptor class, operation class, response class name, port type class, handler method)
KINDS = (
    ('SetString', dc.SetStringOperationDescriptorContainer, pops.SetStringOperation, 'SetStringResponse', SetService, '_on_set_string'),
    ('SetValue', dc.SetValueOperationDescriptorContainer, pops.SetValueOperation, 'SetValueResponse', SetService, '_on_set_value'),
    ('Activate', dc.ActivateOperationDescriptorContainer, pops.ActivateOperation, 'ActivateResponse', SetService, '_on_activate'),
    ('SetContextState', dc.SetContextStateOperationDescriptorContainer, pops.SetContextStateOperation, 'SetContextStateResponse',
     ContextService, '_on_set_context_state'),
    ('SetAlertState', dc.SetAlertStateOperationDescriptorContainer, pops.SetAlertStateOperation, 'SetAlertStateResponse', SetService,
     '_on_set_alert_state'),
    ('SetComponentState', dc.SetComponentStateOperationDescriptorContainer, pops.SetComponentStateOperation,
     'SetComponentStateResponse', SetService, '_on_set_component_state'),
    ('SetMetricState', dc.SetMetricStateOperationDescriptorContainer, pops.SetMetricStateOperation, 'SetMetricStateResponse',
     SetService, '_on_set_metric_state'),
)
KIND_NAMES = tuple(kd[0] for kd in KINDS)


class _StubQueue(queue.Queue):
    """The worker's queue without blocking: empty -> stop sentinel (the loop in run() ends); full -> queue.Full at once."""

    def get(self, block=True, timeout=None):  # noqa: ARG002
        if self.empty():
            return 'stop_sco'
        return super().get(block=False)

    def put(self, item, block=True, timeout=None):  # noqa: ARG002
        return super().put(item, block=False)


class _ReplyFactory:
    def mk_reply_soap_message(self, request_data, set_response):  # noqa: ARG002
        return set_response


class ProviderStub:
    """Holds the state the real SdcProvider functions below use; nothing else of SdcProvider is constructed."""

    get_operation_by_handle = SdcProvider.get_operation_by_handle
    generate_transaction_id = SdcProvider.generate_transaction_id
    handle_operation_request = SdcProvider.handle_operation_request

    def __init__(self, mdib):
        self._mdib = self.mdib = mdib
        self._transaction_id = 0
        self._transaction_id_lock = threading.Lock()
        self._sco_operations_registries = {}
        self._logger = loghelper.get_logger_adapter('verif', '')
        self.msg_factory = _ReplyFactory()


class World:
    pass


RAISE_TEXT = ['handler failed']      # text of the exception a RAISES handler raises (set by provider_raising_text)


def _handler(outcome, target):
    def handler(params):  # noqa: ARG001
        if outcome == RAISES:
            raise RuntimeError(RAISE_TEXT[0])
        return pops.ExecuteResult(target, outcome)
    return handler


def _mk_world(kind, ops):
    """ops: list of (delayed, outcome) - one registered operation 'op<i>' per entry, all of the request kind `kind`."""
    name, descr_cls, op_cls, resp_name, svc_cls, method = KINDS[kind]
    ds = k.mk_containers(alerts=False, contexts=False)
    ds.append(dc.ScoDescriptorContainer('sco0', 'mds0'))
    for i in range(len(ops)):
        d = descr_cls(f'op{i}', 'sco0')
        d.OperationTarget = 'm0'
        ds.append(d)
    mdib, _ = k.mk_provider(0, containers=ds)
    w = World()
    w.mdib, w.cap = mdib, k.Capture()
    w.prov = ProviderStub(mdib)
    w.kind, w.method = name, method
    host = types.SimpleNamespace(subscriptions_manager=w.cap)
    w.set_service = SetService.__new__(SetService)
    w.ctx_service = ContextService.__new__(ContextService)
    for svc in (w.set_service, w.ctx_service):
        svc._sdc_device, svc._mdib, svc._sdc_definitions = w.prov, mdib, DEFS
        svc._logger = loghelper.get_logger_adapter('verif', '')
        svc.hosting_service = host
    w.service = w.set_service if svc_cls is SetService else w.ctx_service
    reg = sco_mod.ScoOperationsRegistry(w.set_service, None, mdib, mdib.descriptions.handle.get_one('sco0'), '')
    w.worker = sco_mod._OperationsWorker(reg, w.set_service, mdib, '')        # a Thread object that is never started
    w.worker._operations_queue = _StubQueue(w.worker._operations_queue.maxsize)
    reg._worker = w.worker
    w.registry = reg
    w.operations = []
    for i, (delayed, outcome) in enumerate(ops):
        op = op_cls(f'op{i}', 'm0', _handler(outcome, 'm0'), delayed_processing=delayed)
        reg.register_operation(op)
        w.operations.append(op)
    w.prov._sco_operations_registries['sco0'] = reg
    w.response_cls = getattr(msg_types, resp_name)
    w.request_cls = getattr(msg_types, name)
    return w


def mk_world(kind, ops):
    with untraced():
        return _mk_world(kind, ops)


def do_request(w, handle):
    """One Set/Activate/SetContextState request through the real port type handler. -> the response object."""
    req = w.request_cls()
    req.OperationHandleRef = handle
    request_data = types.SimpleNamespace(message_data=types.SimpleNamespace(p_msg=types.SimpleNamespace(msg_node=req)))
    return getattr(w.service, w.method)(request_data)


def run_worker(w):
    """The body of the worker thread, in the calling thread, until the queue is empty."""
    w.worker.run()


def notified(w, start=0):
    """[(report part)] in the order notify_operation handed them to the subscriptions manager."""
    parts = []
    for payload, _action, _vg in w.cap.sent[start:]:
        for part in payload.ReportPart:
            parts.append(part)
    return parts


def mdib_snapshot(w):
    with untraced():
        return k.snapshot(w.mdib)


def unchanged(w, before):
    with untraced():
        return k.snapshot(w.mdib) == before


def check_transaction(orc, tag, resp, parts, known, outcome, delayed):
    """The protocol oracle for ONE transaction: `resp` is the Set*Response object, `parts` the report parts carrying its
    transaction id in notification order."""
    info = resp.InvocationInfo
    r = info.InvocationState
    states = [p.InvocationInfo.InvocationState for p in parts]
    finals = [s for s in states if s not in NON_FINAL]
    orc.check(r is not None, tag + 'response_without_invocation_state')
    if not known:
        orc.check(r == IS.FAILED, tag + 'unknown_operation_not_failed')
        orc.check(len(finals) == 0 or finals == [IS.FAILED], tag + 'unknown_operation_not_failed')
        return
    orc.check(bool(finals) or r not in NON_FINAL, tag + 'no_final_state')
    orc.check(len(finals) <= 1, tag + 'two_final_states_notified' if len(set(finals)) <= 1 else tag + 'two_different_final_states')
    if r not in NON_FINAL and finals:
        orc.check(finals[0] == r, tag + 'final_state_in_response!=report')
    if finals:
        orc.check(states[-1] not in NON_FINAL, tag + 'state_notified_after_final')
    prefix = [s for s in states if s in NON_FINAL]
    if r not in NON_FINAL:
        # directly one final state: no Wait/Start may be reported for this transaction
        orc.check(prefix == [], tag + 'wait_or_start_after_final_response')
    else:
        orc.check(r == IS.WAIT, tag + 'response_state_start')
        # Wait (response, optionally repeated as report), Start, then the final state
        orc.check(prefix in ([IS.WAIT, IS.START], [IS.START]), tag + ('start_not_notified' if IS.START not in prefix
                                                                       else 'illegal_wait_start_order'))
        if finals and IS.START in states:
            orc.check(states.index(IS.START) < states.index(finals[0]), tag + 'final_notified_before_start')
    final = finals[0] if finals else r
    if outcome == RAISES:
        orc.check(final == IS.FAILED and (r in NON_FINAL or r == IS.FAILED), tag + 'raising_handler_not_reported_as_fail')
        has_info = info.InvocationError is not None and len(info.InvocationErrorMessage) > 0
        for p in parts:
            pi = p.InvocationInfo
            if pi.InvocationState == IS.FAILED and pi.InvocationError is not None and len(pi.InvocationErrorMessage) > 0:
                has_info = True
        orc.check(has_info, tag + 'fail_without_error_info')
    else:
        orc.check(final == outcome, tag + 'final_state!=handler_result')


# ------------------------------------------------------------------------------------------------ provider obligations

def provider_request(kind: int, known: bool, delayed: bool, npool: int, outcome: int, tid0: int) -> str:
    """
    ONE request of any kind for a known / unknown operation handle; handler outcome and direct / queued mode by selector; the
    provider's transaction counter starts at a symbolic value.
    pre: 0 <= kind < 7
    pre: 4 <= npool <= 6
    pre: 0 <= outcome < npool
    pre: tid0 >= 0
    post: __return__ == 'ok'
    """
    orc = Oracle()
    try:
        kind = pick(kind, range(7))
        known, delayed = bool(known), bool(delayed)
        oc = pick(outcome, OUTCOMES)
        w = mk_world(kind, [(delayed, oc)])
        w.prov._transaction_id = tid0
        before = mdib_snapshot(w)
        resp = do_request(w, 'op0' if known else 'nope')
        if not known:
            orc.check(unchanged(w, before), 'unknown_operation_changed_mdib')
            orc.check(len(w.operations[0].calls) == 0, 'unknown_operation_executed_a_handler')
        run_worker(w)
        tid = resp.InvocationInfo.TransactionId
        orc.check(tid is not None, 'response_without_transaction_id')
        orc.check(tid > tid0, 'transaction_id_not_increasing')
        orc.check(w.prov._transaction_id >= tid, 'transaction_id_not_increasing')
        parts = notified(w)
        for p in parts:
            orc.check(p.InvocationInfo.TransactionId == tid, 'report_transaction_id!=response')
        if not known:
            orc.check(unchanged(w, before), 'unknown_operation_changed_mdib')
        check_transaction(orc, '', resp, parts, known, oc, delayed)
        orc.check(len(w.operations[0].calls) == (1 if known else 0), 'handler_not_called_exactly_once')
    except Exception as ex:  # noqa: BLE001
        return exc_result(orc, ex)
    return orc.result()


# code points around every boundary of the XML 1.0 Char production (#x9 | #xA | #xD | [#x20-#xD7FF] | [#xE000-#xFFFD] | ...)
TEXT_CODES = (0x0, 0x8, 0x9, 0xA, 0xB, 0xD, 0x15, 0x1B, 0x1F, 0x20, 0x3C, 0x26, 0x7F, 0xD7FF, 0xE000, 0xFFFD, 0xFFFE, 0xFFFF, 0x10000)


def _xml_text_ok(text):
    """Can this text be put on the wire? (the real lxml decides - what msgfactory would do with the report)"""
    from lxml import etree
    try:
        etree.tostring(etree.Element('x', attrib={'a': text}))
        el = etree.Element('x')
        el.text = text
        etree.tostring(el)
    except ValueError:
        return False
    return True


def provider_raising_text(kind: int, delayed: bool, csel: int, pos: int) -> str:
    """
    The handler raises an exception whose text contains an arbitrary character (selector over the boundary code points of the
    XML Char production, at the start / inside / at the end of the text): the transaction still ends with exactly one Fail
    that carries error information, and every text handed on for the response / the reports can be serialised.
    pre: 0 <= kind < 7
    pre: 0 <= csel < 19
    pre: 0 <= pos < 3
    post: __return__ == 'ok'
    """
    orc = Oracle()
    try:
        kind = pick(kind, range(7))
        delayed = bool(delayed)
        ch = chr(pick(csel, TEXT_CODES))
        RAISE_TEXT[0] = pick(pos, (ch + 'dev', 'de' + ch + 'v', 'dev' + ch))
        w = mk_world(kind, [(delayed, RAISES)])
        resp = do_request(w, 'op0')
        run_worker(w)
        parts = notified(w)
        check_transaction(orc, '', resp, parts, True, RAISES, delayed)
        texts = [t.text for t in resp.InvocationInfo.InvocationErrorMessage]
        for p in parts:
            texts.extend(t.text for t in p.InvocationInfo.InvocationErrorMessage)
        texts = concrete(texts)         # (lxml is C code: plain str objects only)
        with untraced():
            ok = all(_xml_text_ok(t) for t in texts)
        orc.check(ok, 'error_text_cannot_be_serialised')
    except Exception as ex:  # noqa: BLE001
        return exc_result(orc, ex)
    finally:
        RAISE_TEXT[0] = 'handler failed'
    return orc.result()


def provider_two_requests(delayed1: bool, outcome1: int, delayed2: bool, outcome2: int, npool: int, target2: int,
                          drain_between: bool, tid0: int) -> str:
    """
    TWO requests (two consumers) for two operations (request 2: target2 = 0 -> op1, 1 -> op0 again, 2 -> unknown handle); the
    worker drains its queue between the two requests or after both.
    pre: 4 <= npool <= 6
    pre: 0 <= outcome1 < npool
    pre: 0 <= outcome2 < npool
    pre: 0 <= target2 < 3
    pre: tid0 >= 0
    post: __return__ == 'ok'
    """
    orc = Oracle()
    try:
        delayed1, delayed2, drain_between = bool(delayed1), bool(delayed2), bool(drain_between)
        oc1, oc2 = pick(outcome1, OUTCOMES), pick(outcome2, OUTCOMES)
        target2 = pick(target2, range(3))
        w = mk_world(0, [(delayed1, oc1), (delayed2, oc2)])
        w.prov._transaction_id = tid0
        resp1 = do_request(w, 'op0')
        if drain_between:
            run_worker(w)
        before = mdib_snapshot(w)
        resp2 = do_request(w, ('op1', 'op0', 'nope')[target2])
        if target2 == 2:
            orc.check(unchanged(w, before), 'unknown_operation_changed_mdib')
        run_worker(w)
        t1, t2 = resp1.InvocationInfo.TransactionId, resp2.InvocationInfo.TransactionId
        orc.check(t1 > tid0, 'transaction_id_not_increasing')
        orc.check(t2 > t1, 'transaction_id_not_increasing')
        p1, p2 = [], []
        for p in notified(w):
            pt = p.InvocationInfo.TransactionId
            if pt == t1:
                p1.append(p)
            elif pt == t2:
                p2.append(p)
            else:
                orc.fail('report_for_unknown_transaction')
        check_transaction(orc, 'r1:', resp1, p1, True, oc1, delayed1)
        if target2 == 0:
            check_transaction(orc, 'r2:', resp2, p2, True, oc2, delayed2)
        elif target2 == 1:
            check_transaction(orc, 'r2:', resp2, p2, True, oc1, delayed1)
        else:
            check_transaction(orc, 'r2:', resp2, p2, False, oc2, delayed2)
        exp_calls = (1 + (1 if target2 == 1 else 0), 1 if target2 == 0 else 0)
        orc.check((len(w.operations[0].calls), len(w.operations[1].calls)) == exp_calls, 'handler_not_called_exactly_once')
    except Exception as ex:  # noqa: BLE001
        return exc_result(orc, ex)
    return orc.result()


def provider_burst(n: int, outcome: int) -> str:
    """
    A burst of n requests for one queued operation while the worker makes no progress (its queue has 10 slots), then the worker
    drains the queue: every request must be answered with an invocation state and every transaction must be legal.
    pre: 1 <= n <= 12
    pre: 0 <= outcome < 4
    post: __return__ == 'ok'
    """
    n = pickv(n, tuple(range(1, 13)))
    oc = pick(outcome, OUTCOMES[:4])
    with untraced():
        return _provider_burst(n, oc)


def _provider_burst(n, oc):
    orc = Oracle()
    try:
        w = _mk_world(0, [(True, oc)])
        responses = []
        for _ in range(n):
            try:
                responses.append(do_request(w, 'op0'))
            except queue.Full:
                orc.fail('queue_full_raises_instead_of_fail_response')
                responses.append(None)
        run_worker(w)
        tids = [r.InvocationInfo.TransactionId for r in responses if r is not None]
        orc.check(all(a < b for a, b in zip(tids, tids[1:])), 'transaction_id_not_increasing')
        parts = notified(w)
        orc.check(all(p.InvocationInfo.TransactionId in tids for p in parts), 'report_for_unknown_transaction')
        for i, r in enumerate(responses):
            if r is None:
                continue
            tid = r.InvocationInfo.TransactionId
            mine = [p for p in parts if p.InvocationInfo.TransactionId == tid]
            if r.InvocationInfo.InvocationState in NON_FINAL:
                check_transaction(orc, '', r, mine, True, oc, True)
            else:
                # a request the provider could not queue: Fail (with nothing executed for it) is the legal answer
                orc.check(r.InvocationInfo.InvocationState == IS.FAILED, 'unqueued_request_not_failed')
                orc.check([p.InvocationInfo.InvocationState for p in mine] in ([], [IS.FAILED]), 'two_different_final_states')
    except Exception as ex:  # noqa: BLE001
        return exc_result(orc, ex)
    return orc.result()


def tid_sequence(tid0: int, n: int) -> str:
    """
    n sequential calls of the real generate_transaction_id from a symbolic counter value: strictly increasing (hence unique).
    pre: tid0 >= 0
    pre: 1 <= n <= 4
    post: __return__ == 'ok'
    """
    orc = Oracle()
    try:
        with untraced():
            prov = ProviderStub(None)
        prov._transaction_id = tid0
        prev = tid0
        for _ in range(pickv(n, (1, 2, 3, 4))):
            tid = prov.generate_transaction_id()
            orc.check(tid > prev, 'transaction_id_not_increasing')
            orc.check(not prov._transaction_id_lock.locked(), 'transaction_id_lock_not_released')
            prev = tid
    except Exception as ex:  # noqa: BLE001
        return exc_result(orc, ex)
    return orc.result()


# ------------------------------------------------------------------------------------------------ consumer world

class _Fut(Future):
    """concurrent.futures.Future that records every completion."""

    def __init__(self):
        super().__init__()
        self.results = []

    def set_result(self, result):
        self.results.append(result)
        super().set_result(result)


cops.Future = _Fut


class _Table:
    """dict replacement for OperationsManager._transactions: association list (keys compared with ==, never hashed) that
    records accesses made while `_transactions_lock` is not held."""

    def __init__(self, lock, log):
        self._lock, self._log, self._items = lock, log, []

    def _chk(self):
        if not self._lock.locked():
            self._log.append('table')

    def _find(self, key):
        for i in range(len(self._items)):
            if self._items[i][0] == key:
                return i
        return -1

    def __contains__(self, key):
        self._chk()
        return self._find(key) >= 0

    def __getitem__(self, key):
        self._chk()
        i = self._find(key)
        if i < 0:
            raise KeyError(key)
        return self._items[i][1]

    def get(self, key, default=None):
        self._chk()
        i = self._find(key)
        return default if i < 0 else self._items[i][1]

    def __setitem__(self, key, value):
        self._chk()
        i = self._find(key)
        if i < 0:
            self._items.append((key, value))
        else:
            self._items[i] = (key, value)

    def __delitem__(self, key):
        self._chk()
        i = self._find(key)
        if i < 0:
            raise KeyError(key)
        del self._items[i]

    def pop(self, key, *default):
        self._chk()
        i = self._find(key)
        if i < 0:
            if default:
                return default[0]
            raise KeyError(key)
        return self._items.pop(i)[1]

    def __len__(self):
        return len(self._items)

    def __iter__(self):
        self._chk()
        return iter([kv[0] for kv in self._items])


class _Buffer(deque):
    """The recent-report-parts deque (real deque semantics incl. maxlen) that records unlocked accesses."""

    def __init__(self, lock, log, maxlen):
        super().__init__(maxlen=maxlen)
        self._lock, self._log = lock, log

    def append(self, x):
        if not self._lock.locked():
            self._log.append('buffer')
        super().append(x)

    def __iter__(self):
        if not self._lock.locked():
            self._log.append('buffer')
        return super().__iter__()


class _Client:
    """hosted service client stub: what arrives while the request is in flight is delivered from inside post_message."""

    def __init__(self):
        self.script = []        # [(response object, [callables to run before the response is returned])]

    def post_message(self, message, msg=None, request_manipulator=None):  # noqa: ARG002
        response, early = message
        for deliver in early:
            deliver()
        return types.SimpleNamespace(p_msg=types.SimpleNamespace(msg_node=response))


def _mk_manager():
    reader = types.SimpleNamespace(msg_types=types.SimpleNamespace(
        InvocationState=IS, AbstractSetResponse=_Parsed(msg_types.AbstractSetResponse),
        OperationInvokedReport=_Parsed(msg_types.OperationInvokedReport)))
    mgr = cops.OperationsManager(reader, '')
    mgr.unlocked = []
    mgr._transactions = _Table(mgr._transactions_lock, mgr.unlocked)
    mgr._last_operation_invoked_reports = _Buffer(mgr._transactions_lock, mgr.unlocked, mgr._last_operation_invoked_reports.maxlen)
    return mgr


def mk_manager():
    with untraced():
        return _mk_manager()


def mk_response(state, tid):
    with untraced():
        resp = msg_types.SetStringResponse()
        resp.InvocationInfo.InvocationState = state
    resp.InvocationInfo.TransactionId = tid
    return resp


def mk_part(state, tid):
    with untraced():
        part = msg_types.OperationInvokedReportPart()
        part.InvocationInfo.InvocationState = state
        part.OperationHandleRef = 'op0'
    part.InvocationInfo.TransactionId = tid
    return part


def mk_report(parts):
    rep = msg_types.OperationInvokedReport()
    for p in parts:
        rep.ReportPart.append(p)
    return rep


def deliver(mgr, report):
    mgr.on_operation_invoked_report(types.SimpleNamespace(p_msg=types.SimpleNamespace(msg_node=report)))


class Call:
    """Reference model of ONE call: what the future must look like after each step, computed from the property text."""

    def __init__(self, tid, response):
        self.tid, self.response = tid, response
        self.future = None
        self.seen = []           # related parts delivered so far (before completion)
        self.done = False        # reference: completed
        self.final_part = None   # reference: the part that completed it (None: completed by a failing response)
        self.registered = False  # the response's critical section has run

    def on_part(self, part):
        """A part is delivered (under the lock, one at a time)."""
        if self.done or not (part.InvocationInfo.TransactionId == self.tid):
            return
        self.seen.append(part)
        if self.registered and part.InvocationInfo.InvocationState not in NON_FINAL:
            self.done, self.final_part = True, part

    def on_response(self):
        self.registered = True
        if self.response.InvocationInfo.InvocationState in FAILING:
            self.done = True
            return
        for part in self.seen:
            if part.InvocationInfo.InvocationState not in NON_FINAL:
                self.done, self.final_part = True, part
                return


def check_call(orc, tag, c):
    """Compare the real Future of call c with the reference model (called after every step)."""
    fut = c.future
    n = len(fut.results)
    if n > 1:
        orc.fail(tag + 'future_completed_twice')
        return
    if n == 1 and not c.done:
        res = fut.results[0]
        if not (res.InvocationInfo.TransactionId == c.tid):
            orc.fail(tag + 'future_completed_by_other_transaction')
        elif res.InvocationInfo.InvocationState in NON_FINAL:
            orc.fail(tag + 'future_completed_on_non_final_state')
        else:
            orc.fail(tag + 'future_completed_without_final_state_of_transaction')
        return
    if n == 0:
        orc.check(not c.done, tag + 'future_never_completed')
        return
    res = fut.results[0]
    orc.check(fut.done() and fut.result(timeout=0) is res, tag + 'future_never_completed')
    orc.check(res.InvocationInfo.TransactionId == c.tid, tag + 'future_completed_by_other_transaction')
    orc.check(res.InvocationInfo.InvocationState not in NON_FINAL, tag + 'future_completed_on_non_final_state')
    orc.check(res.set_response is c.response, tag + 'future_result_has_wrong_response')
    if c.final_part is None:
        orc.check(res.InvocationInfo.InvocationState == c.response.InvocationInfo.InvocationState, tag + 'future_result_state_wrong')
    else:
        # the state of a final part of this transaction that was available at completion time (the first one unless the
        # provider illegally sent several)
        finals = [p.InvocationInfo.InvocationState for p in c.seen if p.InvocationInfo.InvocationState not in NON_FINAL]
        orc.check(res.InvocationInfo.InvocationState in finals, tag + 'future_result_state_wrong')
    for p in res.report_parts:
        orc.check(p.InvocationInfo.TransactionId == c.tid, tag + 'future_result_contains_parts_of_other_transaction')
    orc.check(all(any(p is q for q in res.report_parts) for p in c.seen), tag + 'future_result_misses_report_parts')


def run_consumer(orc, mgr, calls, steps):
    """steps: list of ('resp', call index) / ('report', [parts]) in the order of their critical sections.
    Reports that precede a response are delivered from inside that call's post_message (request in flight)."""
    client = _Client()

    def report_step(parts):
        def go():
            deliver(mgr, mk_report(parts))
            for p in parts:
                for c in calls:
                    c.on_part(p)
            orc.check(mgr.unlocked == [], 'transaction_table_accessed_without_lock')
            for i, c in enumerate(calls):
                if c.future is not None:
                    check_call(orc, f'c{i}:' if len(calls) > 1 else '', c)
        return go

    pending = []
    for kind, arg in steps:
        if kind == 'report':
            pending.append(report_step(arg))
            continue
        c = calls[arg]
        # reports delivered while no request is in flight run right here; the ones queued since the last response run inside
        # post_message of this call, i.e. after the Future was created and before the response's critical section
        early, pending = pending, []
        c.future = mgr.call_operation(client, (c.response, early))
        c.on_response()
        orc.check(mgr.unlocked == [], 'transaction_table_accessed_without_lock')
        orc.check(not mgr._transactions_lock.locked(), 'transactions_lock_not_released')
        for i, x in enumerate(calls):
            if x.future is not None:
                check_call(orc, f'c{i}:' if len(calls) > 1 else '', x)
    for go in pending:
        go()


def consumer_exc(orc, ex, calls):
    """Result of a consumer harness whose body raised: a second set_result on a Future (InvalidStateError) gets its own label."""
    for c in calls:
        if c.future is not None and len(c.future.results) > 1:
            orc.fail('future_completed_twice')
    return exc_result(orc, ex)


# ------------------------------------------------------------------------------------------------ consumer obligations

def _steps_one_call(groups, pos):
    steps = [('report', g) for g in groups[:pos]] + [('resp', 0)] + [('report', g) for g in groups[pos:]]
    return steps


def _resp_pool(pool, failing):
    return [s for s in pool if (s in FAILING) == failing]


LEAN_POOL = (IS.WAIT, IS.FINISHED)


def _mk_parts(n, sel, tids, pool, lean, call_tids):
    """n parts with states by selector. lean: a part whose id equals none of the calls' ids carries Wait or Fin only (its state
    cannot matter to a correct implementation; Fin is the adversarial choice). -> None if the selector is out of range."""
    parts = []
    for i in range(n):
        related = False
        if lean:
            for t in call_tids:
                if tids[i] == t:
                    related = True
        if lean and not related:
            if sel[i] >= len(LEAN_POOL):
                return None
            parts.append(mk_part(pick(sel[i], LEAN_POOL), tids[i]))
        else:
            parts.append(mk_part(pick(sel[i], pool), tids[i]))
    return parts


def consumer_one_call(n: int, pos: int, pool: int, lean: bool, rf: bool, r: int, s1: int, s2: int, s3: int,
                      ta: int, t1: int, t2: int, t3: int) -> str:
    """
    ONE call whose response carries transaction id `ta` and the r-th failing (rf) / non-failing (not rf) state of the pool;
    n reports (one part each) with unconstrained transaction ids t1..t3 and states STATES[s1..s3]; the response's critical
    section runs after `pos` of the reports.
    pre: 1 <= n <= 3
    pre: 0 <= pos <= n
    pre: 4 <= pool <= 7
    pre: 0 <= r < pool
    pre: 0 <= s1 < pool
    pre: 0 <= s2 < pool
    pre: 0 <= s3 < pool
    pre: ta >= 0
    pre: t1 >= 0
    pre: t2 >= 0
    pre: t3 >= 0
    post: __return__ == 'ok'
    """
    orc = Oracle()
    calls = []
    try:
        n = pickv(n, (1, 2, 3))
        pos = pick(pos, range(n + 1))
        pool = STATES[:pickv(pool, (4, 5, 6, 7))]
        rpool = _resp_pool(pool, bool(rf))
        if r >= len(rpool):
            return 'ok'
        resp = mk_response(pick(r, rpool), ta)
        parts = _mk_parts(n, (s1, s2, s3), (t1, t2, t3), pool, bool(lean), (ta,))
        if parts is None:
            return 'ok'
        mgr = mk_manager()
        calls.append(Call(ta, resp))
        run_consumer(orc, mgr, calls, _steps_one_call([[p] for p in parts], pos))
    except Exception as ex:  # noqa: BLE001
        return consumer_exc(orc, ex, calls)
    return orc.result()


def consumer_multi_part(n: int, early: bool, pool: int, lean: bool, rf: bool, r: int, s1: int, s2: int, s3: int,
                        ta: int, t1: int, t2: int, t3: int) -> str:
    """
    ONE call and ONE report with n parts (unconstrained ids / states) that arrives before (early) or after the response.
    pre: 2 <= n <= 3
    pre: 4 <= pool <= 7
    pre: 0 <= r < pool
    pre: 0 <= s1 < pool
    pre: 0 <= s2 < pool
    pre: 0 <= s3 < pool
    pre: ta >= 0
    pre: t1 >= 0
    pre: t2 >= 0
    pre: t3 >= 0
    post: __return__ == 'ok'
    """
    orc = Oracle()
    calls = []
    try:
        n = pickv(n, (2, 3))
        pool = STATES[:pickv(pool, (4, 5, 6, 7))]
        rpool = _resp_pool(pool, bool(rf))
        if r >= len(rpool):
            return 'ok'
        resp = mk_response(pick(r, rpool), ta)
        parts = _mk_parts(n, (s1, s2, s3), (t1, t2, t3), pool, bool(lean), (ta,))
        if parts is None:
            return 'ok'
        mgr = mk_manager()
        calls.append(Call(ta, resp))
        run_consumer(orc, mgr, calls, _steps_one_call([parts], 1 if early else 0))
    except Exception as ex:  # noqa: BLE001
        return consumer_exc(orc, ex, calls)
    return orc.result()


def consumer_two_calls(n: int, pa: int, pb: int, pool: int, lean: bool, nresp: int, ra: int, rb: int, s1: int, s2: int, s3: int,
                       ta: int, tb: int, t1: int, t2: int, t3: int) -> str:
    """
    TWO calls in flight (responses with ids ta != tb and non-failing states: a failing response never enters the transaction
    table) and n reports (one part each, unconstrained ids / states); call A's critical section runs after pa reports, call
    B's after pb >= pa reports (A first when equal). nresp = 2: response states Wait / Fin only, 1: Wait only.
    pre: 1 <= n <= 3
    pre: 1 <= nresp <= 7
    pre: 0 <= pa <= pb
    pre: pb <= n
    pre: 4 <= pool <= 7
    pre: 0 <= ra < pool
    pre: 0 <= rb < pool
    pre: 0 <= s1 < pool
    pre: 0 <= s2 < pool
    pre: 0 <= s3 < pool
    pre: ta >= 0
    pre: tb >= 0
    pre: ta != tb
    pre: t1 >= 0
    pre: t2 >= 0
    pre: t3 >= 0
    post: __return__ == 'ok'
    """
    orc = Oracle()
    calls = []
    try:
        n = pickv(n, (1, 2, 3))
        pb = pick(pb, range(n + 1))
        pa = pick(pa, range(pb + 1))
        pool = STATES[:pickv(pool, (4, 5, 6, 7))]
        rpool = _resp_pool(pool, False)
        if nresp == 2:
            rpool = [IS.WAIT, IS.FINISHED]
        elif nresp == 1:
            rpool = [IS.WAIT]
        if ra >= len(rpool) or rb >= len(rpool):
            return 'ok'
        resp_a, resp_b = mk_response(pick(ra, rpool), ta), mk_response(pick(rb, rpool), tb)
        parts = _mk_parts(n, (s1, s2, s3), (t1, t2, t3), pool, bool(lean), (ta, tb))
        if parts is None:
            return 'ok'
        mgr = mk_manager()
        steps = [('report', [p]) for p in parts[:pa]] + [('resp', 0)] + [('report', [p]) for p in parts[pa:pb]] + [('resp', 1)] \
            + [('report', [p]) for p in parts[pb:]]
        calls += [Call(ta, resp_a), Call(tb, resp_b)]
        run_consumer(orc, mgr, calls, steps)
    except Exception as ex:  # noqa: BLE001
        return consumer_exc(orc, ex, calls)
    return orc.result()


# ------------------------------------------------------------------------------------------------ end to end

def end_to_end(kind: int, known: bool, delayed: bool, npool: int, outcome: int, pos: int, tid0: int) -> str:
    """
    The response and the reports the REAL provider code produces for one request are handed to the REAL consumer code; the
    response's critical section on the consumer runs after `pos` of the reports (every race between response and reports).
    pre: 0 <= kind < 7
    pre: 4 <= npool <= 6
    pre: 0 <= outcome < npool
    pre: 0 <= pos <= 3
    pre: tid0 >= 0
    post: __return__ == 'ok'
    """
    orc = Oracle()
    calls = []
    try:
        kind = pick(kind, range(7))
        known, delayed = bool(known), bool(delayed)
        oc = pick(outcome, OUTCOMES)
        pos = pick(pos, range(4))
        w = mk_world(kind, [(delayed, oc)])
        w.prov._transaction_id = tid0
        resp = do_request(w, 'op0' if known else 'nope')
        run_worker(w)
        reports = [payload for payload, _a, _v in w.cap.sent]
        pos = min(pos, len(reports))
        tid = resp.InvocationInfo.TransactionId
        mgr = mk_manager()
        call = Call(tid, resp)
        calls.append(call)
        groups = [list(rep.ReportPart) for rep in reports]
        run_consumer(orc, mgr, calls, _steps_one_call(groups, pos))
        # end-to-end expectation: the handle completes exactly once with the state the handler produced (Fail if it raised or
        # if the operation is unknown)
        fut = call.future
        if not orc.check(len(fut.results) == 1, 'future_never_completed' if len(fut.results) == 0 else 'future_completed_twice'):
            return orc.result()
        state = fut.results[0].InvocationInfo.InvocationState
        expected = IS.FAILED if (oc == RAISES or not known) else oc
        orc.check(state == expected, 'future_result_state!=handler_result')
        orc.check(fut.results[0].InvocationInfo.TransactionId == tid, 'future_completed_by_other_transaction')
    except Exception as ex:  # noqa: BLE001
        return consumer_exc(orc, ex, calls)
    return orc.result()

"""C01 harnesses: the consumer MDIB is an exact mirror of the provider MDIB after each transaction kind (CrossHair, E1).

Inductive step: provider and consumer MDIB built from the same symbolic version counters; ONE provider transaction of a given
kind with symbolic payload; the report objects captured from the real port-type implementations are delivered, in emission
order, to the real ConsumerMdib; canonical snapshots (content + every index recomputed by scan) must be equal and the consumer's
change notifications must name exactly the changed entities.
"""
from vf.hutil import Oracle, exc_result, pick, quiet, untraced

quiet()

from sdc11073 import observableproperties as properties  # noqa: E402
from sdc11073.location import SdcLocation  # noqa: E402
from sdc11073.mdib import descriptorcontainers as dc  # noqa: E402
from sdc11073.xml_types import pm_types  # noqa: E402

from harness import mdibkit as k  # noqa: E402

CA = pm_types.ContextAssociation
ASSOC_POOL = (CA.ASSOCIATED, CA.DISASSOCIATED, CA.NO_ASSOCIATION, CA.PRE_ASSOCIATION)

OBS = ('metrics_by_handle', 'waveform_by_handle', 'alert_by_handle', 'component_by_handle', 'operation_by_handle', 'context_by_handle',
       'new_descriptors_by_handle', 'updated_descriptors_by_handle', 'deleted_descriptors_by_handle')


class Notes:
    """Collects, per observable, the identifying handles of the objects named in each notification."""

    def __init__(self, cm):
        self.seen = {name: [] for name in OBS}
        self._cbs = []
        for name in OBS:
            cb = self._mk(name)
            self._cbs.append(cb)           # strong refs: observables keep weak references only
            properties.bind(cm, **{name: cb})

    def _mk(self, name):
        def cb(value):
            if value:
                ident = []
                for key, obj in value.items():
                    # identify by the object's own handle (context states: Handle; others: DescriptorHandle / Handle)
                    h = getattr(obj, 'Handle', None) if (getattr(obj, 'is_context_state', False) or getattr(obj, 'is_descriptor_container', False)) \
                        else getattr(obj, 'DescriptorHandle', None)
                    ident.append(h)
                self.seen[name].append(sorted(ident))
        return cb

    def flat(self, name):
        out = []
        for lst in self.seen[name]:
            out.extend(lst)
        return sorted(out)


def _pair(dv, sv, mv, csv, target, **kw):
    """Provider + consumer with identical content; symbolic versions planted on `target` (descriptor+state) and on the
    pre-existing context states."""
    pm, cap = k.mk_provider(mv, **kw)
    cm = k.mk_consumer(mv, **kw)
    for m in (pm, cm):
        d = m.descriptions.handle.get_one(target)
        d.DescriptorVersion = dv
        st = m.states.descriptor_handle.get_one(target, allow_none=True)
        if st is not None:
            st.DescriptorVersion = dv
            st.StateVersion = sv
        if kw.get('contexts', True):
            lc = m.descriptions.handle.get_one('lc0')
            pc = m.descriptions.handle.get_one('pc0')
            s0 = k.mk_context_state(m, lc, 'lcs0', CA.ASSOCIATED, binding=0, sv=csv)
            s1 = k.mk_context_state(m, lc, 'lcs1', CA.DISASSOCIATED, binding=0, unbinding=0, sv=csv)
            s2 = k.mk_context_state(m, pc, 'pcs0', CA.ASSOCIATED, binding=0, sv=csv)
            m.add_state_containers([s0, s1, s2])
    return pm, cap, cm


def _compare(pm, cm, orc, tag):
    sp, sc = k.snapshot(pm, with_indices=False), k.snapshot(cm, with_indices=False)
    orc.check(sp['version'] == sc['version'], tag + ':version-group-differs')
    orc.check(sorted(sp['descriptors']) == sorted(sc['descriptors']), tag + ':descriptor-set-differs')
    orc.check(sorted(sp['states']) == sorted(sc['states']), tag + ':state-set-differs')
    orc.check(sorted(sp['context_states']) == sorted(sc['context_states']), tag + ':context-state-set-differs')
    same_sets = sorted(sp['descriptors']) == sorted(sc['descriptors']) and sorted(sp['states']) == sorted(sc['states']) and \
        sorted(sp['context_states']) == sorted(sc['context_states'])
    if orc.v is None and same_sets:     # (content is compared object by object: only meaningful for equal sets)
        orc.check(sp['descriptors'] == sc['descriptors'], tag + ':descriptor-content-differs')
        orc.check(sp['states'] == sc['states'], tag + ':state-content-differs')
        orc.check(sp['context_states'] == sc['context_states'], tag + ':context-state-content-differs')
    with untraced():
        ip, sp_ = k.index_snapshot(pm), k.index_scan(pm)
        ic, sc_ = k.index_snapshot(cm), k.index_scan(cm)
    orc.check(ip == sp_, tag + ':provider-index!=scan')
    orc.check(ic == sc_, tag + ':consumer-index!=scan')


def _deliver_all(cap, cm, start=0):
    for payload, action, _vg in cap.sent[start:]:
        k.deliver(cm, payload, action)


def _changed_states(cap, start=0):
    """Handles of the states contained in the captured state reports, by report family (what the reports 'changed')."""
    out = {'metric': [], 'alert': [], 'component': [], 'operational': [], 'context': []}
    for payload, action, _ in cap.sent[start:]:
        for fam, frag in (('metric', 'EpisodicMetricReport'), ('alert', 'EpisodicAlertReport'),
                          ('component', 'EpisodicComponentReport'), ('operational', 'EpisodicOperationalStateReport'),
                          ('context', 'EpisodicContextReport')):
            if action.endswith(frag):
                for part in payload.ReportPart:
                    for st in part.values_list:
                        out[fam].append(st.Handle if fam == 'context' else st.DescriptorHandle)
    return {f: sorted(v) for f, v in out.items()}


def mirror_state_tx(kind: int, dv: int, sv: int, mv: int, csv: int, val: str, flag: bool, sel: int) -> str:
    """
    One state transaction of the given kind (0 metric, 1 two metrics in two MDS, 2 alert, 3 component, 4 operational,
    5 new context state, 6 update of an existing context state, 7 update two context states of one descriptor, 8 set_location,
    9 real-time sample array (concrete Decimal samples, symbolic counters and sample count selector), 10 a context state is
    DELETED through the entity interface of a context transaction (together with an update of another state)).
    pre: 0 <= kind <= 10
    pre: dv >= 0
    pre: sv >= 0
    pre: mv >= 0
    pre: csv >= 0
    pre: len(val) <= 3
    pre: 0 <= sel < 4
    post: __return__ == 'ok'
    """
    orc = Oracle()
    try:
        target = {0: 'm0', 1: 'm0', 2: 'ac0', 3: 'vmd0', 4: 'op0', 9: 'rt0'}.get(kind, 'm0')
        pm, cap, cm = _pair(dv, sv, mv, csv, target, two_mds=(kind == 1), operations=True, rt=(kind == 9))
        notes = Notes(cm)
        expected = {}
        if kind == 0 or kind == 1:
            with pm.metric_state_transaction(set_determination_time=False) as tr:
                st = tr.get_state('m0')
                st.mk_metric_value()
                st.MetricValue.Value = val
                if kind == 1:
                    st2 = tr.get_state('m2')
                    st2.mk_metric_value()
                    st2.MetricValue.Value = val + 'x'
            expected['metrics_by_handle'] = ['m0', 'm2'] if kind == 1 else ['m0']
        elif kind == 2:
            with pm.alert_state_transaction(set_determination_time=False) as tr:
                st = tr.get_state('ac0')
                st.Presence = flag
                st.ActualPriority = pick(sel, (None, pm_types.AlertConditionPriority.LOW, pm_types.AlertConditionPriority.HIGH,
                                               pm_types.AlertConditionPriority.NONE))
            expected['alert_by_handle'] = ['ac0']
        elif kind == 3:
            with pm.component_state_transaction() as tr:
                st = tr.get_state('vmd0')
                st.OperatingCycles = dv + 7
                st.ActivationState = pick(sel, (pm_types.ComponentActivation.ON, pm_types.ComponentActivation.OFF,
                                                pm_types.ComponentActivation.STANDBY, pm_types.ComponentActivation.FAILURE))
            expected['component_by_handle'] = ['vmd0']
        elif kind == 4:
            with pm.operational_state_transaction() as tr:
                st = tr.get_state('op0')
                st.OperatingMode = pick(sel, (pm_types.OperatingMode.ENABLED, pm_types.OperatingMode.DISABLED,
                                              pm_types.OperatingMode.NA, pm_types.OperatingMode.ENABLED))
            expected['operation_by_handle'] = ['op0']
        elif kind == 5:
            with pm.context_state_transaction() as tr:
                st = tr.mk_context_state('pc0', 'pcs_new', set_associated=flag)
                st.CoreData = pm_types.PatientDemographicsCoreData()
                st.CoreData.Givenname = val
            expected['context_by_handle'] = ['pcs_new']
        elif kind == 6:
            with pm.context_state_transaction() as tr:
                st = tr.get_context_state('pcs0')
                st.ContextAssociation = pick(sel, ASSOC_POOL)
                st.CoreData = pm_types.PatientDemographicsCoreData()
                st.CoreData.Familyname = val
            expected['context_by_handle'] = ['pcs0']
        elif kind == 7:
            with pm.context_state_transaction() as tr:
                st = tr.get_context_state('lcs0')
                st.ContextAssociation = pick(sel, ASSOC_POOL)
                st1 = tr.get_context_state('lcs1')
                st1.LocationDetail.Bed = val
            expected['context_by_handle'] = ['lcs0', 'lcs1']
        elif kind == 10:
            ent = pm.entities.by_handle('lc0')
            del ent.states['lcs1']
            ent.states['lcs0'].LocationDetail.Bed = val
            with pm.context_state_transaction() as tr:
                tr.write_entity(ent, ['lcs0', 'lcs1'])
            expected['context_by_handle'] = ['lcs0']
        elif kind == 8:
            pm.xtra.set_location(SdcLocation(fac='f', poc='p', bed='b' + str(sel)))
            expected['context_by_handle'] = None   # handles are generated: compared against the report instead
        else:
            from decimal import Decimal
            with pm.rt_sample_state_transaction() as tr:
                st = tr.get_state('rt0')
                st.mk_metric_value()
                st.MetricValue.Samples = list(pick(sel, ((), (Decimal('1.5'),), (Decimal('1'), Decimal('2')), (Decimal('0'),) * 3)))
                # DeterminationTime is optional: every third payload choice leaves it out (val is the symbolic str)
                st.MetricValue.DeterminationTime = None if len(val) == 1 else 1700000001.0
                st.ActivationState = pm_types.ComponentActivation.ON if flag else pm_types.ComponentActivation.OFF
            expected['waveform_by_handle'] = ['rt0']
        orc.check(len(cap.sent) >= 1, 'no-report-sent')
        _deliver_all(cap, cm)
        _compare(pm, cm, orc, 'after')
        rep = _changed_states(cap)
        if kind == 9:
            orc.check(notes.flat('waveform_by_handle') == ['rt0'], 'notification-mismatch:waveform_by_handle')
        for name, fam in (('metrics_by_handle', 'metric'), ('alert_by_handle', 'alert'), ('component_by_handle', 'component'),
                          ('operation_by_handle', 'operational'), ('context_by_handle', 'context')):
            want = expected.get(name)
            if want is None:
                want = rep[fam]
            orc.check(notes.flat(name) == sorted(want), 'notification-mismatch:' + name)
        orc.check(notes.flat('new_descriptors_by_handle') == [] and notes.flat('deleted_descriptors_by_handle') == [],
                  'descriptor-notification-on-state-report')
    except Exception as ex:  # noqa: BLE001
        return exc_result(orc, ex)
    return orc.result()


def mirror_descr_tx(kind: int, dv: int, sv: int, mv: int, csv: int, val: str, sel: int) -> str:
    """
    One descriptor transaction of the given kind (0 update alert condition Source (indexed), 1 update alert signal
    ConditionSignaled (indexed), 2 update metric descriptor + its state in one transaction, 3 create metric+state under ch0,
    4 delete a leaf metric, 5 delete the vmd subtree, 6 update of a context descriptor (its states are re-versioned),
    7 create a channel with a child metric in one transaction, 8 create TWO children under one existing parent (the parent is
    bumped twice), 9 update the parent and create a child under it, 10 delete two children of one parent, 11 create a child
    and then update the parent (reverse order), 12 ENTITY write of a context descriptor: descriptor updated AND a context state
    the consumer does not know yet created in the same transaction, 13 update of a context descriptor + add_state of a new
    context state through the transaction, 14 entity write of a metric: descriptor and nested state member, 15 a metric created
    below a channel that is removed in the same transaction - sel 0: create first, else remove first).
    pre: 0 <= kind <= 15
    pre: dv >= 0
    pre: sv >= 0
    pre: mv >= 0
    pre: csv >= 0
    pre: len(val) <= 3
    pre: 0 <= sel < 3
    post: __return__ == 'ok'
    """
    orc = Oracle()
    try:
        target = {0: 'ac0', 1: 'asig0', 2: 'm0', 3: 'ch0', 4: 'm1', 5: 'vmd0', 6: 'lc0', 7: 'vmd0', 12: 'pc0', 13: 'lc0',
                  14: 'm0'}.get(kind, 'ch0')
        pm, cap, cm = _pair(dv, sv, mv, csv, target)
        notes = Notes(cm)
        exp_new, exp_upd, exp_del = [], [], []
        ent = None
        if kind == 12:
            ent = pm.entities.by_handle('pc0')
            ent.descriptor.SafetyClassification = pm_types.SafetyClassification.MED_A
            ns = ent.new_state('pcs9')
            ns.ContextAssociation = CA.ASSOCIATED if sel else CA.NO_ASSOCIATION
            ns.CoreData = pm_types.PatientDemographicsCoreData()
            ns.CoreData.Givenname = val
            ent.states['pcs0'].ContextAssociation = CA.DISASSOCIATED
        elif kind == 14:
            ent = pm.entities.by_handle('m0')
            ent.descriptor.Type = pm_types.CodedValue(val or 'c')
            ent.state.mk_metric_value()
            ent.state.MetricValue.Value = val
        with pm.descriptor_transaction() as tr:
            if kind == 0:
                d = tr.get_descriptor('ac0')
                d.Source = list(pick(sel, (('m1',), ('m0', 'm1'), ())))
                exp_upd = ['ac0']
            elif kind == 1:
                d = tr.get_descriptor('asig0')
                d.ConditionSignaled = pick(sel, (None, 'ac0', 'other'))
                exp_upd = ['asig0']
            elif kind == 2:
                d = tr.get_descriptor('m0')
                d.Resolution = None
                d.Type = pm_types.CodedValue(val or 'c')
                st = tr.get_state('m0')
                st.mk_metric_value()
                st.MetricValue.Value = val
                exp_upd = ['m0']
            elif kind == 3:
                nd = dc.StringMetricDescriptorContainer('m9', 'ch0')
                nd.Unit = pm_types.CodedValue('u')
                nd.MetricCategory = pm_types.MetricCategory.MEASUREMENT
                nd.MetricAvailability = pm_types.MetricAvailability.CONTINUOUS
                nd.DescriptorVersion = sel
                ns = pm.data_model.get_state_class_for_descriptor(nd)(nd)
                ns.mk_metric_value()
                ns.MetricValue.Value = val
                tr.add_descriptor(nd, state_container=ns)
                exp_new, exp_upd = ['m9'], ['ch0']
            elif kind == 4:
                tr.remove_descriptor('m1')
                exp_del, exp_upd = ['m1'], ['ch0']
            elif kind == 5:
                tr.remove_descriptor('vmd0')
                exp_del, exp_upd = ['ch0', 'm0', 'm1', 'vmd0'], ['mds0']
            elif kind == 6:
                d = tr.get_descriptor('lc0')
                d.SafetyClassification = pick(sel, (pm_types.SafetyClassification.INF, pm_types.SafetyClassification.MED_A,
                                                    pm_types.SafetyClassification.MED_B))
                exp_upd = ['lc0']
            elif kind in (12, 14):
                tr.write_entity(ent)
                exp_upd = [ent.handle]
            elif kind == 13:
                d = tr.get_descriptor('lc0')
                d.SafetyClassification = pm_types.SafetyClassification.MED_B
                ns = k.mk_context_state(pm, d, 'lcs9', pick(sel, (CA.ASSOCIATED, CA.NO_ASSOCIATION, CA.PRE_ASSOCIATION)), binding=None)
                ns.descriptor_container = None
                ns.LocationDetail.Bed = val
                tr.add_state(ns)
                exp_upd = ['lc0']
            elif kind in (8, 9, 11):
                def _mk_metric(handle):
                    nm = dc.StringMetricDescriptorContainer(handle, 'ch0')
                    nm.Unit = pm_types.CodedValue('u')
                    nm.MetricCategory = pm_types.MetricCategory.MEASUREMENT
                    nm.MetricAvailability = pm_types.MetricAvailability.CONTINUOUS
                    return nm, pm.data_model.get_state_class_for_descriptor(nm)(nm)
                if kind == 9:
                    d = tr.get_descriptor('ch0')
                    d.SafetyClassification = pm_types.SafetyClassification.MED_B
                nm, ns = _mk_metric('m8')
                tr.add_descriptor(nm, state_container=ns)
                exp_new = ['m8']
                if kind == 8:
                    nm2, ns2 = _mk_metric('m9')
                    tr.add_descriptor(nm2, state_container=ns2)
                    exp_new = ['m8', 'm9']
                if kind == 11:
                    d = tr.get_descriptor('ch0')
                    d.SafetyClassification = pm_types.SafetyClassification.MED_B
                exp_upd = None     # the parent may be named once or once per bump: only the final mirror state is demanded
            elif kind == 10:
                tr.remove_descriptor('m0')
                tr.remove_descriptor('m1')
                exp_del, exp_upd = ['m0', 'm1'], None
            elif kind == 15:
                nm = dc.StringMetricDescriptorContainer('m9', 'ch0')
                nm.Unit = pm_types.CodedValue('u')
                nm.MetricCategory = pm_types.MetricCategory.MEASUREMENT
                nm.MetricAvailability = pm_types.MetricAvailability.CONTINUOUS
                first = pick(sel, (0, 1, 1))
                if first == 0:
                    tr.add_descriptor(nm, state_container=pm.data_model.get_state_class_for_descriptor(nm)(nm))
                tr.remove_descriptor('ch0')
                if first == 1:
                    tr.add_descriptor(nm, state_container=pm.data_model.get_state_class_for_descriptor(nm)(nm))
                exp_new = exp_upd = exp_del = None     # created and deleted in one report: only the final mirror state is demanded
            else:
                nch = dc.ChannelDescriptorContainer('ch9', 'vmd0')
                nm = dc.StringMetricDescriptorContainer('m9', 'ch9')
                nm.Unit = pm_types.CodedValue('u')
                nm.MetricCategory = pm_types.MetricCategory.MEASUREMENT
                nm.MetricAvailability = pm_types.MetricAvailability.CONTINUOUS
                tr.add_descriptor(nch, state_container=pm.data_model.get_state_class_for_descriptor(nch)(nch))
                tr.add_descriptor(nm, state_container=pm.data_model.get_state_class_for_descriptor(nm)(nm))
                exp_new, exp_upd = ['ch9', 'm9'], ['vmd0']
        orc.check(len(cap.sent) >= 1, 'no-report-sent')
        _deliver_all(cap, cm)
        _compare(pm, cm, orc, 'after')
        if exp_new is None:
            return orc.result()
        orc.check(notes.flat('new_descriptors_by_handle') == sorted(exp_new), 'notification-mismatch:new_descriptors_by_handle')
        if exp_upd is None:
            orc.check(set(notes.flat('updated_descriptors_by_handle')) == {'ch0'}, 'notification-mismatch:updated_descriptors_by_handle')
        else:
            orc.check(notes.flat('updated_descriptors_by_handle') == sorted(exp_upd), 'notification-mismatch:updated_descriptors_by_handle')
        orc.check(notes.flat('deleted_descriptors_by_handle') == sorted(exp_del), 'notification-mismatch:deleted_descriptors_by_handle')
    except Exception as ex:  # noqa: BLE001
        return exc_result(orc, ex)
    return orc.result()


def mirror_two_steps(first: int, second: int, dv: int, sv: int, mv: int, val: str) -> str:
    """
    Two consecutive transactions, mirror compared after each: first in {0: delete m1, 1: metric update m1, 2: create m9},
    second in {0: re-create the deleted / created handle m1 resp. delete m9, 1: metric update m0, 2: update descriptor ch0}.
    pre: 0 <= first <= 2
    pre: 0 <= second <= 2
    pre: dv >= 0
    pre: sv >= 0
    pre: mv >= 0
    pre: len(val) <= 2
    post: __return__ == 'ok'
    """
    orc = Oracle()
    try:
        pm, cap, cm = _pair(dv, sv, mv, 0, 'm1', contexts=False, alerts=False)

        def new_metric(handle):
            nd = dc.StringMetricDescriptorContainer(handle, 'ch0')
            nd.Unit = pm_types.CodedValue('u')
            nd.MetricCategory = pm_types.MetricCategory.MEASUREMENT
            nd.MetricAvailability = pm_types.MetricAvailability.CONTINUOUS
            ns = pm.data_model.get_state_class_for_descriptor(nd)(nd)
            return nd, ns

        if first == 0:
            with pm.descriptor_transaction() as tr:
                tr.remove_descriptor('m1')
        elif first == 1:
            with pm.metric_state_transaction(set_determination_time=False) as tr:
                st = tr.get_state('m1')
                st.mk_metric_value()
                st.MetricValue.Value = val
        else:
            with pm.descriptor_transaction() as tr:
                nd, ns = new_metric('m9')
                tr.add_descriptor(nd, state_container=ns)
        _deliver_all(cap, cm)
        n1 = len(cap.sent)
        _compare(pm, cm, orc, 'step1')
        if second == 0:
            with pm.descriptor_transaction() as tr:
                if first == 0:
                    nd, ns = new_metric('m1')
                    tr.add_descriptor(nd, state_container=ns)
                elif first == 2:
                    tr.remove_descriptor('m9')
                else:
                    tr.remove_descriptor('m1')
            if first == 0:
                # a re-created handle must carry versions greater than the ones it had when it was deleted
                d = pm.descriptions.handle.get_one('m1')
                s = pm.states.descriptor_handle.get_one('m1')
                orc.check(d.DescriptorVersion > dv, 'recreated-descriptor-version-not-greater')
                orc.check(s.StateVersion > sv, 'recreated-state-version-not-greater')
        elif second == 1:
            with pm.metric_state_transaction(set_determination_time=False) as tr:
                st = tr.get_state('m0')
                st.mk_metric_value()
                st.MetricValue.Value = val + 'y'
        else:
            with pm.descriptor_transaction() as tr:
                d = tr.get_descriptor('ch0')
                d.SafetyClassification = pm_types.SafetyClassification.MED_A
        _deliver_all(cap, cm, n1)
        _compare(pm, cm, orc, 'step2')
    except Exception as ex:  # noqa: BLE001
        return exc_result(orc, ex)
    return orc.result()


# ------------------------------------------------------------------------------------------------ two arbitrary kinds in a row

def _new_metric(pm, handle, parent='ch0'):
    nm = dc.StringMetricDescriptorContainer(handle, parent)
    nm.Unit = pm_types.CodedValue('u')
    nm.MetricCategory = pm_types.MetricCategory.MEASUREMENT
    nm.MetricAvailability = pm_types.MetricAvailability.CONTINUOUS
    return nm, pm.data_model.get_state_class_for_descriptor(nm)(nm)


def _tx(pm, code, val, flag, sel, suffix):
    """One provider transaction chosen by `code` (0-8 state kinds, 10-19 descriptor kinds); API rejections propagate."""
    if code == 0:
        with pm.metric_state_transaction(set_determination_time=False) as tr:
            st = tr.get_state('m0')
            if st.MetricValue is None:
                st.mk_metric_value()
            st.MetricValue.Value = val + suffix
    elif code == 1:
        with pm.metric_state_transaction(set_determination_time=False) as tr:
            st = tr.get_state('m1')
            if st.MetricValue is None:
                st.mk_metric_value()
            st.MetricValue.Value = val
    elif code == 2:
        with pm.alert_state_transaction(set_determination_time=False) as tr:
            tr.get_state('ac0').Presence = flag
    elif code == 3:
        with pm.component_state_transaction() as tr:
            tr.get_state('vmd0').OperatingCycles = 7 if flag else 8
    elif code == 4:
        with pm.operational_state_transaction() as tr:
            tr.get_state('op0').OperatingMode = pm_types.OperatingMode.DISABLED if flag else pm_types.OperatingMode.NA
    elif code == 5:
        with pm.context_state_transaction() as tr:
            st = tr.mk_context_state('pc0', 'pcs_new' + suffix, set_associated=flag)
            st.CoreData = pm_types.PatientDemographicsCoreData()
            st.CoreData.Givenname = val
    elif code == 6:
        with pm.context_state_transaction() as tr:
            st = tr.get_context_state('pcs0')
            st.ContextAssociation = pick(sel, ASSOC_POOL)
    elif code == 7:
        with pm.context_state_transaction() as tr:
            tr.get_context_state('lcs0').ContextAssociation = pick(sel, ASSOC_POOL)
            tr.get_context_state('lcs1').LocationDetail.Bed = val
    elif code == 8:
        pm.xtra.set_location(SdcLocation(fac='f', poc='p', bed='b' + suffix))
    elif code == 10:
        with pm.descriptor_transaction() as tr:
            tr.get_descriptor('ac0').Source = list(pick(sel, (('m1',), ('m0', 'm1'), (), ('m0',))))
    elif code == 11:
        with pm.descriptor_transaction() as tr:
            tr.get_descriptor('asig0').ConditionSignaled = pick(sel, (None, 'ac0', 'other', 'ac0'))
    elif code == 12:
        with pm.descriptor_transaction() as tr:
            tr.get_descriptor('m0').Type = pm_types.CodedValue((val or 'c') + suffix)
            st = tr.get_state('m0')
            if st.MetricValue is None:
                st.mk_metric_value()
            st.MetricValue.Value = val
    elif code == 13:
        with pm.descriptor_transaction() as tr:
            nd, ns = _new_metric(pm, 'm9' + suffix)
            tr.add_descriptor(nd, state_container=ns)
    elif code == 14:
        with pm.descriptor_transaction() as tr:
            tr.remove_descriptor('m1')
    elif code == 15:
        with pm.descriptor_transaction() as tr:
            tr.remove_descriptor('vmd0')
    elif code == 16:
        with pm.descriptor_transaction() as tr:
            tr.get_descriptor('lc0').SafetyClassification = pm_types.SafetyClassification.MED_A if flag else pm_types.SafetyClassification.MED_B
    elif code == 17:
        with pm.descriptor_transaction() as tr:
            nch = dc.ChannelDescriptorContainer('ch9' + suffix, 'vmd0')
            tr.add_descriptor(nch, state_container=pm.data_model.get_state_class_for_descriptor(nch)(nch))
            nd, ns = _new_metric(pm, 'm8' + suffix, 'ch9' + suffix)
            tr.add_descriptor(nd, state_container=ns)
    elif code == 18:
        with pm.descriptor_transaction() as tr:
            nd, ns = _new_metric(pm, 'm8' + suffix)
            tr.add_descriptor(nd, state_container=ns)
            nd2, ns2 = _new_metric(pm, 'm7' + suffix)
            tr.add_descriptor(nd2, state_container=ns2)
    else:
        with pm.descriptor_transaction() as tr:
            tr.remove_descriptor('lc0')


TX_CODES = (0, 1, 2, 3, 4, 5, 6, 7, 8, 10, 11, 12, 13, 14, 15, 16, 17, 18, 19)


def mirror_two_kinds(c1: int, c2: int, dv: int, sv: int, mv: int, csv: int, val: str, flag: bool, sel: int) -> str:
    """
    Two consecutive provider transactions of ARBITRARY kinds (19 kinds each: 9 state kinds, 10 descriptor kinds incl. deletions);
    the consumer processes the reports of each in emission order; mirror compared after each. A second transaction that the API
    rejects (its target was deleted by the first) must leave both MDIBs unchanged.
    pre: 0 <= c1 < 19
    pre: 0 <= c2 < 19
    pre: dv >= 0
    pre: sv >= 0
    pre: mv >= 0
    pre: csv >= 0
    pre: len(val) <= 2
    pre: 0 <= sel < 4
    post: __return__ == 'ok'
    """
    orc = Oracle()
    try:
        k1, k2 = pick(c1, TX_CODES), pick(c2, TX_CODES)
        pm, cap, cm = _pair(dv, sv, mv, csv, 'm0', operations=True)
        n = 0
        for step, code in ((1, k1), (2, k2)):
            before = pm.mdib_version
            try:
                _tx(pm, code, val, flag, sel, str(step))
            except (KeyError, ValueError) as ex:      # the API rejected the call (e.g. handle deleted by step 1)
                if step == 1:
                    raise
                orc.check(pm.mdib_version == before, f'step{step}:rejected-transaction-changed-mdib-version')
                del ex
            _deliver_all(cap, cm, n)
            n = len(cap.sent)
            _compare(pm, cm, orc, f'step{step}')
    except Exception as ex:  # noqa: BLE001
        return exc_result(orc, ex)
    return orc.result()

"""C08 (a): lifetime arithmetic of SubscriptionBase over the REALS (E2, vf/pysym.py + z3).

`renew`, `remaining_seconds`, `has_delivery_failure`, `is_valid` are read from the current source of the two subscription classes
(inspect.getsource + ast) and interpreted symbolically: object fields, the requested duration, the provider maximum and every
clock reading are solver variables (clock readings non-decreasing); `round(x, 2)` is exact round-half-even on reals. For each
violation label the negated claim is checked for satisfiability per path; a model is replayed on the REAL methods with
`fractions.Fraction` values (exact arithmetic, same rounding rule) and a scripted clock.
"""
import ast
import random as _random
from fractions import Fraction

ENGINE = 'pysym(z3 Real)'
Q = Fraction(1, 200)     # rounding quantum of round(x, 2): |round(x, 2) - x| <= 0.005

STUBS = ['time.monotonic() -> fresh real clock reading, non-decreasing over the readings of one scenario, >= 0',
         'arithmetic over the reals (binary64 rounding of clock differences is outside the claim); round(x, 2) = exact '
         'round-half-even to 1/100',
         'replay of SMT models on the real methods uses fractions.Fraction values and a scripted clock']

FUNCS = ['sdc11073.provider.subscriptionmgr_base.SubscriptionBase.renew',
         'sdc11073.provider.subscriptionmgr_base.SubscriptionBase.remaining_seconds',
         'sdc11073.provider.subscriptionmgr_base.SubscriptionBase.has_delivery_failure',
         'sdc11073.provider.subscriptionmgr_base.SubscriptionBase.is_valid']

SCENARIOS = {
    # name: (labels in the order tried)
    'grant': ['granted_exceeds_provider_max', 'granted_exceeds_requested'],
    'zero': ['zero_duration_request_granted_nonzero'],
    # (non-increase between renewals up to 2 quanta follows from remaining_inconsistent_with_granted at two instants)
    'remaining': ['remaining_negative', 'remaining_exceeds_granted', 'remaining_inconsistent_with_granted'],
    'valid': ['valid_although_closed', 'valid_after_expiry', 'valid_after_failure_limit', 'invalid_although_alive'],
}


def _classes():
    from sdc11073.provider.subscriptionmgr import BicepsSubscription
    from sdc11073.provider.subscriptionmgr_async import BicepsSubscriptionAsync
    return {'sync': BicepsSubscription, 'async': BicepsSubscriptionAsync}


def _mk_sym(cls):
    from vf import pysym

    class MethSym(pysym.Sym):
        """pysym interpreter + object state: `self.<attr>` is an environment entry, properties of the class are inlined."""

        def __init__(self, be):
            super().__init__(ast.parse('def _f(self):\n    pass').body[0], be, stubs={'time.monotonic': self._clock})

        def _clock(self, sym, st, args, kw):  # noqa: ARG002
            if args or kw:
                raise pysym.Unsupported('time.monotonic arity')
            v = self.new('clk', 'real')
            st.assumes.append(v >= (st.trace[-1] if st.trace else 0))
            st.trace.append(v)      # the clock readings of this path, in order
            return v

        def _assign(self, st, target, value):
            if isinstance(target, ast.Attribute) and isinstance(target.value, ast.Name) and target.value.id == 'self':
                st.env['self.' + target.attr] = value
                return
            super()._assign(st, target, value)

        def _expr(self, e, st):
            if isinstance(e, ast.Attribute) and isinstance(e.value, ast.Name) and e.value.id == 'self':
                key = 'self.' + e.attr
                if key in st.env:
                    return st.env[key]
                member = getattr(cls, e.attr, None)
                if isinstance(member, property):
                    out = self.call(member.fget, st, {})
                    if len(out) != 1 or len(out[0][0].conds) != len(st.conds):
                        raise pysym.Unsupported(f'property {e.attr} branches (only straight-line properties are inlined)')
                    s2, ret = out[0]
                    if any(s2.env.get(k) is not v for k, v in st.env.items() if k.startswith('self.')):
                        raise pysym.Unsupported(f'property {e.attr} writes object state')
                    st.assumes[:] = s2.assumes
                    st.trace[:] = s2.trace
                    return ret
                if isinstance(member, (int, float)) and not callable(member):
                    return member        # class constant (MAX_NOTIFY_ERRORS), read from the class now
                raise pysym.Unsupported('object attribute ' + key)
            return super()._expr(e, st)

        def call(self, fn, st, args):
            """Run method `fn` from state `st` (object fields = env entries 'self.*'); -> [(state, return value)]."""
            fdef = pysym.source_def(fn)
            sub = st.fork()
            sub.env = {k: v for k, v in st.env.items() if k == 'self' or k.startswith('self.')}
            sub.env.update(args)
            out = []
            for s2, ret in self._block(fdef.body, sub):
                keep = {k: v for k, v in s2.env.items() if k == 'self' or k.startswith('self.')}
                s2.env = keep
                out.append((s2, None if ret is pysym.NORET else ret))
            return out

    return MethSym(pysym.Z3Real())


def _encode(cls, scenario):
    """-> (sym, leaves) where each leaf = (State, outputs dict of z3 terms/values, inputs dict name -> z3 var)."""
    import z3
    from vf import pysym
    sym = _mk_sym(cls)
    be = sym.be
    inp = {'mx': z3.Real('mx'), 'E': z3.Real('E'), 'S': z3.Real('S'), 'closed': z3.Bool('closed'), 'errors': z3.Int('errors'),
           'req': z3.Real('req')}
    st0 = pysym.State(env={'self': pysym.Opaque('self'), 'self._max_subscription_duration': inp['mx'],
                           'self._expire_seconds': inp['E'], 'self._started': inp['S'], 'self._is_closed': inp['closed'],
                           'self.notify_errors': inp['errors']})
    st0.assumes += [inp['mx'] > 0, inp['E'] >= 0, inp['S'] >= 0, inp['errors'] >= 0, inp['req'] >= 0]
    leaves = []
    if scenario in ('grant', 'zero', 'remaining'):
        reqs = [('none', None), ('some', inp['req'])] if scenario != 'zero' else [('some', inp['req'])]
        for tag, req in reqs:
            for s1, _ in sym.call(cls.renew, st0, {'expires': req}):
                out = {'req_given': tag == 'some', 'G': s1.env['self._expire_seconds'], 'S1': s1.env['self._started']}
                if scenario == 'remaining':
                    for s2, r1 in sym.call(cls.remaining_seconds.fget, s1, {}):
                        leaves.append((s2, dict(out, r1=r1)))
                else:
                    leaves.append((s1, out))
    elif scenario == 'valid':
        for s1, v in sym.call(cls.is_valid.fget, st0, {}):
            leaves.append((s1, {'valid': v}))
    else:
        raise ValueError(scenario)
    return sym, inp, leaves


def _claims(sym, inp, st, out, scenario, limit):
    """{label: z3 Bool that must HOLD}, plus extra scenario assumptions."""
    import z3
    be = sym.be
    R = be.real
    clk = st.trace
    assume = []
    c = {}
    if scenario == 'grant':
        G = R(out['G'])
        c['granted_exceeds_provider_max'] = G <= inp['mx']
        c['granted_exceeds_requested'] = z3.BoolVal(True) if not out['req_given'] else z3.Implies(inp['req'] > 0, G <= inp['req'])
    elif scenario == 'zero':
        assume.append(inp['req'] == 0)
        c['zero_duration_request_granted_nonzero'] = R(out['G']) == 0
    elif scenario == 'remaining':
        if out['req_given']:
            assume.append(inp['req'] > 0)
        G, r1 = R(out['G']), R(out['r1'])
        # clock readings: clk[0] inside renew, clk[1] inside the later read of remaining_seconds
        if len(clk) != 2:
            raise ValueError(f'expected 2 clock readings (renew, remaining_seconds), got {len(clk)}')
        exact = G - (clk[1] - clk[0])
        expect = z3.If(exact >= 0, exact, 0)
        c['remaining_negative'] = r1 >= 0
        c['remaining_exceeds_granted'] = r1 <= G + be.val(Q)
        c['remaining_inconsistent_with_granted'] = z3.And(r1 - expect <= be.val(Q), expect - r1 <= be.val(Q))
    elif scenario == 'valid':
        if len(clk) > 1:
            raise ValueError(f'expected at most 1 clock reading in is_valid, got {len(clk)}')
        v = be.val(out['valid'])
        if clk:
            assume.append(clk[0] >= inp['S'])
            elapsed = clk[0] - inp['S']
        else:       # a path that does not look at the clock (closed): elapsed time is a free non-negative quantity
            elapsed = z3.Real('elapsed_free')
            assume.append(elapsed >= 0)
        c['valid_although_closed'] = z3.Implies(v, z3.Not(inp['closed']))
        c['valid_after_expiry'] = z3.Implies(v, elapsed < inp['E'])
        c['valid_after_failure_limit'] = z3.Implies(v, inp['errors'] < limit)
        c['invalid_although_alive'] = z3.Implies(z3.And(z3.Not(inp['closed']), inp['errors'] < limit,
                                                        elapsed < inp['E'] - be.val(Q)), v)
    return c, assume


# ------------------------------------------------------------------------------------------------ the real methods, concretely

class _ScriptClock:
    def __init__(self, readings):
        self.readings, self.i = list(readings), 0

    def monotonic(self):
        v = self.readings[min(self.i, len(self.readings) - 1)] if self.readings else Fraction(0)
        self.i += 1
        return v

    time = monotonic

    def sleep(self, _s):
        pass


def _real_run(kind, scenario, w):
    """Run the scenario on the REAL class with exact Fraction values; -> outputs dict (Fractions / bools)."""
    from harness import C08 as h
    from harness import C08_env as env
    from sdc11073.provider import subscriptionmgr_base as smb
    F = Fraction
    cls = _classes()[kind]
    env.install(env.FakeClock(0))
    s = h._mk_sub(cls, env.FakePool(kind == 'async'), (h.A1,), 7200)
    s._max_subscription_duration = F(w['mx'])
    s._expire_seconds, s._started = F(w['E']), F(w['S'])
    s._is_closed, s.notify_errors = bool(w['closed']), int(w['errors'])
    clock = _ScriptClock([F(x) for x in w['clocks']])
    smb.time = clock
    out = {}
    if scenario in ('grant', 'zero', 'remaining'):
        s.renew(F(w['req']) if w['req_given'] else None)
        out['G'], out['S1'] = s._expire_seconds, s._started
        if scenario == 'remaining':
            out['r1'] = s.remaining_seconds
    else:
        out['valid'] = s.is_valid
    out['clock_reads'] = clock.i
    return out


def _concrete_violations(scenario, w, out, limit):
    F = Fraction
    v = []
    clocks = [F(x) for x in w['clocks']]
    if scenario == 'grant':
        if out['G'] > F(w['mx']):
            v.append('granted_exceeds_provider_max')
        if w['req_given'] and F(w['req']) > 0 and out['G'] > F(w['req']):
            v.append('granted_exceeds_requested')
    elif scenario == 'zero':
        if out['G'] != 0:
            v.append('zero_duration_request_granted_nonzero')
    elif scenario == 'remaining':
        G, r1 = out['G'], out['r1']
        expect = max(G - (clocks[1] - clocks[0]), 0)
        if r1 < 0:
            v.append('remaining_negative')
        if r1 > G + Q:
            v.append('remaining_exceeds_granted')
        if abs(r1 - expect) > Q:
            v.append('remaining_inconsistent_with_granted')
    else:
        elapsed = (clocks[0] - F(w['S'])) if clocks else F(w.get('elapsed', 0))
        valid = out['valid']
        if valid and w['closed']:
            v.append('valid_although_closed')
        if valid and not elapsed < F(w['E']):
            v.append('valid_after_expiry')
        if valid and not int(w['errors']) < limit:
            v.append('valid_after_failure_limit')
        if not valid and not w['closed'] and int(w['errors']) < limit and elapsed < F(w['E']) - Q:
            v.append('invalid_although_alive')
    return v


def _limit(kind):
    return int(_classes()[kind].MAX_NOTIFY_ERRORS)


def _witness(sym, inp, st, out, m, kind, scenario, label):
    be = sym.be
    val = lambda t: be.model_value(m, t)  # noqa: E731
    w = {'label': label, 'class': kind, 'scenario': scenario, 'req_given': bool(out.get('req_given', False)),
         'clocks': [str(val(c)) for c in st.trace], 'closed': bool(val(inp['closed'])), 'errors': int(val(inp['errors']))}
    for k in ('mx', 'E', 'S', 'req'):
        w[k] = str(val(inp[k]))
    return w


def _replay_witness(w):
    limit = _limit(w['class'])
    out = _real_run(w['class'], w['scenario'], w)
    return {'violated': _concrete_violations(w['scenario'], w, out, limit),
            'real': {k: str(v) for k, v in out.items()}}


def _validate(sym, inp, leaves, kind, scenario, seed):
    """Translator validation: on random concrete inputs the encoding (inputs pinned, solver only propagates) must give the same
    outputs as the real methods run with the same exact values. Returns None or an error text."""
    import z3
    be = sym.be
    rng = _random.Random(4200 + seed)
    frac = lambda hi: Fraction(rng.randint(0, hi * 1000), rng.choice([1, 2, 8, 200, 1000]))  # noqa: E731
    for _ in range(25):
        w = {'mx': str(frac(60) + 1), 'E': str(frac(60)), 'S': str(frac(100)), 'req': str(frac(90)),
             'closed': rng.random() < 0.3, 'errors': rng.choice([0, 0, 1, 2]), 'class': kind, 'scenario': scenario}
        if scenario == 'zero':
            w['req'] = '0'
        base = Fraction(w['S']) if scenario == 'valid' else frac(100)
        clocks, t = [], base
        for _i in range(max(len(st.trace) for st, _ in leaves)):
            t = t + rng.choice([Fraction(0), frac(40), Fraction(1, 200), Fraction(w['E'])])
            clocks.append(t)
        w['clocks'] = [str(c) for c in clocks]
        pins = [inp['mx'] == be.val(Fraction(w['mx'])), inp['E'] == be.val(Fraction(w['E'])), inp['S'] == be.val(Fraction(w['S'])),
                inp['req'] == be.val(Fraction(w['req'])), inp['closed'] == w['closed'], inp['errors'] == w['errors']]
        for req_given in ((False, True) if scenario in ('grant', 'remaining') else (scenario == 'zero',)):
            w['req_given'] = req_given
            if req_given and scenario == 'remaining' and Fraction(w['req']) == 0:
                continue
            real = _real_run(kind, scenario, w)
            hits = []
            for st, out in leaves:
                if bool(out.get('req_given', False)) != req_given:
                    continue
                r, m = be.check(st.conds + st.assumes + pins + [cv == be.val(c) for cv, c in zip(st.trace, clocks)])
                if r == 'sat':
                    hits.append((out, m))
            if len(hits) != 1:
                return f'validation: {len(hits)} encoded paths enabled for {w}'
            out, m = hits[0]
            for k in ('G', 'S1', 'r1', 'valid'):
                if k in out and be.model_value(m, out[k]) != real[k]:
                    return f'validation: encoding {k}={be.model_value(m, out[k])} != real {real[k]} for {w}'
    return None


# ------------------------------------------------------------------------------------------------ obligation

def ob_life(ctx):
    import z3
    from vf import pysym
    scenario = ctx.params['scenario']
    labels = SCENARIOS[scenario]
    excluded = [lab for lab in labels if lab in ctx.exclude]
    queries = solver_s = 0
    reach = False
    inconclusive = []
    detail = []
    done_fns = {}
    for kind, cls in _classes().items():
        ident = (cls.renew, cls.remaining_seconds.fget, cls.is_valid.fget, cls.has_delivery_failure.fget, cls.MAX_NOTIFY_ERRORS)
        if ident in done_fns.values():
            detail.append(f'{kind}: same functions as {[k for k, v in done_fns.items() if v == ident][0]}')
            continue
        done_fns[kind] = ident
        limit = _limit(kind)
        try:
            sym, inp, leaves = _encode(cls, scenario)
            built = [(st, out) + _claims(sym, inp, st, out, scenario, limit) for st, out in leaves]
        except (pysym.Unsupported, ValueError) as ex:
            return {'verdict': 'inconclusive', 'reason': f'translation failed ({kind}): {ex}', 'engine': ENGINE}
        be = sym.be
        err = _validate(sym, inp, leaves, kind, scenario, ctx.seed or 0)
        if err:
            return {'verdict': 'error', 'reason': err, 'engine': ENGINE}
        detail.append(f'{kind}: {len(leaves)} path(s), clock readings per path {sorted({len(st.trace) for st, _ in leaves})}, '
                      'validated on 25 random exact inputs')
        for st, out, holds, assume in built:
            base = st.conds + st.assumes + assume + [holds[lab] for lab in excluded]
            r, _m = be.check(base)
            if r == 'unknown':
                inconclusive.append('assumptions: unknown')
                continue
            if r == 'unsat':
                continue
            reach = True
            for lab in labels:
                if lab in excluded:
                    continue
                r, m = be.check(base + [z3.Not(holds[lab])])
                if r == 'unknown':
                    inconclusive.append(lab + ': unknown')
                elif r == 'sat':
                    wit = _witness(sym, inp, st, out, m, kind, scenario, lab)
                    got = _replay_witness(wit)
                    return {'verdict': 'counterexample', 'label': lab, 'witness': wit, 'replayed': lab in got['violated'],
                            'detail': f'real methods give {got["real"]}; violated: {got["violated"]}', 'reach': True,
                            'queries': queries + be.queries, 'solver_s': round(solver_s + be.solver_s, 3), 'engine': ENGINE}
        queries += be.queries
        solver_s += be.solver_s
    res = {'verdict': 'inconclusive' if inconclusive or not reach else 'confirmed', 'reach': reach, 'queries': queries,
           'solver_s': round(solver_s, 3), 'engine': ENGINE, 'detail': '; '.join(detail)}
    if inconclusive:
        res['reason'] = '; '.join(inconclusive)
    elif not reach:
        res['reason'] = 'no path reachable under the assumptions'
    return res


def replay(ctx):
    """Re-run a stored witness on the REAL methods."""
    w = ctx.params['witness']
    got = _replay_witness(w)
    lab = w.get('label')
    label = lab if lab in got['violated'] else (got['violated'][0] if got['violated'] else 'ok')
    return {'verdict': 'counterexample' if got['violated'] else 'confirmed', 'label': label, 'reach': True, 'replayed': True,
            'detail': str(got)}

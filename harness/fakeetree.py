"""FakeElement: a pure-Python element tree with the API subset that sdc11073's declarative XML types use (stub for C05 / C12).

Why: the property descriptors in `sdc11073.xml_types.xml_structure` read and write lxml elements; lxml is C code, so a symbolic
value is realised (one solver model per path) the moment it is stored in a node. `install()` swaps the module attribute `etree`
in the modules that BUILD nodes (xml_structure, basetypes, containerbase, xml_utils) for `FakeEtree`, whose Element/SubElement
create `FakeElement`s. Symbolic strs/ints then survive as_etree_node -> from_node untouched.

Wire semantics built in (what differs between "the tree I built" and "the tree the peer parses"):
  * element text '' reads back as None (`<a></a>`), everything else is preserved (libxml2 escapes \t \n \r in attribute values
    and \r in text as character references, so they survive serialise + parse),
  * text / attribute values must be str (or QName): anything else raises TypeError like lxml,
  * a QName assigned as text or attribute value is written as prefix:localname, the prefix taken from the namespaces in scope or
    generated (ns0, ns1 ...) and declared on the element - as lxml does,
  * append/extend MOVE an element that already has a parent (lxml semantics),
  * copy.deepcopy of an element gives a parentless copy that keeps the namespaces in scope.
Not modelled (assumption of every obligation using the stub): XML-illegal characters are rejected by lxml at write time (strings
are assumed to be XML `Char`s); comments / processing instructions / tail text; XSD validation.

The fidelity of the stub is checked on every run against real lxml (serialise + parse) by `checks/C05.py:fidelity_report`.
`to_real` / `from_real` / `structure` are the bridges used for that.
"""
import copy

from lxml import etree as _real

QName = _real.QName


def _name(t):
    """Tag / attribute name -> Clark notation str ('{ns}local')."""
    if isinstance(t, _real.QName):
        return t.text
    if not isinstance(t, str):
        raise TypeError(f'Argument must be bytes or unicode, got {type(t).__name__!r}')
    return t


class _Attrib:
    """Attribute mapping with concrete (Clark) keys; values may be symbolic."""

    def __init__(self, owner):
        self._o = owner
        self._d = {}

    def get(self, k, default=None):
        return self._d.get(_name(k), default)

    def __contains__(self, k):
        return _name(k) in self._d

    def __getitem__(self, k):
        return self._d[_name(k)]

    def __setitem__(self, k, v):
        self._o.set(k, v)

    def __delitem__(self, k):
        del self._d[_name(k)]

    def __iter__(self):
        return iter(self._d)

    def __len__(self):
        return len(self._d)

    def keys(self):
        return self._d.keys()

    def values(self):
        return self._d.values()

    def items(self):
        return self._d.items()

    def __eq__(self, other):
        return dict(self.items()) == dict(other.items()) if hasattr(other, 'items') else NotImplemented

    def __repr__(self):
        return repr(self._d)


class FakeElement:
    def __init__(self, tag, attrib=None, nsmap=None):
        self.tag = _name(tag)
        self._own_ns = {}
        if nsmap:
            for p, ns in nsmap.items():
                self._own_ns[p] = ns
        self._children = []
        self._text = None
        self.tail = None
        self._parent = None
        self.attrib = _Attrib(self)
        if attrib:
            for k, v in attrib.items():
                self.set(k, v)

    # ------------------------------------------------------------------ namespaces
    @property
    def nsmap(self):
        """Namespaces in scope (inherited + own), a new dict on every access like lxml."""
        chain = []
        cur = self
        while cur is not None:
            chain.append(cur)
            cur = cur._parent
        m = {}
        for e in reversed(chain):
            m.update(e._own_ns)
        return m

    def _prefixed(self, qn):
        """prefix:local for a QName value, declaring a generated prefix on this element if the namespace is not in scope."""
        ns, local = qn.namespace, qn.localname
        if ns is None:
            return local
        scope = self.nsmap
        for p, n in scope.items():
            if n == ns and p is not None:
                return f'{p}:{local}'
        i = 0
        while f'ns{i}' in scope:
            i += 1
        self._own_ns[f'ns{i}'] = ns
        return f'ns{i}:{local}'

    def _value(self, v, what):
        if isinstance(v, _real.QName):
            return self._prefixed(v)
        if isinstance(v, str):
            return v
        raise TypeError(f'Argument must be bytes or unicode, got {type(v).__name__!r} ({what})')

    # ------------------------------------------------------------------ text / attributes
    @property
    def text(self):
        return self._text

    @text.setter
    def text(self, v):
        if v is None:
            self._text = None
            return
        v = self._value(v, 'text')
        self._text = None if len(v) == 0 else v     # wire semantics: <a></a> parses to text None

    def set(self, k, v):
        self.attrib._d[_name(k)] = self._value(v, 'attribute')

    def get(self, k, default=None):
        return self.attrib._d.get(_name(k), default)

    def keys(self):
        return list(self.attrib._d.keys())

    def items(self):
        return list(self.attrib._d.items())

    # ------------------------------------------------------------------ children
    def find(self, tag):
        t = _name(tag)
        for c in self._children:
            if c.tag == t:
                return c
        return None

    def findall(self, tag):
        t = _name(tag)
        return [c for c in self._children if c.tag == t]

    def append(self, c):
        if not isinstance(c, FakeElement):
            raise TypeError(f'Argument must be an element, got {type(c).__name__!r}')
        if c._parent is not None:      # lxml moves an element that is already in a tree
            keep = c.nsmap
            c._parent._children = [x for x in c._parent._children if x is not c]
            c._parent = None
            c._own_ns = keep
        c._parent = self
        self._children.append(c)

    def extend(self, cs):
        for c in list(cs):
            self.append(c)

    def insert(self, i, c):
        self.append(c)
        self._children.remove(c)
        self._children.insert(i, c)

    def remove(self, c):
        for i, x in enumerate(self._children):
            if x is c:
                keep = c.nsmap
                del self._children[i]
                c._parent = None
                c._own_ns = keep
                return
        raise ValueError('Element is not a child of this node.')

    def getparent(self):
        return self._parent

    def index(self, c):
        for i, x in enumerate(self._children):
            if x is c:
                return i
        raise ValueError('Element is not a child of this node.')

    def __iter__(self):
        return iter(list(self._children))

    def iter(self):
        yield self
        for c in self._children:
            yield from c.iter()

    def __len__(self):
        return len(self._children)

    def __bool__(self):     # lxml: an element without children is falsy (FutureWarning); keep the hazard
        return len(self._children) > 0

    def __getitem__(self, i):
        return self._children[i]

    def __deepcopy__(self, memo):
        e = FakeElement(self.tag, nsmap=self.nsmap)
        for k, v in self.attrib._d.items():
            e.attrib._d[k] = v
        e._text, e.tail = self._text, self.tail
        for c in self._children:
            e.append(copy.deepcopy(c, memo))
        return e

    def __copy__(self):
        return self.__deepcopy__({})

    def __repr__(self):
        return f'<FakeElement {self.tag} at 0x{id(self):x}>'


class _FakeComment:
    pass


class FakeEtree:
    """Stands in for the module `lxml.etree` inside the sdc11073 modules that build nodes."""

    QName = _real.QName
    _Element = FakeElement
    _Comment = _FakeComment

    @staticmethod
    def Element(tag, attrib=None, nsmap=None, **extra):  # noqa: N802
        e = FakeElement(tag, attrib, nsmap)
        for k, v in extra.items():
            e.set(k, v)
        return e

    @staticmethod
    def SubElement(parent, tag, attrib=None, nsmap=None, **extra):  # noqa: N802
        e = FakeElement(tag, attrib, nsmap)
        for k, v in extra.items():
            e.set(k, v)
        parent.append(e)
        return e


# ---------------------------------------------------------------------- install / uninstall

_PATCH_MODULES = ('sdc11073.xml_types.xml_structure', 'sdc11073.xml_types.basetypes', 'sdc11073.mdib.containerbase',
                  'sdc11073.xml_utils')
_saved = {}


def _element_checkers():
    """ClassCheckConverters that demand real lxml elements (AnyEtreeNodeListProperty items): they must accept FakeElement too."""
    import importlib
    import inspect
    from sdc11073.xml_types import dataconverters, xml_structure
    out = []
    mods = ['pm_types', 'msg_types', 'eventing_types', 'wsd_types', 'addressing_types', 'dpws_types', 'mex_types', 'basetypes']
    for m in mods:
        mod = importlib.import_module('sdc11073.xml_types.' + m)
        for _, c in inspect.getmembers(mod, inspect.isclass):
            for v in vars(c).values():
                if isinstance(v, xml_structure.AnyEtreeNodeListProperty):
                    conv = getattr(v._converter, '_element_converter', None)
                    if isinstance(conv, dataconverters.ClassCheckConverter):
                        out.append(conv)
    return out


def install():
    """Swap `etree` for FakeEtree in the node-building modules. Idempotent."""
    import importlib
    if _saved:
        return
    for name in _PATCH_MODULES:
        mod = importlib.import_module(name)
        _saved[name] = mod.etree
        mod.etree = FakeEtree
    for conv in _element_checkers():
        if FakeElement not in conv._klass:
            conv._klass = tuple(conv._klass) + (FakeElement,)


def uninstall():
    import importlib
    for name, real in list(_saved.items()):
        importlib.import_module(name).etree = real
    _saved.clear()


def installed():
    return bool(_saved)


# ---------------------------------------------------------------------- bridges to real lxml (fidelity check only, concrete data)

def to_real(fe, parent=None):
    """FakeElement tree -> real lxml tree (namespace declarations kept where the fake has them)."""
    ns = dict(fe._own_ns) if parent is not None else fe.nsmap
    e = _real.Element(fe.tag, nsmap=ns or None) if parent is None else _real.SubElement(parent, fe.tag, nsmap=ns or None)
    for k, v in fe.attrib._d.items():
        e.set(k, v)
    e.text = fe._text
    for c in fe._children:
        to_real(c, e)
    return e


def from_real(e):
    """Real lxml tree -> FakeElement tree."""
    fe = FakeElement(e.tag, nsmap=dict(e.nsmap))
    for k, v in e.attrib.items():
        fe.attrib._d[k] = v
    fe._text = e.text if e.text else None
    for c in e:
        if isinstance(c.tag, str):
            fe.append(from_real(c))
    return fe


def wire(e):
    """What the peer sees: real element -> bytes -> parsed real element."""
    return _real.fromstring(_real.tostring(e))


def _resolve(value, nsmap):
    """'p:local' -> '{ns}local' when p is a declared prefix (for comparing QName-valued text independent of prefix choice)."""
    if isinstance(value, str) and ':' in value and ' ' not in value:
        p, _, local = value.partition(':')
        if p in nsmap and '/' not in local:
            return '{%s}%s' % (nsmap[p], local)
    return value


def structure(e, resolve_qnames=True):
    """Canonical nested tuple of a FakeElement or real element: tag, sorted attributes, text, children."""
    nsmap = e.nsmap
    conv = (lambda v: _resolve(v, nsmap)) if resolve_qnames else (lambda v: v)
    text = e.text if e.text else None
    if text is not None and resolve_qnames:
        text = ' '.join(conv(t) for t in text.split(' ')) if ':' in text else text
    attrs = tuple(sorted((k, conv(v)) for k, v in e.attrib.items()))
    kids = tuple(structure(c, resolve_qnames) for c in e if isinstance(c.tag, str))
    return (e.tag, attrs, text, kids)

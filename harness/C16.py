"""C16 harnesses: SdcLocation scope strings round-trip; published location scopes are inside every enclosing location and
in no differing one; filter_services_inside is total over foreign scope strings (CrossHair, E1).

Element values are spelled per character from a hostile alphabet by symbolic selectors (urllib.quote on unrestricted symbolic
unicode does not confirm), presence / kept / cleared of every element is chosen by selector, foreign scopes are composed from
component pools, spelled from a hostile alphabet, or unconstrained symbolic strings behind fixed prefixes.
"""
from types import SimpleNamespace

from vf.hutil import Oracle, exc_result, pick, quiet, untraced

quiet()
import warnings  # noqa: E402

warnings.simplefilter('ignore')
from sdc11073.definitions_sdc import SdcV1Definitions  # noqa: E402
from sdc11073.location import SdcLocation  # noqa: E402
from sdc11073.mdib.descriptorcontainers import LocationContextDescriptorContainer  # noqa: E402
from sdc11073.mdib.statecontainers import LocationContextStateContainer  # noqa: E402
from sdc11073.provider.scopesfactory import KEY_PURPOSE_SERVICE_PROVIDER, mk_scopes  # noqa: E402
from sdc11073.wsdiscovery.service import Service  # noqa: E402
from sdc11073.xml_types import pm_types  # noqa: E402
from sdc11073.xml_types.wsd_types import ScopesType  # noqa: E402

ELEMENTS = ('fac', 'bldng', 'flr', 'poc', 'rm', 'bed')      # SdcLocation.url_elements (hierarchy order)
DEFAULT_ROOT = 'sdc.ctxt.loc.detail'
# reserved URL characters, space, non-ASCII (2- and 4-byte UTF-8), plus more in thorough
ALPHABET = ('a', '/', '?', '&', '=', '#', '%', '+', ' ', 'ä', ';', ':', '\U0001f600', '"', '\n', '\\')


def norm(v):
    """'' and None both mean 'element absent' in this API (documented in scope_string); compared as None."""
    return v or None


def classify(ex):
    """One label per failure condition of from_scope_string / filter_services_inside on foreign input."""
    msg = str(ex)
    if isinstance(ex, ValueError):
        if 'unpack' in msg:
            return 'raises:ValueError@from_scope_string(path-not-two-segments)'
        if 'IPv6' in msg or 'IPv4' in msg or 'netloc' in msg or 'IPvFuture' in msg or 'address' in msg:
            return 'raises:ValueError@from_scope_string(urlsplit-rejects-uri)'
    return None


def _roundtrip(orc, loc):
    try:
        text = loc.scope_string
    except Exception as ex:  # noqa: BLE001
        orc.fail('raises:' + type(ex).__name__ + '@scope_string')
        return
    try:
        back = SdcLocation.from_scope_string(text)
    except Exception as ex:  # noqa: BLE001
        orc.fail(classify(ex) or 'raises:' + type(ex).__name__ + '@from_scope_string(own-scope_string)')
        return
    orc.check(back._root == loc._root, 'roundtrip:root-changed')
    for el in ELEMENTS:
        before, after = norm(getattr(loc, el)), norm(getattr(back, el))
        if before is None:
            orc.check(after is None, 'roundtrip:absent-element-appeared')
        elif not orc.check(after is not None, 'roundtrip:present-element-lost'):
            pass
        else:
            orc.check(after == before, 'roundtrip:element-value-changed')
    orc.check(loc._scope_string_matches(text), 'roundtrip:own-scope_string-not-inside-own-location')


def roundtrip_hostile(ex: int, ey: int, nal: int, nx: int, maxx: int, x0: int, x1: int, x2: int, ny: int, maxy: int,
                      y0: int, y1: int, y2: int) -> str:
    """
    Two elements carry values of nx / ny characters (0 = absent) spelled from the hostile alphabet; the others are absent.
    pre: 0 <= nx <= maxx
    pre: 0 <= ny <= maxy
    pre: 0 <= x0 < nal
    pre: 0 <= x1 < nal
    pre: 0 <= x2 < nal
    pre: 0 <= y0 < nal
    pre: 0 <= y1 < nal
    pre: 0 <= y2 < nal
    post: __return__ == 'ok'
    """
    alpha = ALPHABET[:nal]
    r4 = (0, 1, 2, 3)
    nx, ny = pick(nx, r4[:maxx + 1]), pick(ny, r4[:maxy + 1])
    xs, ys = (x0, x1, x2), (y0, y1, y2)
    vx = ''.join([pick(xs[i], alpha) for i in range(nx)])
    vy = ''.join([pick(ys[i], alpha) for i in range(ny)])
    with untraced():
        orc = Oracle()
        try:
            loc = SdcLocation(**{ELEMENTS[ex]: vx or None, ELEMENTS[ey]: vy or None})
            _roundtrip(orc, loc)
        except Exception as exc:  # noqa: BLE001
            return exc_result(orc, exc, 'roundtrip')
        return orc.result()


PLAIN = ('f1', 'b1', 'l1', 'p1', 'r1', 'd1')
NASTY = ('F /1', 'b&b=1', 'fl#?', 'p%2Fc', 'r+m ä', 'b/d;1')
STYLES = (PLAIN, NASTY)
ROOTS = (DEFAULT_ROOT, 'my root', 'r?&#=', 'ä%+', 'a/b', 'http://hospital.example/locations', '/')


def roundtrip_presence(p0: bool, p1: bool, p2: bool, p3: bool, p4: bool, p5: bool, root: int, style: int, empty: int = 6) -> str:
    """
    Every combination of present / absent elements, 7 roots (reserved characters, also '/'), plain or nasty values; optionally
    one element given as the EMPTY string (which the API documents as 'not specified', like None).
    pre: 0 <= root < 7
    pre: 0 <= style < 2
    pre: 0 <= empty <= 6
    post: __return__ == 'ok'
    """
    present = [bool(p) for p in (p0, p1, p2, p3, p4, p5)]
    root, style, empty = pick(root, ROOTS), pick(style, STYLES), pick(empty, tuple(range(7)))
    with untraced():
        orc = Oracle()
        try:
            kw = {el: style[i] for i, el in enumerate(ELEMENTS) if present[i]}
            if empty < 6:
                kw[ELEMENTS[empty]] = ''
            loc = SdcLocation(root=root, **kw)
            _roundtrip(orc, loc)
            back = SdcLocation.from_scope_string(loc.scope_string)
            orc.check(back == loc and hash(back) == hash(loc), 'roundtrip:result-not-equal-to-original')
            orc.check(back in loc and loc in back, 'roundtrip:result-and-original-not-inside-each-other')
        except Exception as exc:  # noqa: BLE001
            return exc_result(orc, exc, 'roundtrip')
        return orc.result()


# ------------------------------------------------------------------------------------------------ published scopes
class StubMdib:
    """What mk_scopes reads from a provider MDIB: data_model and entities.by_node_type (one location entity, one MDS)."""

    data_model = SdcV1Definitions.data_model

    def __init__(self, loc_states):
        names = self.data_model.pm_names
        mds = SimpleNamespace(handle='mds0', descriptor=SimpleNamespace(
            Type=SimpleNamespace(Code='c/1', CodingSystem=None, CodingSystemVersion=None)))
        self._by = {names.LocationContextDescriptor: [SimpleNamespace(states={s.Handle: s for s in loc_states})],
                    names.MdsDescriptor: [mds]}
        self.entities = SimpleNamespace(by_node_type=lambda nodetype: self._by.get(nodetype, []))


def publish(loc, ident_mode):
    """Scopes a provider publishes for the associated location `loc` (real update_from_sdc_location + real mk_scopes)."""
    descr = LocationContextDescriptorContainer('loc_descr', 'sys_context')
    state = LocationContextStateContainer(descr)
    state.Handle = 'loc_state'
    state.update_from_sdc_location(loc)
    if ident_mode == 1:     # identification by root only: a valid InstanceIdentifier without extension
        state.Identification = [pm_types.InstanceIdentifier(root=DEFAULT_ROOT)]
    elif ident_mode == 2:   # a site-specific identification in front of the sdc.ctxt.loc.detail one: one scope per identification
        state.Identification.insert(0, pm_types.InstanceIdentifier(root='urn:oid:1.2.3', extension_string='site/7'))
    elif ident_mode == 3:   # ... or behind it
        state.Identification.append(pm_types.InstanceIdentifier(root='urn:oid:1.2.3', extension_string='site/7'))
    return mk_scopes(StubMdib([state]))


def _inside(orc, consumer_loc, scopes, where):
    """filter_services_inside over [service without scopes, the provider's service]; returns True / False / None (raised)."""
    provider = Service([], scopes, [], 'urn:provider', '1')
    bare = Service(None, None, None, 'urn:bare', '1')
    try:
        got = consumer_loc.filter_services_inside([bare, provider])
    except Exception as ex:  # noqa: BLE001
        lab = classify(ex)
        if lab is None:
            raise
        orc.fail(lab)
        return None
    orc.check(bare not in got, where + ':service-without-scopes-inside')
    return provider in got


def published_inside(m0: int, m1: int, m2: int, m3: int, m4: int, m5: int, style: int, ident: int) -> str:
    """
    Per element: 0 absent, 1 present and also specified by the enclosing location, 2 present but left open by it.
    pre: 0 <= m0 < 3
    pre: 0 <= m1 < 3
    pre: 0 <= m2 < 3
    pre: 0 <= m3 < 3
    pre: 0 <= m4 < 3
    pre: 0 <= m5 < 3
    pre: 0 <= style < 2
    pre: 0 <= ident < 4
    post: __return__ == 'ok'
    """
    r3 = (0, 1, 2)
    ms = [pick(m, r3) for m in (m0, m1, m2, m3, m4, m5)]
    style, ident = pick(style, STYLES), pick(ident, (0, 1, 2, 3))
    with untraced():
        orc = Oracle()
        try:
            if not any(ms):
                return 'ok'      # a provider location needs at least one element (update_from_sdc_location rejects none, by design)
            loc = SdcLocation(**{el: style[i] for i, el in enumerate(ELEMENTS) if ms[i]})
            enclosing = SdcLocation(**{el: style[i] for i, el in enumerate(ELEMENTS) if ms[i] == 1})
            scopes = publish(loc, ident)
            orc.check(KEY_PURPOSE_SERVICE_PROVIDER in scopes.text and any(s.startswith('sdc.ctxt.loc:') for s in scopes.text),
                      'mk_scopes-published-no-location-scope')
            r = _inside(orc, loc, scopes, 'own')
            if r is not None:
                orc.check(r, 'published-location-scope-not-inside-own-location')
            r = _inside(orc, enclosing, scopes, 'enclosing')
            if r is not None:
                orc.check(r, 'published-location-scope-not-inside-enclosing-location')
            r = _inside(orc, SdcLocation(), scopes, 'world')
            if r is not None:
                orc.check(r, 'published-location-scope-not-inside-unrestricted-location')
            # the consumer-side scope string of the same location
            orc.check(enclosing._scope_string_matches(loc.scope_string), 'scope_string-not-inside-enclosing-location')
        except Exception as exc:  # noqa: BLE001
            return exc_result(orc, exc, 'published-inside')
        return orc.result()


def parse_results_independent(m0: bool, m1: bool, m2: bool, m3: bool, m4: bool, m5: bool, style: int, el: int, op: int,
                              again: int) -> str:
    """
    A scope string is parsed, the resulting SdcLocation is changed by its owner (element `el` set to another value / cleared),
    then the SAME string is parsed again (`again` more times) and used for filtering: every parse shows the location the string
    spells, no two parses hand out the same object, matching is unaffected. Real interpreter semantics (no tracing) for the
    library calls: a memoised parser is invisible to CrossHair's tracer, which by-passes functools caches.
    pre: 0 <= style < 2
    pre: 0 <= el < 6
    pre: 0 <= op < 2
    pre: 1 <= again <= 2
    post: __return__ == 'ok'
    """
    present = [bool(m) for m in (m0, m1, m2, m3, m4, m5)]
    style, el, op, again = pick(style, STYLES), pick(el, tuple(range(6))), pick(op, (0, 1)), pick(again, (1, 2))
    with untraced():
        orc = Oracle()
        try:
            if not any(present):
                return 'ok'
            loc = SdcLocation(**{e: style[i] for i, e in enumerate(ELEMENTS) if present[i]})
            text = loc.scope_string
            first = SdcLocation.from_scope_string(text)
            setattr(first, ELEMENTS[el], 'changed&by=owner' if op == 0 else None)
            seen = [first]
            for _ in range(again):
                nxt = SdcLocation.from_scope_string(text)
                orc.check(all(nxt is not o for o in seen), 'parse-hands-out-the-same-object-twice')
                for e in ELEMENTS:
                    orc.check(norm(getattr(nxt, e)) == norm(getattr(loc, e)), 'later-parse-shows-change-made-to-earlier-result')
                seen.append(nxt)
            orc.check(loc._scope_string_matches(text), 'own-scope-string-not-inside-after-parse-result-was-changed')
            provider = Service([], ScopesType(text), [], 'urn:provider', '1')
            orc.check(provider in loc.filter_services_inside([provider]), 'service-not-inside-own-location-after-parse-result-was-changed')
            if op == 0:
                other = SdcLocation(**{ELEMENTS[el]: 'changed&by=owner'})
                orc.check(provider not in other.filter_services_inside([provider]), 'service-inside-location-it-was-never-in')
        except Exception as exc:  # noqa: BLE001
            return exc_result(orc, exc, 'parse-independent')
        return orc.result()


def published_after_update(a0: bool, a1: bool, a2: bool, a3: bool, a4: bool, a5: bool,
                           b0: bool, b1: bool, b2: bool, b3: bool, b4: bool, b5: bool) -> str:
    """
    The associated location state is UPDATED in place (update_from_sdc_location twice on the same state: first location A, then
    location B, each with any combination of present / absent elements): the published scope must be the one of B - it parses
    back to B, is inside B, and is NOT inside a location that specifies an element only A had.
    post: __return__ == 'ok'
    """
    pa = [bool(x) for x in (a0, a1, a2, a3, a4, a5)]
    pb = [bool(x) for x in (b0, b1, b2, b3, b4, b5)]
    with untraced():
        orc = Oracle()
        try:
            if not any(pa) or not any(pb):
                return 'ok'
            loc_a = SdcLocation(**{el: PLAIN[i] for i, el in enumerate(ELEMENTS) if pa[i]})
            loc_b = SdcLocation(**{el: NASTY[i] for i, el in enumerate(ELEMENTS) if pb[i]})
            descr = LocationContextDescriptorContainer('loc_descr', 'sys_context')
            state = LocationContextStateContainer(descr)
            state.Handle = 'loc_state'
            state.update_from_sdc_location(loc_a)
            state.update_from_sdc_location(loc_b)
            scopes = mk_scopes(StubMdib([state]))
            loc_scopes = [sc for sc in scopes.text if sc.startswith('sdc.ctxt.loc:')]
            orc.check(len(loc_scopes) == 1, 'mk_scopes-published-no-location-scope')
            if loc_scopes:
                back = SdcLocation.from_scope_string(loc_scopes[0])
                for i, el in enumerate(ELEMENTS):
                    orc.check(norm(getattr(back, el)) == norm(getattr(loc_b, el)), 'published-scope-keeps-element-of-previous-location')
                r = _inside(orc, loc_b, scopes, 'own')
                if r is not None:
                    orc.check(r, 'published-location-scope-not-inside-own-location')
                for i, el in enumerate(ELEMENTS):
                    if pa[i] and not pb[i]:
                        stale = SdcLocation(**{el: PLAIN[i]})
                        r = _inside(orc, stale, scopes, 'stale')
                        if r is not None:
                            orc.check(not r, 'published-scope-inside-location-of-previous-element')
        except Exception as exc:  # noqa: BLE001
            return exc_result(orc, exc, 'published-after-update')
        return orc.result()


# (provider value, consumer value) for the differing element; provider None = element absent at the provider
DIFF = (('ab', 'abc'), ('ab', 'a'), ('ab', 'xy'), (None, 'ab'), ('ab', 'AB'), ('a b', 'a+b'), ('a/b', 'a%2Fb'))


def published_differs(d: int, mode: int, m0: int, m1: int, m2: int, m3: int, m4: int, m5: int, ident: int) -> str:
    """
    Element d differs between provider and consumer location (7 kinds of difference); the other elements as in published_inside.
    pre: 0 <= d < 6
    pre: 0 <= mode < 7
    pre: 0 <= m0 < 3
    pre: 0 <= m1 < 3
    pre: 0 <= m2 < 3
    pre: 0 <= m3 < 3
    pre: 0 <= m4 < 3
    pre: 0 <= m5 < 3
    pre: 0 <= ident < 2
    post: __return__ == 'ok'
    """
    r3 = (0, 1, 2)
    d = pick(d, (0, 1, 2, 3, 4, 5))
    sels = (m0, m1, m2, m3, m4, m5)
    ms = [pick(sels[i], r3) if i != d else 0 for i in range(6)]
    pv, cv = pick(mode, DIFF)
    ident = pick(ident, (0, 1))
    with untraced():
        orc = Oracle()
        try:
            prov = {el: NASTY[i] for i, el in enumerate(ELEMENTS) if ms[i]}
            cons = {el: NASTY[i] for i, el in enumerate(ELEMENTS) if ms[i] == 1}
            if pv is not None:
                prov[ELEMENTS[d]] = pv
            cons[ELEMENTS[d]] = cv
            if not prov:
                return 'ok'
            loc, other = SdcLocation(**prov), SdcLocation(**cons)
            scopes = publish(loc, ident)
            r = _inside(orc, other, scopes, 'differing')
            if r is not None:
                orc.check(not r, 'published-location-scope-inside-location-differing-in-a-specified-element')
            orc.check(not other._scope_string_matches(loc.scope_string), 'scope_string-inside-location-differing-in-a-specified-element')
        except Exception as exc:  # noqa: BLE001
            return exc_result(orc, exc, 'published-differs')
        return orc.result()


# ------------------------------------------------------------------------------------------------ foreign scopes
F_SCHEMES = ('sdc.ctxt.loc:', 'SDC.ctxt.LOC:', 'sdc.ctxt.loc.x:', 'sdc.ctxt.opr:', 'http:', '')
# class 0: authorities urlsplit accepts; class 1: authorities urlsplit rejects (unbalanced bracket, no IP literal, NFKC-unstable)
F_AUTHS = (('', '//', '//h', '//h:1', '//[::1]'), ('//[', '//]', '//[x]', '//℀'))
F_SEGS = (DEFAULT_ROOT, 'x%2Fy', 'z', '')
F_QUERIES = ('', '?', '?fac=f1', '?unknown=1&fac=f1', '?fac', '?fac=', '?=f1', '?&&', '?fac=a&fac=f1', '?fac=%', '?fac=%zz&bed=d1',
             '?fac=f1;bed=d1', '?fac=f1&bed', '?fac=f2', '#fac=f1')
Q_INSIDE = (2, 3)              # fac=f1 clearly given
Q_OUTSIDE = (0, 1, 4, 5, 6, 7, 13, 14)   # fac clearly not f1 (absent, blank, other value, only in the fragment)


def foreign_composed(sch: int, aclass: int, auth: int, nseg: int, q: int) -> str:
    """
    A foreign service publishes [key purpose scope, composed scope]; the consumer filters for fac=f1.
    pre: 0 <= sch < 6
    pre: 0 <= auth < 5 - aclass
    pre: 0 <= nseg < 5
    pre: 0 <= q < 15
    post: __return__ == 'ok'
    """
    sch, auth = pick(sch, tuple(range(6))), pick(auth, F_AUTHS[aclass])
    nseg, q = pick(nseg, (0, 1, 2, 3, 4)), pick(q, tuple(range(15)))
    with untraced():
        orc = Oracle()
        try:
            text = F_SCHEMES[sch] + auth + ''.join('/' + F_SEGS[i] for i in range(nseg)) + F_QUERIES[q]
            scopes = ScopesType(KEY_PURPOSE_SERVICE_PROVIDER)
            scopes.text.append(text)
            r = _inside(orc, SdcLocation(fac='f1'), scopes, 'foreign')
            if r is not None:
                if sch >= 2:
                    orc.check(not r, 'scope-of-other-scheme-inside-location')
                elif sch == 0 and auth == '' and nseg == 2:
                    if q in Q_INSIDE:
                        orc.check(r, 'well-formed-location-scope-with-matching-element-not-inside')
                    elif q in Q_OUTSIDE:
                        orc.check(not r, 'location-scope-without-the-specified-element-inside')
        except Exception as exc:  # noqa: BLE001
            return exc_result(orc, exc, 'filter_services_inside')
        return orc.result()


HOSTILE = ('/', '?', '&', '=', '%', '#', ':', '[', ']', ';', '+', 'f', '1', '')
PREFIXES = ('sdc.ctxt.loc:', '', 'sdc.ctxt.loc:/r/e?', 'sdc.ctxt.loc:/r/e?fac=')


def foreign_sel(c0: int, c1: int, c2: int, c3: int, n: int, prefix: int) -> str:
    """
    Scope = prefix + up to n characters spelled from a hostile alphabet: the location filter never raises.
    pre: 0 <= c0 < 14
    pre: 0 <= c1 < 14
    pre: 0 <= c2 < 14
    pre: 0 <= c3 < 14
    pre: 0 <= prefix < 4
    post: __return__ == 'ok'
    """
    sels = (c0, c1, c2, c3)
    tail = ''.join([pick(sels[i], HOSTILE) for i in range(n)])
    pre = pick(prefix, PREFIXES)
    with untraced():
        orc = Oracle()
        try:
            _inside(orc, SdcLocation(fac='f1'), ScopesType(pre + tail), 'foreign')
        except Exception as exc:  # noqa: BLE001
            return exc_result(orc, exc, 'filter_services_inside')
        return orc.result()


def foreign_sym(s: str, maxlen: int, prefix: int, ascii_only: bool = False) -> str:
    """
    Scope = prefix + an UNCONSTRAINED symbolic string (optionally ASCII only): the location filter never raises.
    pre: len(s) <= maxlen
    pre: s.isascii() or not ascii_only
    pre: 0 <= prefix < 4
    post: __return__ == 'ok'
    """
    orc = Oracle()
    pre = pick(prefix, PREFIXES)
    try:
        _inside(orc, SdcLocation(fac='f1'), ScopesType(pre + s), 'foreign')
    except Exception as exc:  # noqa: BLE001
        return exc_result(orc, exc, 'filter_services_inside')
    return orc.result()

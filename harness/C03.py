"""C03 harnesses: transactions are atomic and the data they hand out is isolated from the MDIB (CrossHair, E1)."""
from vf.hutil import Oracle, exc_result, pick, quiet, untraced

quiet()

from sdc11073.provider.periodicreports import PeriodicReportsHandler  # noqa: E402
from sdc11073.xml_types import pm_types  # noqa: E402

from harness import mdibkit as k  # noqa: E402

CA = pm_types.ContextAssociation


class Crash(Exception):
    pass


def _mk(mv, sv, empty_lists=False):
    """Provider MDIB whose m0 already HAS a MetricValue, pcs0 has CoreData, lcs0 a LocationDetail, ac0 a Source list -
    nested members that a shallow copy would share. empty_lists: the list members (BodySite, Validator, Source) are EMPTY in
    the MDIB (an empty list is as mutable as a filled one)."""
    pm, cap = k.mk_provider(mv, operations=True)
    st = pm.states.descriptor_handle.get_one('m0')
    st.StateVersion = sv
    st.mk_metric_value()
    st.MetricValue.Value = 'orig'
    st.BodySite = [] if empty_lists else [pm_types.CodedValue('site')]
    if empty_lists:
        pm.descriptions.handle.get_one('ac0').Source = []
        pm.descriptions.update_object(pm.descriptions.handle.get_one('ac0'))
    pc = pm.descriptions.handle.get_one('pc0')
    lc = pm.descriptions.handle.get_one('lc0')
    ps = k.mk_context_state(pm, pc, 'pcs0', CA.ASSOCIATED, binding=0, sv=sv)
    ps.CoreData = pm_types.PatientDemographicsCoreData()
    ps.CoreData.Givenname = 'orig'
    ls = k.mk_context_state(pm, lc, 'lcs0', CA.ASSOCIATED, binding=0, sv=sv)
    ls.LocationDetail.Bed = 'orig'
    ls.Validator = [] if empty_lists else [pm_types.InstanceIdentifier('root')]
    pm.add_state_containers([ps, ls])
    return pm, cap


def _snap(pm):
    snap = k.snapshot(pm, with_indices=False)
    # the MDIB's memory of the versions of removed objects is part of its state, too
    snap['saved_versions'] = (dict(pm.descriptions.handle_version_lookup), dict(pm.states.handle_version_lookup),
                              dict(pm.context_states.handle_version_lookup))
    return snap


def _idx_ok(pm):
    with untraced():
        return k.index_snapshot(pm) == k.index_scan(pm)


def _same(pm, orc, before, tag):
    after = _snap(pm)
    orc.check(after['version'] == before['version'], tag + ':mdib-version-changed')
    orc.check(after['sizes'] == before['sizes'], tag + ':table-size-changed')
    orc.check(after['none_in_tables'] == (False, False, False), tag + ':None-in-table')
    orc.check(after['descriptors'] == before['descriptors'], tag + ':descriptor-content-changed')
    orc.check(after['states'] == before['states'], tag + ':state-content-changed')
    orc.check(after['context_states'] == before['context_states'], tag + ':context-state-content-changed')
    orc.check(after['saved_versions'] == before['saved_versions'], tag + ':saved-versions-of-removed-objects-changed')
    orc.check(_idx_ok(pm), tag + ':index!=scan')


def _prep_saved_versions(pm, kind, sv):
    if kind in (6, 7):
        pm.descriptions.handle_version_lookup['m9'] = sv + 2
        pm.states.handle_version_lookup['m9'] = sv + 3
        pm.context_states.handle_version_lookup['pcs9'] = sv + 4


def _run_aborted(pm, kind, crash, val):
    """The aborted transaction bodies (see `aborted`)."""
    try:
        if kind == 6:
            from sdc11073.mdib import descriptorcontainers as dc
            with pm.descriptor_transaction() as tr:
                nd = dc.StringMetricDescriptorContainer('m9', 'ch0')
                ns = pm.data_model.get_state_class_for_descriptor(nd)(nd)
                if crash >= 1:
                    tr.add_descriptor(nd, state_container=ns)
                if crash >= 2:
                    ent = pm.entities.new_entity(pm.data_model.pm_names.StringMetricDescriptor, 'm8', 'ch0')
                    tr.write_entity(ent)
                raise Crash
        elif kind == 7:
            with pm.context_state_transaction() as tr:
                if crash >= 1:
                    tr.mk_context_state('pc0', 'pcs9')
                if crash >= 2:
                    ent = pm.entities.by_handle('pc0')
                    ent.new_state('pcs9b')
                    tr.write_entity(ent, ['pcs9b'])
                raise Crash
        elif kind == 0:
            with pm.metric_state_transaction(set_determination_time=False) as tr:
                if crash == 0:
                    raise Crash
                st = tr.get_state('m0')
                st.MetricValue.Value = val
                if crash == 1:
                    raise Crash
                st.BodySite.append(pm_types.CodedValue(val))
                if crash == 2:
                    raise Crash
                st.MetricValue.MetricQuality.Validity = pm_types.MeasurementValidity.INVALID
                raise Crash
        elif kind == 1:
            with pm.context_state_transaction() as tr:
                if crash == 0:
                    raise Crash
                st = tr.get_context_state('pcs0')
                st.CoreData.Givenname = val
                if crash == 1:
                    raise Crash
                st.ContextAssociation = CA.DISASSOCIATED
                if crash == 2:
                    raise Crash
                tr.mk_context_state('pc0', 'pcs9')
                raise Crash
        elif kind == 2:
            with pm.context_state_transaction() as tr:
                if crash == 0:
                    raise Crash
                st = tr.get_context_state('lcs0')
                st.LocationDetail.Bed = val
                if crash == 1:
                    raise Crash
                st.Validator.append(pm_types.InstanceIdentifier(val))
                if crash == 2:
                    raise Crash
                tr.disassociate_all('lc0')
                raise Crash
        elif kind == 3:
            with pm.descriptor_transaction() as tr:
                if crash == 0:
                    raise Crash
                d = tr.get_descriptor('ac0')
                d.Source.append('m1')
                if crash == 1:
                    raise Crash
                d2 = tr.get_descriptor('m0')
                d2.Unit.Code = val
                if crash == 2:
                    raise Crash
                tr.remove_descriptor('m1')
                raise Crash
        elif kind == 4:
            ent = pm.entities.by_handle('m0')
            ent.state.MetricValue.Value = val
            ent.state.BodySite.append(pm_types.CodedValue(val))
            ent.descriptor.Unit.Code = val
            with pm.metric_state_transaction(set_determination_time=False) as tr:
                if crash >= 1:
                    tr.write_entity(ent)
                raise Crash
        else:
            ent = pm.entities.by_handle('pc0')
            ent.states['pcs0'].CoreData.Givenname = val
            with pm.context_state_transaction() as tr:
                if crash >= 1:
                    tr.write_entity(ent, ['pcs0'])
                raise Crash
    except Crash:
        pass


def aborted(kind: int, crash: int, mv: int, sv: int, val: str, empty: bool) -> str:
    """
    Transaction body with up to 3 steps that write symbolic values into NESTED members of the objects handed out, aborted by an
    exception after `crash` steps (crash == 3: after all steps, still inside the with block).
    kind: 0 metric (MetricValue.Value, BodySite list), 1 context patient (CoreData.Givenname), 2 context location
    (LocationDetail.Bed, Validator list), 3 descriptor (ac0.Source list, m0.Unit.Code), 4 metric via entity getter,
    5 context via entity getter, 6 descriptor transaction that re-creates a handle removed earlier (the MDIB remembers its last
    versions), 7 context transaction that re-creates a context state handle removed earlier.
    empty: the list members written to are empty (instead of filled) in the MDIB.
    pre: 0 <= kind <= 7
    pre: 0 <= crash <= 3
    pre: mv >= 0
    pre: sv >= 0
    pre: len(val) <= 3
    post: __return__ == 'ok'
    """
    orc = Oracle()
    try:
        pm, cap = _mk(mv, sv, empty_lists=empty)
        _prep_saved_versions(pm, kind, sv)
        before = _snap(pm)
        _run_aborted(pm, kind, crash, val)
        _same(pm, orc, before, 'aborted')
        orc.check(len(cap.sent) == 0, 'report-sent-for-aborted-transaction')
        orc.check(pm.current_transaction is None, 'transaction-left-open')
    except Exception as ex:  # noqa: BLE001
        return exc_result(orc, ex)
    return orc.result()


FOLLOW = ('metric_update', 'context_new_state', 'descriptor_update', 'descriptor_create', 'context_update')


def _follow_up(pm, follow, val):
    """An ordinary transaction that is committed (runs on the MDIB that saw the aborted transaction and on its twin)."""
    if follow == 0:
        with pm.metric_state_transaction(set_determination_time=False) as tr:
            st = tr.get_state('m0')
            st.MetricValue.Value = val
            st.BodySite.append(pm_types.CodedValue(val))
    elif follow == 1:
        with pm.context_state_transaction() as tr:
            tr.mk_context_state('pc0', 'pcs9')   # (not associated: association stamps the wall-clock time)
    elif follow == 2:
        with pm.descriptor_transaction() as tr:
            d = tr.get_descriptor('m0')
            d.Unit.Code = val
            d2 = tr.get_descriptor('ac0')
            d2.Source.append('m2')
    elif follow == 3:
        from sdc11073.mdib import descriptorcontainers as dc
        with pm.descriptor_transaction() as tr:
            nd = dc.StringMetricDescriptorContainer('m9', 'ch0')
            tr.add_descriptor(nd, state_container=pm.data_model.get_state_class_for_descriptor(nd)(nd))
    else:
        with pm.context_state_transaction() as tr:
            st = tr.get_context_state('lcs0')
            st.LocationDetail.Bed = val
            st.Validator.append(pm_types.InstanceIdentifier(val))


def aborted_then_commit(kind: int, crash: int, follow: int, mv: int, sv: int, val: str, empty: bool) -> str:
    """
    History independence: an aborted transaction (bodies and crash points of `aborted`) followed by an ordinary committed
    transaction (0 metric update, 1 new context state, 2 descriptor update, 3 descriptor creation of a remembered handle,
    4 context update) ends in exactly the MDIB - and publishes exactly as many reports with the same versions - as the
    committed transaction alone on a twin MDIB: the abort left nothing behind that a later commit picks up.
    pre: 0 <= kind <= 7
    pre: 0 <= crash <= 3
    pre: 0 <= follow <= 4
    pre: mv >= 0
    pre: sv >= 0
    pre: len(val) <= 2
    post: __return__ == 'ok'
    """
    orc = Oracle()
    try:
        pm, cap = _mk(mv, sv, empty_lists=empty)
        twin, cap2 = _mk(mv, sv, empty_lists=empty)
        for m in (pm, twin):
            _prep_saved_versions(m, kind, sv)
        _run_aborted(pm, kind, crash, val)
        orc.check(pm.current_transaction is None, 'transaction-left-open')
        outcome = []
        for m in (pm, twin):
            try:
                _follow_up(m, follow, val)
                outcome.append('committed')
            except Exception as ex:  # noqa: BLE001
                outcome.append('raises:' + type(ex).__name__)
        orc.check(outcome[0] == outcome[1], 'commit-after-abort-behaves-differently:' + outcome[0].split(':')[0])
        a, b = _snap(pm), _snap(twin)
        orc.check(a['version'] == b['version'], 'after-abort:mdib-version-differs')
        orc.check(a['descriptors'] == b['descriptors'], 'after-abort:descriptor-content-differs')
        orc.check(a['states'] == b['states'], 'after-abort:state-content-differs')
        orc.check(a['context_states'] == b['context_states'], 'after-abort:context-state-content-differs')
        orc.check(a['saved_versions'] == b['saved_versions'], 'after-abort:saved-versions-differ')
        orc.check(len(cap.sent) == len(cap2.sent), 'after-abort:number-of-reports-differs')
        orc.check(_idx_ok(pm), 'after-abort:index!=scan')
    except Exception as ex:  # noqa: BLE001
        return exc_result(orc, ex)
    return orc.result()


def rejected(case: int, mv: int, sv: int, val: str) -> str:
    """
    The API rejects a call inside the transaction (after a valid modification was already made in the same transaction):
    0 unknown handle in get_state, 1 wrong state type for the transaction, 2 get_state twice, 3 get_descriptor of an unknown
    handle, 4 add_descriptor with an existing handle, 5 mk_context_state with an existing handle, 6 mk_context_state for a
    non-context descriptor, 7 get_state in a descriptor transaction without its descriptor, 8 remove then get_state of the
    same handle. Whatever it raises, nothing may change.
    pre: 0 <= case <= 8
    pre: mv >= 0
    pre: sv >= 0
    pre: len(val) <= 2
    post: __return__ == 'ok'
    """
    orc = Oracle()
    try:
        pm, cap = _mk(mv, sv)
        before = _snap(pm)
        raised = False
        try:
            if case in (0, 1, 2):
                with pm.metric_state_transaction(set_determination_time=False) as tr:
                    st = tr.get_state('m1')
                    st.mk_metric_value()
                    st.MetricValue.Value = val
                    if case == 0:
                        tr.get_state('nope')
                    elif case == 1:
                        tr.get_state('ac0')
                    else:
                        tr.get_state('m1')
            elif case in (3, 4, 7, 8):
                with pm.descriptor_transaction() as tr:
                    d = tr.get_descriptor('m1')
                    d.SafetyClassification = pm_types.SafetyClassification.MED_A
                    if case == 3:
                        tr.get_descriptor('nope')
                    elif case == 4:
                        from sdc11073.mdib import descriptorcontainers as dc
                        tr.add_descriptor(dc.StringMetricDescriptorContainer('m0', 'ch0'))
                    elif case == 7:
                        tr.get_state('m0')
                    else:
                        tr.remove_descriptor('vmd0')
                        tr.get_state('vmd0')
            else:
                with pm.context_state_transaction() as tr:
                    st = tr.get_context_state('pcs0')
                    st.ContextAssociation = CA.DISASSOCIATED
                    if case == 5:
                        tr.mk_context_state('pc0', 'pcs0x' if False else 'lcs0')
                    else:
                        tr.mk_context_state('m0', 'zz')
        except Exception:  # noqa: BLE001
            raised = True
        orc.check(raised, 'invalid-call-accepted')
        _same(pm, orc, before, 'rejected')
        orc.check(len(cap.sent) == 0, 'report-sent-for-rejected-transaction')
    except Exception as ex:  # noqa: BLE001
        return exc_result(orc, ex)
    return orc.result()


def commit_failure(case: int, mv: int, sv: int) -> str:
    """
    The commit itself fails: 0 a pre_commit_handler raises, 1 a context state handed to add_state carries a handle that
    already exists (the unique index rejects it while the tables are being updated), 2 a context state is deleted through the
    entity interface (write_entity with a handle removed from entity.states) together with an update of another state,
    3 the same deletion through a DESCRIPTOR transaction (write_entity of the multi-state entity) together with a descriptor update,
    4 descriptor transaction: get_descriptor(m0) + add_state(a second state for m0), 5 descriptor transaction: entity of pc0 with
    a new state that uses the handle of lc0's state, written with write_entity.
    If the call or the commit raises, nothing may have changed; if it succeeds, it must have been applied completely.
    pre: 0 <= case <= 5
    pre: mv >= 0
    pre: sv >= 0
    post: __return__ == 'ok'
    """
    orc = Oracle()
    try:
        pm, cap = _mk(mv, sv)
        before = _snap(pm)
        raised = False
        try:
            if case == 0:
                def boom(mdib, tr):
                    raise Crash
                pm.pre_commit_handler = boom
                with pm.metric_state_transaction(set_determination_time=False) as tr:
                    st = tr.get_state('m1')
                    st.mk_metric_value()
            elif case == 1:
                with pm.context_state_transaction() as tr:
                    st = tr.get_context_state('pcs0')
                    st.ContextAssociation = CA.DISASSOCIATED
                    dup = k.mk_context_state(pm, pm.descriptions.handle.get_one('lc0'), 'lcs0', CA.NO_ASSOCIATION)
                    dup.descriptor_container = None
                    tr.add_state(dup)
            elif case == 4:
                with pm.descriptor_transaction() as tr:
                    d = tr.get_descriptor('m0')
                    d.SafetyClassification = pm_types.SafetyClassification.MED_B
                    tr.add_state(pm.data_model.get_state_class_for_descriptor(d)(d))
            elif case == 5:
                ent = pm.entities.by_handle('pc0')
                ent.descriptor.SafetyClassification = pm_types.SafetyClassification.MED_A
                ent.new_state('lcs0')
                with pm.descriptor_transaction() as tr:
                    tr.write_entity(ent)
            elif case == 3:
                ent = pm.entities.by_handle('lc0')
                del ent.states['lcs0']
                ent.descriptor.SafetyClassification = pm_types.SafetyClassification.MED_A
                with pm.descriptor_transaction() as tr:
                    tr.get_descriptor('m0').SafetyClassification = pm_types.SafetyClassification.MED_B
                    tr.write_entity(ent)
            else:
                ent = pm.entities.by_handle('lc0')
                del ent.states['lcs0']
                with pm.context_state_transaction() as tr:
                    st = tr.get_context_state('pcs0')
                    st.ContextAssociation = CA.DISASSOCIATED
                    tr.write_entity(ent, ['lcs0'])
        except Exception:  # noqa: BLE001
            raised = True
        if raised:
            _same(pm, orc, before, 'failed-commit')
            orc.check(len(cap.sent) == 0, 'report-sent-for-failed-commit')
        else:
            after = _snap(pm)
            orc.check(after['version'][0] == mv + 1, 'commit-without-version-increment')
            orc.check(after['none_in_tables'] == (False, False, False), 'None-in-table')
            orc.check(_idx_ok(pm), 'index!=scan')
            orc.check(case not in (4, 5), 'duplicate-state-key-accepted-and-committed')
            if case in (2, 3):
                orc.check('lcs0' not in after['context_states'], 'deleted-context-state-still-present')
            if case == 2:
                orc.check(after['context_states']['pcs0'] != before['context_states']['pcs0'], 'partial-commit')
            if case == 3:
                orc.check(after['descriptors']['m0'] != before['descriptors']['m0'] and
                          after['descriptors']['lc0'] != before['descriptors']['lc0'], 'partial-commit')
    except Exception as ex:  # noqa: BLE001
        return exc_result(orc, ex)
    return orc.result()


def isolation_after_commit(kind: int, mv: int, sv: int, val: str, val2: str) -> str:
    """
    After a successful commit, writing into objects the application still holds (0: the state object obtained from the
    transaction getter, nested member; 1: an entity obtained before the transaction; 2: the states inside the transaction
    result published to observers; 3: nothing held - a SECOND transaction writes a new value into the same nested member) must not
    change the MDIB (0-2), the report objects already handed to the subscription manager, nor the copies retained for periodic
    reports (0-3).
    pre: 0 <= kind <= 3
    pre: mv >= 0
    pre: sv >= 0
    pre: len(val) <= 2
    pre: len(val2) <= 2
    post: __return__ == 'ok'
    """
    orc = Oracle()
    try:
        if val == val2:
            return 'ok'
        pm, cap = _mk(mv, sv)
        prh = PeriodicReportsHandler(pm, None, 1.0)        # real retention code, thread never started
        cap.keep[1]._periodic_reports_handler = prh
        results = []
        from sdc11073 import observableproperties as properties

        def obs(tr_result):
            results.append(tr_result)
        properties.bind(pm, transaction=obs)
        ent = pm.entities.by_handle('m0') if kind == 1 else None
        with pm.metric_state_transaction(set_determination_time=False) as tr:
            if kind == 1:
                ent.state.MetricValue.Value = val
                tr.write_entity(ent)
                held = ent.state
            else:
                held = tr.get_state('m0')
                held.MetricValue.Value = val
        orc.check(len(cap.sent) == 1, 'no-report-sent')
        after_commit = _snap(pm)
        report_state = cap.sent[0][0].ReportPart[0].values_list[0]
        retained = prh._periodic_metric_reports[0].states[0]
        orc.check(report_state.MetricValue.Value == val and retained.MetricValue.Value == val, 'report-does-not-carry-committed-value')
        if kind == 0:
            held.MetricValue.Value = val2
        elif kind == 1:
            ent.state.MetricValue.Value = val2
            ent.descriptor.Unit.Code = val2
        elif kind == 2:
            results[0].metric_updates[0].MetricValue.Value = val2
        else:
            with pm.metric_state_transaction(set_determination_time=False) as tr:
                st = tr.get_state('m0')
                st.MetricValue.Value = val2
        if kind != 3:
            now = _snap(pm)
            orc.check(now['states'] == after_commit['states'] and now['descriptors'] == after_commit['descriptors'],
                      'post-commit-write-to-handed-out-object-changed-mdib:' + ('transaction-state', 'entity', 'transaction-result')[kind])
        if kind != 2:   # (the transaction result holds the very objects the report was built from; it is serialised at once)
            orc.check(report_state.MetricValue.Value == val, 'earlier-report-object-changed-by-later-write')
        orc.check(retained.MetricValue.Value == val, 'retained-periodic-copy-changed-by-later-write')
    except Exception as ex:  # noqa: BLE001
        return exc_result(orc, ex)
    return orc.result()


def _caught_body(pm, case, val, with_rejected):
    """One valid modification and (with_rejected) one call the API rejects, handled by the application INSIDE the body."""
    raised = False
    if case in (0, 1):
        good = pm.entities.by_handle('m0')
        good.state.MetricValue.Value = val
        bad = pm.entities.by_handle('ac0' if case == 0 else 'pc0')
        with pm.metric_state_transaction(set_determination_time=False) as tr:
            st = tr.get_state('m1')
            st.mk_metric_value()
            st.MetricValue.Value = val
            if with_rejected:
                try:
                    tr.write_entities([good, bad])
                except Exception:  # noqa: BLE001
                    raised = True
    elif case == 2:
        good = pm.entities.by_handle('ac0')
        good.state.Presence = True
        bad = pm.entities.by_handle('m1')      # (not m0: the error text renders the state and would realise the symbolic sv)
        with pm.alert_state_transaction() as tr:
            st = tr.get_state('as0')
            st.ActivationState = pm_types.AlertActivation.PAUSED
            if with_rejected:
                try:
                    tr.write_entities([good, bad])
                except Exception:  # noqa: BLE001
                    raised = True
    elif case == 3:
        ent = pm.entities.by_handle('pc0')
        ent.states['pcs0'].CoreData.Givenname = val
        with pm.context_state_transaction() as tr:
            st = tr.get_context_state('lcs0')
            st.LocationDetail.Bed = val
            if with_rejected:
                try:
                    tr.write_entity(ent, ['pcs0', 'nope'])
                except Exception:  # noqa: BLE001
                    raised = True
    elif case == 4:
        e0 = pm.entities.by_handle('m0')
        e0.descriptor.SafetyClassification = pm_types.SafetyClassification.MED_B
        e1 = pm.entities.by_handle('m1')
        e1.descriptor.SafetyClassification = pm_types.SafetyClassification.MED_A
        with pm.descriptor_transaction() as tr:
            tr.write_entity(e1)
            if with_rejected:
                try:
                    tr.write_entities([e0, e1])     # e1 is already in the updated set
                except Exception:  # noqa: BLE001
                    raised = True
    elif case == 7:
        from sdc11073.mdib import descriptorcontainers as dc
        with pm.descriptor_transaction() as tr:
            tr.get_descriptor('m1').SafetyClassification = pm_types.SafetyClassification.MED_A
            if with_rejected:
                nd = dc.StringMetricDescriptorContainer('m9', 'ch0')
                nd.Unit = pm_types.CodedValue('u')
                nd.MetricCategory = pm_types.MetricCategory.MEASUREMENT
                nd.MetricAvailability = pm_types.MetricAvailability.CONTINUOUS
                other = pm.states.descriptor_handle.get_one('m0').mk_copy()      # a state of ANOTHER descriptor
                try:
                    tr.add_descriptor(nd, state_container=other)
                except Exception:  # noqa: BLE001
                    raised = True
    elif case == 8:
        good = pm.entities.by_handle('m0')
        good.state.MetricValue.Value = val
        stale = pm.entities.new_entity(pm.data_model.pm_names.StringMetricDescriptor, 'never_written', 'ch0')
        with pm.metric_state_transaction(set_determination_time=False) as tr:
            st = tr.get_state('m1')
            st.mk_metric_value()
            st.MetricValue.Value = val
            if with_rejected:
                try:
                    tr.write_entities([good, stale])      # the second entity has no descriptor in the mdib
                except Exception:  # noqa: BLE001
                    raised = True
    else:
        with pm.context_state_transaction() as tr:
            st = tr.get_context_state('pcs0')
            st.CoreData.Givenname = val
            if with_rejected:
                try:
                    if case == 5:
                        tr.mk_context_state('lc0', 'lcs0')
                    else:
                        tr.get_context_state('nope')
                except Exception:  # noqa: BLE001
                    raised = True
    return raised


def rejected_call_caught(case: int, mv: int, sv: int, val: str) -> str:
    """
    The API rejects a call and the application handles the exception INSIDE the transaction body, which then ends normally.
    A rejected call has no effect: the outcome (MDIB snapshot, versions, number of reports) equals that of the same body without
    the rejected call, run on an identical second MDIB. 0 metric write_entities([valid, wrong state type]), 1 metric
    write_entities([valid, multi-state entity]), 2 alert write_entities([valid, wrong type]), 3 context write_entity(entity,
    [valid handle, unknown handle]), 4 descriptor write_entities([new, already written]), 5 mk_context_state with an existing
    handle, 6 get_context_state of an unknown handle, 7 add_descriptor with the state of another descriptor, 8 metric
    write_entities([valid, entity whose descriptor is not in the mdib]).
    pre: 0 <= case <= 8
    pre: mv >= 0
    pre: sv >= 0
    pre: len(val) <= 2
    post: __return__ == 'ok'
    """
    orc = Oracle()
    try:
        pm, cap = _mk(mv, sv)
        pm2, cap2 = _mk(mv, sv)
        raised = _caught_body(pm, case, val, True)
        _caught_body(pm2, case, val, False)
        orc.check(raised, 'invalid-call-accepted')
        a, b = _snap(pm), _snap(pm2)
        for key in ('version', 'sizes', 'descriptors', 'states', 'context_states', 'saved_versions'):
            orc.check(a[key] == b[key], 'rejected-call-had-an-effect:' + key)
        orc.check(len(cap.sent) == len(cap2.sent), 'rejected-call-had-an-effect:reports')
        orc.check(_idx_ok(pm), 'index!=scan')
    except Exception as ex:  # noqa: BLE001
        return exc_result(orc, ex)
    return orc.result()


def isolation_after_update(kind: int, mv: int, sv: int, val: str, val2: str) -> str:
    """
    An entity obtained BEFORE a commit is refreshed with entity.update() afterwards: it must show the committed data and still be
    a private copy at every depth. 0 single-state entity (m0) after a metric transaction; 1 multi-state entity (pc0) after a
    context transaction that changed pcs0 and CREATED pcs1 (a state the entity did not know); 2 single-state entity after a
    descriptor transaction changed a nested descriptor member.
    pre: 0 <= kind <= 2
    pre: mv >= 0
    pre: sv >= 0
    pre: len(val) <= 2
    pre: len(val2) <= 2
    post: __return__ == 'ok'
    """
    orc = Oracle()
    try:
        if val == val2:
            return 'ok'
        pm, cap = _mk(mv, sv)
        if kind == 0:
            ent = pm.entities.by_handle('m0')
            with pm.metric_state_transaction(set_determination_time=False) as tr:
                tr.get_state('m0').MetricValue.Value = val
        elif kind == 1:
            ent = pm.entities.by_handle('pc0')
            with pm.context_state_transaction() as tr:
                tr.get_context_state('pcs0').CoreData.Givenname = val
                new = tr.mk_context_state('pc0', 'pcs1')
                new.CoreData = pm_types.PatientDemographicsCoreData()
                new.CoreData.Givenname = val
                new.Validator = [pm_types.InstanceIdentifier('root')]
        else:
            ent = pm.entities.by_handle('m0')
            with pm.descriptor_transaction() as tr:
                tr.get_descriptor('m0').Unit.Code = val
        after_commit = _snap(pm)
        ent.update()
        if kind == 0:
            orc.check(ent.state.MetricValue.Value == val, 'update-does-not-show-committed-data')
            ent.state.MetricValue.Value = val2
            ent.state.BodySite.append(pm_types.CodedValue(val2))
            ent.descriptor.Unit.Code = val2
        elif kind == 1:
            orc.check('pcs1' in ent.states and ent.states['pcs0'].CoreData.Givenname == val, 'update-does-not-show-committed-data')
            ent.states['pcs0'].CoreData.Givenname = val2
            ent.states['pcs1'].CoreData.Givenname = val2
            ent.states['pcs1'].Validator.append(pm_types.InstanceIdentifier(val2))
            ent.states['pcs1'].ContextAssociation = CA.DISASSOCIATED
        else:
            orc.check(ent.descriptor.Unit.Code == val, 'update-does-not-show-committed-data')
            ent.descriptor.Unit.Code = val2
            ent.state.MetricValue.Value = val2
        _same(pm, orc, after_commit, 'write-to-updated-entity-changed-mdib')
    except Exception as ex:  # noqa: BLE001
        return exc_result(orc, ex)
    return orc.result()


def isolation_descriptor(kind: int, mv: int, dv: int, val: str, val2: str) -> str:
    """
    After a committed descriptor update, writing into the objects the application still holds must not change the MDIB nor what
    was published: 0 the descriptor returned by get_descriptor (nested member Unit.Code, list member BodySite-like Relation /
    Type), 1 the entity written with write_entity, 2 the descriptor inside the published transaction result (descr_updated),
    3 the descriptor inside the result of a CREATE (descr_created).
    pre: 0 <= kind <= 3
    pre: mv >= 0
    pre: dv >= 0
    pre: len(val) <= 2
    pre: len(val2) <= 2
    post: __return__ == 'ok'
    """
    orc = Oracle()
    try:
        if val == val2:
            return 'ok'
        pm, cap = _mk(mv, 0)
        d0 = pm.descriptions.handle.get_one('m0')
        d0.DescriptorVersion = dv
        pm.states.descriptor_handle.get_one('m0').DescriptorVersion = dv
        results = []
        from sdc11073 import observableproperties as properties

        def obs(tr_result):
            results.append(tr_result)
        properties.bind(pm, transaction=obs)
        if kind in (0, 2):
            with pm.descriptor_transaction() as tr:
                held = tr.get_descriptor('m0')
                held.Unit.Code = val
                held.Unit.Translation = [pm_types.T_Translation('t1')] if hasattr(pm_types, 'T_Translation') else held.Unit.Translation
        elif kind == 1:
            ent = pm.entities.by_handle('m0')
            ent.descriptor.Unit.Code = val
            with pm.descriptor_transaction() as tr:
                tr.write_entity(ent)
            held = ent.descriptor
        else:
            from sdc11073.mdib import descriptorcontainers as dc
            held = dc.StringMetricDescriptorContainer('m9', 'ch0')
            held.Unit = pm_types.CodedValue(val)
            held.MetricCategory = pm_types.MetricCategory.MEASUREMENT
            held.MetricAvailability = pm_types.MetricAvailability.CONTINUOUS
            with pm.descriptor_transaction() as tr:
                tr.add_descriptor(held, state_container=pm.data_model.get_state_class_for_descriptor(held)(held))
        target = 'm9' if kind == 3 else 'm0'
        after_commit = _snap(pm)
        orc.check(pm.descriptions.handle.get_one(target).Unit.Code == val, 'committed-descriptor-does-not-carry-the-value')
        published = [d for d in (results[0].descr_created if kind == 3 else results[0].descr_updated) if d.Handle == target]
        orc.check(len(published) == 1 and published[0].Unit.Code == val, 'published-descriptor-does-not-carry-the-value')
        if kind in (0, 1):
            held.Unit.Code = val2
            held.Unit.Translation.append(pm_types.T_Translation('t2')) if hasattr(pm_types, 'T_Translation') else None
        else:
            published[0].Unit.Code = val2
        now = _snap(pm)
        orc.check(now['descriptors'] == after_commit['descriptors'] and now['states'] == after_commit['states'],
                  'post-commit-write-to-handed-out-descriptor-changed-mdib:' + ('transaction-descriptor', 'entity', 'transaction-result',
                                                                               'transaction-result-created')[kind])
        if kind in (0, 1) and published:
            orc.check(published[0].Unit.Code == val, 'published-descriptor-changed-by-later-write')
    except Exception as ex:  # noqa: BLE001
        return exc_result(orc, ex)
    return orc.result()

"""C13 harnesses: HTTP request handling is total (pure-Python framing, path dispatch and the fault-converting middleware).

Layers, each driven through the REAL sdc11073 code:
  * HTTPReader._read_until/_read_dechunk/read_request_body/read_response_body over a pure-Python FakeStream with a spin
    detector (an infinite read loop at end-of-data becomes the label `spin:...`),
  * DispatchingRequestHandler.do_POST/do_GET/get_first_path_element/_read_request on a handler object whose socket side
    (send_response/send_header/end_headers/wfile/connection) is a recorder,
  * PathElementRegistry, RequestData, RequestDispatcher / DispatchKeyRegistryDeferred, MessageConverterMiddleware with the XML
    message reader / factory and the registered service handlers replaced by outcome selectors.
Selectors are turned into concrete values by explicit branching (`pick`), the remaining work then runs untraced.
"""
import queue
import zlib
from types import SimpleNamespace

from vf.hutil import Oracle, exc_label, exc_result, pick, quiet, untraced

quiet()
from harness import httpstubs as hs  # noqa: E402
from sdc11073.consumer.request_handler_deferred import DispatchKeyRegistryDeferred  # noqa: E402
from sdc11073.dispatch import (  # noqa: E402
    DispatchKey,
    MessageConverterMiddleware,
    PathElementRegistry,
    RequestData,
    RequestDispatcher,
)
from sdc11073.exceptions import InvalidActionError, ValidationError  # noqa: E402
from sdc11073.httpserver.compression import CompressionHandler  # noqa: E402
from sdc11073.httpserver.httpreader import DechunkError, HTTPReader  # noqa: E402
from sdc11073.httpserver.httprequesthandler import DispatchingRequestHandler  # noqa: E402
from lxml import etree as etree_  # noqa: E402
from sdc11073.pysoap.soapenvelope import Fault, faultcodeEnum  # noqa: E402
from sdc11073.provider.providerimpl import _PathElementDispatcher  # noqa: E402

FOCI = ('spin', 'raises', 'all')


def _report(orc, label, focus):
    """Record failure `label` if the obligation's focus covers its class (one failure mode per obligation)."""
    if label.startswith('spin:'):
        if focus != 'raises':
            orc.fail(label)
    elif focus != 'spin':
        orc.fail(label)


# ================================================================================================ reader: _read_dechunk

def exc_site(ex, default):
    """label of an unexpected exception: type @ innermost sdc11073 function on the traceback (concrete bookkeeping)."""
    tb, site = ex.__traceback__, default
    while tb is not None:
        code = tb.tb_frame.f_code
        if 'sdc11073' in code.co_filename:
            site = code.co_name
        tb = tb.tb_next
    return exc_label(ex, site)


def dechunk_outcome(data, frag=0):
    """Run the REAL HTTPReader._read_dechunk over a FakeStream. -> (kind, result, stream); kind is 'returned', 'rejected'
    (the documented DechunkError) or a violation label."""
    st = hs.FakeStream(data, frag)
    try:
        res = HTTPReader._read_dechunk(st)
    except DechunkError:
        return 'rejected', None, st
    except hs.SpinDetected:
        return ('spin:negative-chunk-size' if st.negative_read else 'spin:truncated-chunk'), None, st
    except Exception as ex:  # noqa: BLE001
        return exc_site(ex, '_read_dechunk'), None, st
    return 'returned', res, st


def dechunk_bytes(data: bytes, maxlen: int, focus: int) -> str:
    """
    Arbitrary bytes as a chunked body: _read_dechunk terminates and either returns bytes or raises DechunkError.
    pre: len(data) <= maxlen
    pre: 0 <= maxlen <= 20
    pre: 0 <= focus < 3
    post: __return__ == 'ok'
    """
    orc = Oracle()
    focus = pick(focus, FOCI)
    try:
        kind, res, _ = dechunk_outcome(data)
        if kind == 'returned':
            orc.check(isinstance(res, bytes), 'dechunk:result-not-bytes')
        elif kind != 'rejected':
            _report(orc, kind, focus)
    except Exception as ex:  # noqa: BLE001
        return exc_result(orc, ex, 'harness')
    return orc.result()


def read_until_bytes(data: bytes, maxlen: int) -> str:
    """
    _read_until: returns the bytes before the first CRLF if it ends within 16 bytes, else None; consumes exactly what it returns.
    pre: len(data) <= maxlen
    pre: 0 <= maxlen <= 20
    post: __return__ == 'ok'
    """
    orc = Oracle()
    try:
        st = hs.FakeStream(data)
        try:
            res = HTTPReader._read_until(st, hs.CRLF)
        except hs.SpinDetected:
            orc.fail('spin:_read_until')
            return orc.result()
        idx = -1                       # reference: first CRLF that ends within the first 16 bytes
        for i in range(min(len(data), 16) - 1):
            if data[i] == 13 and data[i + 1] == 10:
                idx = i
                break
        if res is None:
            orc.check(idx < 0, 'read_until:delimiter-missed')
        elif orc.check(idx >= 0 and len(res) == idx, 'read_until:not-first-delimiter'):
            orc.check(res == data[:idx] and st.pos == idx + 2, 'read_until:wrong-prefix')
    except Exception as ex:  # noqa: BLE001
        return exc_result(orc, ex, '_read_until')
    return orc.result()


SHAPES = ((), (1,), (2,), (10,), (17,), (1, 2), (2, 2), (10, 2), (17, 2))     # sizes of the data chunks before the last chunk
SHAPES_T = SHAPES + ((1, 1, 1), (2, 10, 17), (17, 17), (16,))


def mut_case(shape, kind, j, v, focus, cut, combo=False):
    """-> concrete (wire, focus) by explicit branching on the selectors that the chosen mutation uses."""
    sizes = pick(shape, SHAPES_T)
    nrec = len(sizes) + 1
    kind = pick(kind, tuple(range(len(hs.KINDS) + 1)))          # last = truncation of the valid message
    focus = pick(focus, FOCI)
    if kind in (0, 6) or kind == len(hs.KINDS):
        j = 0
    elif kind == 7:
        j = nrec - 1
    else:
        j = pick(j, tuple(range(nrec)))
    variant = None
    if 1 <= kind <= 6:
        variant = hs.pick_variant(kind, v)
    wire = hs.mutated_chunked(sizes, kind, j, variant)
    if kind == len(hs.KINDS):
        wire = wire[:pick(cut, tuple(range(len(wire))))]       # proper prefixes only
    elif combo:
        # thorough tier: mutation AND truncation (cut counted from the end so that the selector range is small)
        c = pick(cut, tuple(range(12)))
        wire = wire[:len(wire) - c] if c <= len(wire) else b''
    return wire, focus


def dechunk_mutated(shape: int, kind: int, j: int, v: int, focus: int, cut: int, nshape: int, combo: bool) -> str:
    """
    Structure-aware mutations of a valid chunked body (<= 3 data chunks + last chunk): one mutation of the size field, the
    extension, the header terminator, the data length, the data terminator, the tail or the last chunk, or a truncation at any
    offset. _read_dechunk terminates with bytes or DechunkError.
    pre: 0 <= shape < nshape
    pre: 0 <= nshape <= 13
    pre: 0 <= kind < 9
    pre: 0 <= j < 4
    pre: 0 <= v < 17
    pre: 0 <= focus < 3
    pre: 0 <= cut < 60
    post: __return__ == 'ok'
    """
    wire, focus = mut_case(shape, kind, j, v, focus, cut, combo)
    with untraced():
        orc = Oracle()
        try:
            out, res, _ = dechunk_outcome(wire)
            if out == 'returned':
                orc.check(isinstance(res, bytes), 'dechunk:result-not-bytes')
            elif out != 'rejected':
                _report(orc, out, focus)
        except Exception as ex:  # noqa: BLE001
            return exc_result(orc, ex, 'harness')
        return orc.result()


STREAM_TOK = (b'', b'\r\n', b'\r', b'\n', b'0', b'1', b';', b'-', b'x')


def dechunk_tokens(t0: int, t1: int, t2: int, t3: int, t4: int, focus: int) -> str:
    """
    Byte strings composed of <= 5 tokens from ('', CRLF, CR, LF, '0', '1', ';', '-', 'x') as chunked body.
    pre: 0 <= t0 < 9
    pre: 0 <= t1 < 9
    pre: 0 <= t2 < 9
    pre: 0 <= t3 < 9
    pre: 0 <= t4 < 9
    pre: 0 <= focus < 3
    post: __return__ == 'ok'
    """
    data = pick(t0, STREAM_TOK) + pick(t1, STREAM_TOK) + pick(t2, STREAM_TOK) + pick(t3, STREAM_TOK) + pick(t4, STREAM_TOK)
    focus = pick(focus, FOCI)
    with untraced():
        orc = Oracle()
        try:
            out, res, _ = dechunk_outcome(data)
            if out == 'returned':
                orc.check(isinstance(res, bytes), 'dechunk:result-not-bytes')
            elif out != 'rejected':
                _report(orc, out, focus)
        except Exception as ex:  # noqa: BLE001
            return exc_result(orc, ex, 'harness')
        return orc.result()


# ================================================================================================ reader: request / response body

GZ_ABC = CompressionHandler.compress_payload('gzip', b'abc')
GZ_CHUNKED = b'%x\r\n' % len(GZ_ABC) + GZ_ABC + b'\r\n0\r\n\r\n'
ALL_BODIES = (b'', b'abc', b'abcdef', GZ_ABC, GZ_ABC[:-3], b'3\r\nabc\r\n0\r\n\r\n', b'zz\r\n', b'0\r\n\r\n', b'3\r\nab', b'-1\r\n',
              GZ_CHUNKED)
GZ_CUT = GZ_ABC[:-3]
# body pools (case split `pool`): 0 = everything incl. malformed framing; 1 = unframed payloads; 2 = well-formed chunked messages
BODIES = (ALL_BODIES,
          (b'', b'abc', b'abcdef', GZ_ABC, GZ_CUT),
          (b'3\r\nabc\r\n0\r\n\r\n', b'0\r\n\r\n', GZ_CHUNKED, b'%x\r\n' % len(GZ_CUT) + GZ_CUT + b'\r\n0\r\n\r\n'))
TE = (None, 'chunked', 'Chunked', 'CHUNKED', '', 'gzip', 'chunked ', 'gzip, chunked')
CL = (None, '', '0', '3', str(len(GZ_ABC)), ' 3 ', '+3', '-1', 'abc', '3.0', '0x3', '3, 3', '99')
CE = (None, '', 'gzip', 'GZIP', 'x-lz4', 'bogus', 'identity', 'gzip, gzip')
SE = (None, (), ('gzip',), ('x-lz4', 'lz4'))
CODEC_REJECTIONS = (zlib.error, RuntimeError)      # a registered codec refusing corrupt data (zlib / lz4 are C code, outside)


def body_outcome(reader, msg, st, se):
    """Run the REAL read_request_body/read_response_body -> (kind, result)."""
    try:
        res = reader(msg, None if se is None else list(se))
    except CODEC_REJECTIONS:
        return 'codec-rejected', None
    except hs.SpinDetected:
        return ('spin:negative-chunk-size' if st.negative_read else 'spin:truncated-chunk'), None
    except Exception as ex:  # noqa: BLE001
        if type(ex).__module__ == HTTPReader.__module__:
            return 'rejected', None       # the reader's own rejections: exception classes defined by httpreader (DechunkError, ...)
        return exc_site(ex, reader.__name__), None
    return 'returned', res


def _body_case(te, cl, ce, se, pool, body, focus):
    te, cl = pick(te, TE), pick(cl, CL)
    ce, se = pick(ce, CE), pick(se, SE)
    return te, cl, ce, se, pick(body, pick(pool, BODIES)), pick(focus, FOCI)


def _headers(te, cl, ce):
    pairs = []
    if te is not None:
        pairs.append(('Transfer-Encoding', te))
    if cl is not None:
        pairs.append(('Content-Length', cl))
    if ce is not None:
        pairs.append(('Content-Encoding', ce))
    return hs.CIHeaders(pairs)


def request_body(te: int, cl: int, ce: int, se: int, pool: int, body: int, focus: int) -> str:
    """
    read_request_body for every combination of transfer-encoding / content-length / content-encoding header values (valid, sloppy,
    junk) over a pool of body streams: terminates; returns bytes/None or raises DechunkError / DecompressError (or the codec's
    own rejection of corrupt data).
    pre: 0 <= te < 8
    pre: 0 <= cl < 13
    pre: 0 <= ce < 8
    pre: 0 <= se < 4
    pre: 0 <= pool < 3
    pre: 0 <= body < 11
    pre: 0 <= focus < 3
    post: __return__ == 'ok'
    """
    te, cl, ce, se, data, focus = _body_case(te, cl, ce, se, pool, body, focus)
    with untraced():
        orc = Oracle()
        try:
            st = hs.FakeStream(data)
            kind, res = body_outcome(HTTPReader.read_request_body, hs.FakeMessage(_headers(te, cl, ce), st), st, se)
            if focus != 'spin':
                # rfile.read(<0) returns when the peer closes its side: the request is never answered on a live connection
                orc.check(not st.negative_read, 'request_body:reads-until-the-peer-closes')
            if kind == 'returned':
                orc.check(res is None or isinstance(res, bytes), 'request_body:result-not-bytes')
            elif kind not in ('rejected', 'codec-rejected'):
                _report(orc, kind, focus)
        except Exception as ex:  # noqa: BLE001
            return exc_result(orc, ex, 'harness')
        return orc.result()


def response_body(te: int, cl: int, ce: int, se: int, pool: int, body: int, focus: int) -> str:
    """
    read_response_body, same header space (the http client has already de-chunked: `read()` returns the rest, then b'').
    pre: 0 <= te < 8
    pre: 0 <= cl < 13
    pre: 0 <= ce < 8
    pre: 0 <= se < 4
    pre: 0 <= pool < 3
    pre: 0 <= body < 11
    pre: 0 <= focus < 3
    post: __return__ == 'ok'
    """
    te, cl, ce, se, data, focus = _body_case(te, cl, ce, se, pool, body, focus)
    with untraced():
        orc = Oracle()
        try:
            st = hs.FakeStream(data)
            kind, res = body_outcome(HTTPReader.read_response_body, hs.FakeResponse(_headers(te, cl, ce), st), st, se)
            if kind == 'returned':
                orc.check(isinstance(res, bytes), 'response_body:result-not-bytes')
            elif kind not in ('rejected', 'codec-rejected'):
                _report(orc, kind, focus)
        except Exception as ex:  # noqa: BLE001
            return exc_result(orc, ex, 'harness')
        return orc.result()


# ================================================================================================ handler / dispatch / middleware

KEY = 'k'                      # the path element under which the component is registered
ACTION, QNAME = 'urn:act', 'urn:q'
RESP, FAULT = b'<resp/>', b'<fault/>'


class StubMessage:
    """CreatedMessage stand-in (lxml serialisation is outside): serialize() returns a tag telling what was built."""

    def __init__(self, data):
        self.data = data

    def serialize(self, **_kw):
        return self.data


_LXML_PROBE = etree_.Element('probe')


class StubFactory:
    """MessageFactory stand-in: builds StubMessage(FAULT) from a real Fault payload; anything else is a harness-visible
    AttributeError, like the real factory dereferencing a non-message payload."""

    def __init__(self):
        self.built = []

    def _mk(self, payload):
        if not isinstance(payload, Fault):
            raise AttributeError('payload is not a message type')
        for reason in payload.Reason.Text:
            _LXML_PROBE.text = reason.text     # the real factory hands the reason text to lxml: ValueError for what XML cannot hold
        self.built.append(payload)
        return StubMessage(FAULT)

    def mk_soap_message(self, header_info, payload, *a, **k):
        return self._mk(payload)

    def mk_reply_soap_message(self, request, response_payload, *a, **k):
        _ = request.message_data.p_msg     # the real factory reads the request's addressing header
        return self._mk(response_payload)


def _fault(text):
    f = Fault()
    f.Code.Value = faultcodeEnum.SENDER
    f.add_reason_text(text)
    return f


class StubReader:
    """MessageReader stand-in. outcome 0: returns a message with the (un)registered action; 1: schema validation fails
    (ValidationError, only when validate=True); 2: not well-formed (an arbitrary Exception, as lxml's XMLSyntaxError)."""

    def __init__(self, outcome, action):
        self.outcome, self.action, self.calls = outcome, action, 0

    def read_received_message(self, xml_text, validate=True):
        self.calls += 1
        if self.outcome == 2:
            raise SyntaxError('not well-formed')
        if self.outcome == 1 and validate:
            raise ValidationError(reason='document invalid', soap_fault=_fault('invalid'))
        return SimpleNamespace(action=self.action, q_name=QNAME, p_msg=SimpleNamespace())


class Service:
    """registered POST/GET handlers; outcome by selector. `calls` counts every invocation: the handlers are the only code that
    holds the MDIB / the subscription table, so calls == 0 <=> the request did not touch them."""

    def __init__(self, post_outcome, get_outcome):
        self.post_outcome, self.get_outcome, self.calls = post_outcome, get_outcome, 0

    def on_post(self, request_data):
        self.calls += 1
        if self.post_outcome == 1:
            raise InvalidActionError(_fault('refused by handler'))
        if self.post_outcome == 2:
            raise RuntimeError('handler crashed')
        if self.post_outcome == 3:
            return None
        return StubMessage(RESP)

    def on_get(self):
        self.calls += 1
        if self.get_outcome == 1:
            raise RuntimeError('handler crashed')
        return RESP


def mk_dispatcher(deferred, service):
    if deferred:
        d = DispatchKeyRegistryDeferred.__new__(DispatchKeyRegistryDeferred)
        RequestDispatcher.__init__(d, 'x')
        d._queue = queue.Queue(1000)      # no worker thread: queued calls stay visible
    else:
        d = RequestDispatcher('x')
    d.register_post_handler(DispatchKey(ACTION, QNAME), service.on_post)
    d.register_get_handler('?wsdl', service.on_get)
    return d


def touched(dispatcher, service):
    q = getattr(dispatcher, '_queue', None)
    return service.calls + (q.qsize() if q is not None else 0)


# wsa:Action values no handler is registered for - xs:anyURI accepts all of them, so schema validation lets them through
UNKNOWN_ACTIONS = ('urn:unknown', 'urn:\u20acuro', 'urn:x\r\nX-Injected: yes', 'urn:x\ny', 'urn:\x7f')
UNKNOWN_ACTION = ['urn:unknown']


def mk_component(mr, act, ho, go, deferred):
    service = Service(ho, go)
    reader = StubReader(mr, ACTION if act else UNKNOWN_ACTION[0])
    factory = StubFactory()
    disp = mk_dispatcher(deferred, service)
    comp = MessageConverterMiddleware(reader, factory, hs.NullLogger(), disp)
    return comp, service, reader, factory, disp


def middleware_post(mr: int, act: bool, ho: int, deferred: bool, path: int, ua: int = 0) -> str:
    """
    MessageConverterMiddleware.do_post with reader outcome x (un)registered action x handler outcome x dispatcher kind:
    never raises, returns (status, reason, body) with status 200 (proper response) or 4xx/5xx (fault built from a Fault);
    a request rejected before dispatch reaches no handler.
    pre: 0 <= mr < 3
    pre: 0 <= ho < 4
    pre: 0 <= path < 4
    pre: 0 <= ua < 5
    post: __return__ == 'ok'
    """
    mr, act, deferred = pick(mr, (0, 1, 2)), bool(act), bool(deferred)
    ho = pick(ho, (0, 1, 2, 3)) if (mr == 0 and act and not deferred) else 0
    path = pick(path, ('/k', '/k/Get', 'k', ''))
    UNKNOWN_ACTION[0] = UNKNOWN_ACTIONS[0] if act else pick(ua, UNKNOWN_ACTIONS)
    with untraced():
        orc = Oracle()
        try:
            comp, service, reader, factory, disp = mk_component(mr, act, ho, 0, deferred)
            try:
                result = comp.do_post(hs.CIHeaders(), path, ('peer', 1), b'<x/>')
            except Exception as ex:  # noqa: BLE001
                return exc_result(orc, ex, 'do_post')
            orc.check(isinstance(result, tuple) and len(result) == 3, 'do_post:result-shape')
            status, reason, body = result
            orc.check(isinstance(status, int) and (status == 200 or 400 <= status <= 599), 'do_post:bad-status')
            orc.check(isinstance(reason, str) and isinstance(body, bytes), 'do_post:bad-reason-or-body')
            try:
                reason.encode('latin-1', 'strict')
            except UnicodeError:
                orc.fail('do_post:reason-not-encodable-in-a-status-line')
            orc.check('\r' not in reason and '\n' not in reason, 'do_post:line-break-in-reason')
            accepted = mr == 0 and act and (deferred or ho == 0)
            orc.check((status == 200) == accepted, 'do_post:status-vs-outcome')
            if status == 200:
                orc.check(body == (b'' if deferred else RESP), 'do_post:ok-without-proper-response')
            else:
                orc.check(body == FAULT and len(factory.built) == 1, 'do_post:error-without-fault')
            if mr != 0 or not act:
                orc.check(touched(disp, service) == 0, 'do_post:rejected-request-reached-handler')
            else:
                orc.check(touched(disp, service) == 1, 'do_post:accepted-request-not-dispatched-once')
        except Exception as ex:  # noqa: BLE001
            return exc_result(orc, ex, 'harness')
        return orc.result()


SECOND_LEVEL = ('Get', 'Nope', '', 'a\x01b', 'a\x00', 'a\x08', 'a\x7fb', 'a\x85b', 'a\xff', 'G\x0bet', 'a<b>&', 'Get ')


def middleware_post_second_level(elem: int, deferred: bool, tail: int) -> str:
    """
    MessageConverterMiddleware.do_post over the provider's REAL _PathElementDispatcher (second path element selects the
    service): any second path element a request line can carry - control characters included - is answered, never raised:
    200 for the registered element, a 4xx/5xx with a fault built for every other one; the reason fits a status line.
    pre: 0 <= elem < 12
    pre: 0 <= tail < 3
    post: __return__ == 'ok'
    """
    elem = pick(elem, SECOND_LEVEL)
    deferred = bool(deferred)
    path = '/k/' + elem + pick(tail, ('', '/', '/x'))
    UNKNOWN_ACTION[0] = UNKNOWN_ACTIONS[0]
    with untraced():
        orc = Oracle()
        try:
            service = Service(0, 0)
            inner = mk_dispatcher(deferred, service)
            outer = _PathElementDispatcher()
            outer.register_instance('Get', inner)
            factory = StubFactory()
            comp = MessageConverterMiddleware(StubReader(0, ACTION), factory, hs.NullLogger(), outer)
            try:
                result = comp.do_post(hs.CIHeaders(), path, ('peer', 1), b'<x/>')
            except Exception as ex:  # noqa: BLE001
                return exc_result(orc, ex, 'do_post')
            orc.check(isinstance(result, tuple) and len(result) == 3, 'do_post2:result-shape')
            status, reason, body = result
            orc.check(isinstance(status, int) and (status == 200 or 400 <= status <= 599), 'do_post2:bad-status')
            orc.check(isinstance(reason, str) and isinstance(body, bytes), 'do_post2:bad-reason-or-body')
            try:
                reason.encode('latin-1', 'strict')
            except UnicodeError:
                orc.fail('do_post2:reason-not-encodable-in-a-status-line')
            orc.check('\r' not in reason and '\n' not in reason and len(reason) <= 200, 'do_post2:reason-not-a-status-line-text')
            orc.check((status == 200) == (elem == 'Get'), 'do_post2:status-vs-registration')
            if status == 200:
                orc.check(body == (b'' if deferred else RESP) and touched(inner, service) == 1, 'do_post2:ok-without-proper-response')
            else:
                orc.check(body == FAULT and len(factory.built) == 1, 'do_post2:error-without-fault')
                orc.check(touched(inner, service) == 0, 'do_post2:rejected-request-reached-handler')
        except Exception as ex:  # noqa: BLE001
            return exc_result(orc, ex, 'harness')
        return orc.result()


GET_PATHS = ('/k/?wsdl', '/k?wsdl', '/k', '/k/', '/k/Nope', 'k/?wsdl', '/k/?wsdl/x', '/k/Get?wsdl')


def middleware_get(go: int, path: int) -> str:
    """
    MessageConverterMiddleware.do_get: never raises, returns (200|5xx, reason, body, content-type); unknown sub-path reaches
    no handler.
    pre: 0 <= go < 2
    pre: 0 <= path < 8
    post: __return__ == 'ok'
    """
    go, path = pick(go, (0, 1)), pick(path, GET_PATHS)
    with untraced():
        orc = Oracle()
        try:
            comp, service, reader, factory, disp = mk_component(0, True, 0, go, False)
            try:
                result = comp.do_get(hs.CIHeaders(), path, ('peer', 1))
            except Exception as ex:  # noqa: BLE001
                return exc_result(orc, ex, 'do_get')
            orc.check(isinstance(result, tuple) and len(result) == 4, 'do_get:result-shape')
            status, reason, body, ctype = result
            orc.check(isinstance(status, int) and (status == 200 or 400 <= status <= 599), 'do_get:bad-status')
            orc.check(isinstance(reason, str) and isinstance(ctype, str), 'do_get:bad-reason-or-type')
            known = path in ('/k/?wsdl', 'k/?wsdl', '/k/?wsdl/x')
            orc.check((status == 200) == (known and go != 1), 'do_get:status-vs-outcome')
            orc.check(service.calls == (1 if known else 0), 'do_get:handler-calls')
        except Exception as ex:  # noqa: BLE001
            return exc_result(orc, ex, 'harness')
        return orc.result()


class RecHandler(DispatchingRequestHandler):
    """The REAL DispatchingRequestHandler with its socket side replaced by recorders (no BaseHTTPRequestHandler.__init__)."""

    def __init__(self, path, headers, stream, server):   # noqa: super-init-not-called
        self.path, self.headers, self.rfile, self.server = path, headers, stream, server
        self.wfile = hs.ListWriter()
        self.connection = SimpleNamespace(getpeername=lambda: ('peer', 1))
        self.client_address = ('peer', 1)
        self.close_connection = False
        self.out = []

    def send_response(self, code, message=None):
        if message is not None:
            message.encode('latin-1', 'strict')       # as BaseHTTPRequestHandler.send_response_only does with the status line
        self.out.append(('status', code, message))

    def send_header(self, keyword, value):
        f'{keyword}: {value}'.encode('latin-1', 'strict')       # as BaseHTTPRequestHandler.send_header
        self.out.append(('header', keyword.lower(), value))

    def end_headers(self):
        self.out.append(('end',))


def mk_server(registry, chunk_size=0, supported=('gzip',)):
    return SimpleNamespace(dispatcher=registry, chunk_size=chunk_size, supported_encodings=list(supported),
                           logger=hs.NullLogger())


def check_exchange(orc, h, tag):
    """what the peer sees: exactly one status line (200/4xx/5xx), headers terminated, body framed as announced."""
    statuses = [r for r in h.out if r[0] == 'status']
    if not orc.check(len(statuses) == 1, tag + ':no-single-status-line'):
        return None
    code = statuses[0][1]
    orc.check(isinstance(code, int) and (code == 200 or 400 <= code <= 599), tag + ':bad-status')
    for r in h.out:       # nothing the handler writes into the response head may break out of its line
        for text in r[2:] if r[0] == 'status' else r[1:]:
            orc.check('\r' not in str(text) and '\n' not in str(text), tag + ':line-break-in-response-head')
    if not orc.check(('end',) in h.out, tag + ':headers-never-ended'):
        return code
    hdr = {r[1]: r[2] for r in h.out if r[0] == 'header'}
    body = h.wfile.value()
    if hdr.get('transfer-encoding') == 'chunked':
        ok, segs, end = hs.parse_chunked_strict(body)
        orc.check(ok and end == len(body), tag + ':invalid-chunked-response')
    else:
        orc.check(hdr.get('content-length') == str(len(body)), tag + ':content-length-mismatch')
    return code


def run_method(h, method):
    """-> None or the label of an exception that left do_POST/do_GET (i.e. would reach socketserver: no HTTP response)."""
    try:
        (h.do_POST if method == 'POST' else h.do_GET)()
    except hs.SpinDetected:
        return 'spin:' + method
    except Exception as ex:  # noqa: BLE001
        return 'escapes:' + type(ex).__name__
    return None


RAISED_TEXTS = ('boom', '', 'two\nlines', 'a\r\nX-Injected: yes', 'x' * 5000, 'gr\u00fc\u00dfe \u20ac', 'tab\tand\x00nul',
                'Traceback (most recent call last):\n  File "x.py", line 1\n\nValueError: All strings must be XML compatible')
RAISED_TYPES = (Exception, ValueError, KeyError, UnicodeError, RuntimeError)


class RaisingComponent:
    """A registered component whose do_post raises (what a defect anywhere below the handler looks like to the handler)."""

    def __init__(self, exc):
        self.exc = exc

    def do_post(self, *_a, **_k):
        raise self.exc


def handler_component_raises(text: int, etype: int, ae: int, chunk: int) -> str:
    """
    do_POST when the registered component raises an exception with an arbitrary message: the peer gets exactly one 5xx
    status line that IS one line (the message, whatever it holds, does not get into the response head), terminated headers
    and a body framed as announced.
    pre: 0 <= text < 8
    pre: 0 <= etype < 5
    pre: 0 <= ae < 3
    pre: 0 <= chunk < 3
    post: __return__ == 'ok'
    """
    text, etype = pick(text, RAISED_TEXTS), pick(etype, RAISED_TYPES)
    ae = pick(ae, (None, 'gzip', 'bogus'))
    chunk = pick(chunk, (0, 1, 5))
    with untraced():
        orc = Oracle()
        try:
            registry = PathElementRegistry()
            registry.register_instance(KEY, RaisingComponent(etype(text)))
            pairs = [('Content-Length', '4')]
            if ae is not None:
                pairs.append(('Accept-Encoding', ae))
            h = RecHandler('/k/Get', hs.CIHeaders(pairs), hs.FakeStream(b'<x/>'), mk_server(registry, chunk))
            esc = run_method(h, 'POST')
            if esc is not None:
                orc.fail('POST:component-exception-' + esc)
                return orc.result()
            code = check_exchange(orc, h, 'POST')
            orc.check(code is not None and 500 <= code <= 599, 'POST:component-exception-not-answered-5xx')
            for r in h.out:
                if r[0] == 'status':
                    orc.check(r[2] is None or len(r[2]) <= 200, 'POST:status-line-carries-the-exception-text')
        except Exception as ex:  # noqa: BLE001
            return exc_result(orc, ex, 'harness')
        return orc.result()


TARGET_TOK = ('', '/', 'k', 'z', '?', '#', ':', 'wsdl', 'http://h', '[', '*')


def _valid_target(target):
    # what BaseHTTPRequestHandler.parse_request can deliver in self.path: non-empty, no whitespace, and a leading '//' is
    # rewritten to '/'
    return len(target) > 0 and not target.startswith('//')


def _target_failure(esc, method, target):
    """specific label for an exception leaving do_POST/do_GET while resolving the request target."""
    from urllib.parse import urlparse
    try:
        p = urlparse(target).path
    except ValueError:
        return f'{method}:{esc}:target-rejected-by-urlparse'
    if p == '':
        return f'{method}:{esc}:target-without-path'
    return f'{method}:{esc}:unknown-path'


def handler_target(method: int, t0: int, t1: int, t2: int, t3: int, ntok: int) -> str:
    """
    do_POST / do_GET for request targets composed of <= 4 tokens: an HTTP status is always produced, no exception leaves the
    method, the component is reached iff the first path element is the registered key.
    pre: 0 <= method < 2
    pre: 0 <= t0 < ntok
    pre: 0 <= t1 < ntok
    pre: 0 <= t2 < ntok
    pre: 0 <= t3 < ntok
    pre: 1 <= ntok <= 11
    post: __return__ == 'ok'
    """
    method = pick(method, ('POST', 'GET'))
    ntok = pick(ntok - 1, tuple(range(1, 12)))
    toks = TARGET_TOK[:ntok]
    target = pick(t0, toks) + pick(t1, toks) + pick(t2, toks) + pick(t3, toks)
    with untraced():
        if not _valid_target(target):
            return 'ok'
        return _handler_case(method, target, 0, True, 0, 0, 0, False, None, 0, True)


def _handler_case(method, target, rs, has_disp, mr, ho, go, deferred, ae, chunk, act):
    orc = Oracle()
    try:
        comp, service, reader, factory, disp = mk_component(mr, act, ho, go, deferred)
        registry = None
        if has_disp:
            registry = PathElementRegistry()
            registry.register_instance(KEY, comp)
        pairs, data = REQ_SCENARIOS[rs]
        pairs = list(pairs)
        if ae is not None:
            pairs.append(('Accept-Encoding', ae))
        stream = hs.FakeStream(data)
        h = RecHandler(target, hs.CIHeaders(pairs), stream, mk_server(registry, chunk))
        esc = run_method(h, method)
        if esc is not None:
            if esc.startswith('spin:'):
                orc.fail(esc)
            elif rs in REJECTING_SCENARIOS and method == 'POST':
                orc.fail('POST:reader-rejection-not-answered')
            else:
                orc.fail(_target_failure(esc, method, target))
            return orc.result()
        code = check_exchange(orc, h, method)
        if method == 'POST' and code is not None:
            # the handler instance serves the next request of the connection from the same stream: bytes of this request that were
            # not read would be parsed as that next request (the body of a rejected request gets executed)
            orc.check(h.close_connection or stream.pos >= len(data), 'POST:unread-request-bytes-left-on-an-open-connection')
        if code == 200:
            orc.check(touched(disp, service) == 1, method + ':200-without-dispatch')
        elif code is not None and (not has_disp or rs in REJECTING_SCENARIOS or mr != 0 or not act):
            orc.check(touched(disp, service) == 0, method + ':rejected-request-reached-handler')
    except Exception as ex:  # noqa: BLE001
        return exc_result(orc, ex, 'harness')
    return orc.result()


# request framing scenarios for do_POST: (headers, stream). 2 and 3 are the reader's DOCUMENTED rejections.
REQ_SCENARIOS = (
    ((('Content-Length', '4'),), b'<x/>'),
    ((('Transfer-Encoding', 'chunked'),), b'4\r\n<x/>\r\n0\r\n\r\n'),
    ((('Transfer-Encoding', 'chunked'),), b'zz\r\n<x/>\r\n0\r\n\r\n'),          # DechunkError
    ((('Content-Length', '4'), ('Content-Encoding', 'bogus')), b'<x/>'),          # DecompressError
    ((), b''),                                                                     # no body at all
    ((('Content-Length', '7'), ('Content-Encoding', 'gzip')), GZ_ABC[:7]),         # corrupt gzip: codec rejection
    ((('Content-Length', 'abc'),), b'POST /k/Get HTTP/1.1\r\nContent-Length: 4\r\n\r\n<x/>'),   # body of unknown length = a request
    ((('Content-Length', '-1'),), b'POST /k/Get HTTP/1.1\r\nContent-Length: 4\r\n\r\n<x/>'),
)
REJECTING_SCENARIOS = (2, 3, 5, 6, 7)
# request targets by class (case split `tclass`): first path element registered / not registered / no path component at all /
# authority that urlparse refuses
TARGETS = (('/k', '/k/Get', '/k/?wsdl', 'k', 'http://h/k/?wsdl', '/k#f', '/k?wsdl', 'k/'),
           ('/zz', '/', '*', '/zz/k', 'zz', '/K', '/k%20', 'http://h/'),
           ('?a', '#f', 'http://h', 'http://h?q', '?', '#'),
           ('http://[', 'http://[::1', 'x://[/k'))


def handler_post(rs: int, tclass: int, target: int, has_disp: bool, mr: int, act: bool, ho: int, deferred: bool, ae: int,
                 chunk: int, ua: int = 0) -> str:
    """
    do_POST end to end over stubbed XML: framing scenario x request target x dispatcher present x message-reader outcome x
    action registered x handler outcome x dispatcher kind x Accept-Encoding x chunked response.
    pre: 0 <= rs < 8
    pre: 0 <= tclass < 4
    pre: 0 <= target < 8
    pre: 0 <= mr < 3
    pre: 0 <= ho < 4
    pre: 0 <= ae < 3
    pre: 0 <= chunk < 3
    pre: 0 <= ua < 5
    post: __return__ == 'ok'
    """
    UNKNOWN_ACTION[0] = UNKNOWN_ACTIONS[0] if act else pick(ua, UNKNOWN_ACTIONS)
    rs = pick(rs, tuple(range(8)))
    has_disp = bool(has_disp)
    target = pick(target, pick(tclass, TARGETS))
    mr, act, deferred = pick(mr, (0, 1, 2)), bool(act), bool(deferred)
    ho = pick(ho, (0, 1, 2, 3)) if (mr == 0 and act and not deferred) else 0
    ae = pick(ae, (None, 'gzip', 'bogus'))
    chunk = pick(chunk, (0, 1, 5))
    with untraced():
        return _handler_case('POST', target, rs, has_disp, mr, ho, 0, deferred, ae, chunk, act)


def handler_get(tclass: int, target: int, has_disp: bool, go: int, ae: int, chunk: int) -> str:
    """
    do_GET end to end: request target x dispatcher present x GET handler outcome x Accept-Encoding x chunked response.
    pre: 0 <= tclass < 4
    pre: 0 <= target < 8
    pre: 0 <= go < 2
    pre: 0 <= ae < 3
    pre: 0 <= chunk < 3
    post: __return__ == 'ok'
    """
    has_disp = bool(has_disp)
    target = pick(target, pick(tclass, TARGETS))
    go = pick(go, (0, 1))
    ae = pick(ae, (None, 'gzip', 'bogus'))
    chunk = pick(chunk, (0, 1, 5))
    with untraced():
        return _handler_case('GET', target, 4, has_disp, 0, 0, go, False, ae, chunk, True)


def request_data_paths(t0: int, t1: int, t2: int, t3: int) -> str:
    """
    RequestData path bookkeeping for any target of <= 4 tokens: consumed + remaining elements always re-join to the path
    (without one leading '/'), consume never raises, current_path_element is the head of the remaining elements.
    pre: 0 <= t0 < 5
    pre: 0 <= t1 < 5
    pre: 0 <= t2 < 5
    pre: 0 <= t3 < 5
    post: __return__ == 'ok'
    """
    toks = ('', '/', 'k', 'Get', '?')
    path = pick(t0, toks) + pick(t1, toks) + pick(t2, toks) + pick(t3, toks)
    with untraced():
        orc = Oracle()
        try:
            rd = RequestData(hs.CIHeaders(), path, ('peer', 1))
            want = (path[1:] if path.startswith('/') else path).split('/')
            for _ in range(len(want) + 2):
                orc.check(rd.consumed_path_elements + rd.path_elements == want, 'request_data:elements-lost')
                cur = rd.current_path_element
                orc.check(cur == (rd.path_elements[0] if rd.path_elements else None), 'request_data:current-element')
                got = rd.consume_current_path_element()
                orc.check(got == cur, 'request_data:consume-returns-other-element')
        except Exception as ex:  # noqa: BLE001
            return exc_result(orc, ex, 'RequestData')
        return orc.result()


# ------------------------------------------------------------------------------------------------ XML entities (real lxml)

_ENT = {}


def _entity_env():
    """Real MessageReader instances (with and without schema validation) and the files external entities point to.
    Built at import: CrossHair's side-effect wall refuses file creation while a path is being analysed."""
    if not _ENT:
        import logging
        import os
        from sdc11073.definitions_sdc import SdcV1Definitions
        from sdc11073.pysoap.msgreader import MessageReader
        d = os.path.join(os.path.dirname(os.path.dirname(os.path.abspath(__file__))), '.work', 'c13_entities')
        os.makedirs(d, exist_ok=True)
        secret, dtd = os.path.join(d, 'secret.txt'), os.path.join(d, 'ext.dtd')
        for path, content in ((secret, 'SECRETFILE'), (dtd, '<!ENTITY a "EXPANDEDTEXT">')):
            if not os.path.exists(path):
                tmp = f'{path}.{os.getpid()}'
                with open(tmp, 'w') as f:
                    f.write(content)
                os.replace(tmp, path)
        _ENT.update(dir=d, secret=secret, dtd=dtd,
                    plain=MessageReader(SdcV1Definitions, None, logger=logging.getLogger('verif'), validate=False),
                    valid=MessageReader(SdcV1Definitions, None, logger=logging.getLogger('verif'), validate=True))
    return _ENT


_entity_env()


def _entity_doc(ekind, place, env):
    """SOAP 1.2 GetMdib request whose DOCTYPE declares entities (by kind) that are referenced at `place`."""
    ref = '&a;'
    if ekind == 0:
        subset = '<!ENTITY a "EXPANDEDTEXT">'
    elif ekind == 1:
        subset = '<!ENTITY z "EXPANDEDTEXT"><!ENTITY y "&z;&z;&z;&z;&z;&z;&z;&z;"><!ENTITY a "&y;&y;&y;&y;&y;&y;&y;&y;">'
    elif ekind == 2:
        subset = f'<!ENTITY a SYSTEM "file://{env["secret"]}">'
    elif ekind == 3:
        subset = f'<!ENTITY % ext SYSTEM "file://{env["dtd"]}"> %ext;'
    else:
        subset, ref = '', 'plain'
    doctype = f'<!DOCTYPE Envelope [{subset}]>' if ekind != 5 else f'<!DOCTYPE Envelope SYSTEM "file://{env["dtd"]}">'
    if ekind == 5:
        ref = '&a;'
    mid = 'urn:uuid:' + (ref if place == 0 else '1')
    attr = ref if place == 1 else 'x'
    body = ref if place == 2 else ''
    return (f'<?xml version="1.0"?>{doctype}'
            '<s12:Envelope xmlns:s12="http://www.w3.org/2003/05/soap-envelope" xmlns:wsa="http://www.w3.org/2005/08/addressing" '
            'xmlns:msg="http://standards.ieee.org/downloads/11073/11073-10207-2017/message">'
            '<s12:Header><wsa:Action>http://standards.ieee.org/downloads/11073/11073-20701-2018/GetService/GetMdib</wsa:Action>'
            f'<wsa:MessageID>{mid}</wsa:MessageID><wsa:To s12:role="{attr}">urn:to</wsa:To></s12:Header>'
            f'<s12:Body><msg:GetMdib>{body}</msg:GetMdib></s12:Body></s12:Envelope>').encode()


def _tree_texts(node):
    for el in node.iter():
        if isinstance(el.tag, str):
            yield el.text or ''
            yield el.tail or ''
            yield from (str(v) for v in el.attrib.values())


def xml_entities(site: int, ekind: int, place: int) -> str:
    """
    A request / response / WSDL document with a DOCTYPE is handed to each parse site that takes bytes from the network (0, 1:
    MessageReader.read_received_message without / with schema validation, 2: read_xml_text, 3: read_wsdl). ekind: 0 internal
    entity, 1 nested internal entities (x64), 2 external SYSTEM entity (local file), 3 external parameter entity that declares
    the entity, 4 DOCTYPE without entity reference (control), 5 external DTD subset that declares the entity; place: reference
    in element text / attribute value / body. Either the document is refused, or nothing in the tree handed on contains
    the replacement text (no expansion) or the file content (no fetch).
    pre: 0 <= site < 4
    pre: 0 <= ekind < 6
    pre: 0 <= place < 3
    post: __return__ == 'ok'
    """
    site, ekind, place = pick(site, (0, 1, 2, 3)), pick(ekind, tuple(range(6))), pick(place, (0, 1, 2))
    with untraced():
        orc = Oracle()
        try:
            env = _entity_env()
            doc = _entity_doc(ekind, place, env)
            try:
                if site in (0, 1):
                    msg = (env['plain'], env['valid'])[site].read_received_message(doc, validate=bool(site))
                    root = msg.p_msg.doc_root if hasattr(msg.p_msg, 'doc_root') else msg.p_msg.msg_node.getroottree().getroot()
                    hib = msg.p_msg.header_info_block
                    extra = [str(hib.MessageID), str(hib.To)]
                elif site == 2:
                    root, extra = env['plain'].read_xml_text(doc), []
                else:
                    root, extra = env['plain'].read_wsdl(doc).getroot(), []
            except Exception:  # noqa: BLE001
                return orc.result()       # refused: answered with a fault by the middleware (C13.middleware.*)
            texts = list(_tree_texts(root)) + extra
            orc.check(not any('EXPANDEDTEXT' in t for t in texts), 'xml-entity-expanded')
            orc.check(not any('SECRETFILE' in t for t in texts), 'external-entity-fetched')
        except Exception as ex:  # noqa: BLE001
            return exc_result(orc, ex, 'harness')
        return orc.result()

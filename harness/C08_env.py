"""Environment stubs for the C08 harnesses (pure Python, CrossHair friendly). Every stub is listed in `Ob.stubs`.

* FakeClock      - replaces the module attribute `time` of sdc11073.provider.subscriptionmgr_base: monotonic()/time() return the
                   virtual `now` (time() with a constant epoch offset so that mixing the two clocks would show), sleep() does not
                   wait; inside `_do_housekeeping` it ends the loop after the current pass (one housekeeping pass per call).
* FakeThread     - replaces `Thread` in subscriptionmgr_base: the housekeeping thread is never started (a pass is a history step).
* FakeSoapClient / FakePool - record every message handed to a subscriber-facing client as (netloc, path, message); the delivery
                   outcome (ok / HTTPReturnCodeError / ConnectionRefusedError / TimeoutError) is set by the harness from a selector.
* FakeLoopThread + fake_gather - replace the asyncio event-loop thread and `asyncio.gather` of subscriptionmgr_async: coroutines
                   are driven to completion synchronously with send(None), one after the other (no real scheduling).
"""
from types import SimpleNamespace

from vf.hutil import pick

from sdc11073 import observableproperties as _op
from sdc11073.provider import subscriptionmgr_async as sma
from sdc11073.provider import subscriptionmgr_base as smb
from sdc11073.pysoap.soapclient import HTTPReturnCodeError

EPOCH = 1000000  # time.time() = monotonic() + EPOCH

OUTCOMES = ('ok', 'http_error', 'refused', 'timeout', 'unresolvable', 'tls_error', 'unreadable_reply')


class FakeClock:
    def __init__(self, now=0):
        self.now = now
        self.mgr = None      # set while one housekeeping pass runs

    def monotonic(self):
        return self.now

    def time(self):
        return self.now + EPOCH

    def sleep(self, _seconds):
        # only caller in the code under analysis: the housekeeping loop. End the loop after the pass that follows this sleep.
        if self.mgr is not None:
            self.mgr._run_housekeeping_thread = False


class FakeThread:
    def __init__(self, *_a, **_k):
        pass

    def start(self):
        pass

    def join(self, *_a):
        pass


def _raise_outcome(pool):
    # the outcome may be a (symbolic) selector into OUTCOMES: it is resolved only when a message is really handed over
    outcome = pool.outcome
    if not isinstance(outcome, str):
        outcome = pool.outcome = pick(outcome, OUTCOMES)
    if outcome == 'http_error':
        raise HTTPReturnCodeError(500, 'stub', None)
    if outcome == 'refused':
        raise ConnectionRefusedError('stub')
    if outcome == 'timeout':
        raise TimeoutError('stub')
    if outcome == 'unresolvable':
        import socket
        raise socket.gaierror(-3, 'Temporary failure in name resolution')
    if outcome == 'tls_error':
        import ssl
        raise ssl.SSLError(1, 'stub: handshake failure')
    if outcome == 'unreadable_reply':
        raise ValueError('stub: the answer of the subscriber cannot be read')


class FakeSoapClient:
    roundtrip_time = _op.ObservableProperty()

    def __init__(self, pool, netloc):
        self.pool, self.netloc = pool, netloc

    def post_message_to(self, path, message, msg=''):  # noqa: ARG002
        self.pool.log.append((self.netloc, path, message))
        _raise_outcome(self.pool)
        self.roundtrip_time = 0.001

    async def async_post_message_to(self, path, message, msg=''):  # noqa: ARG002
        self.pool.log.append((self.netloc, path, message))
        _raise_outcome(self.pool)
        self.roundtrip_time = 0.001

    def close(self):
        pass

    async def async_close(self):
        pass


class FakeLoopThread:
    running = True

    def run_coro(self, coro):
        return drive(coro)

    def stop(self):
        pass


class FakePool:
    """Stands for SoapClientPool: one client object per netloc, every post is logged."""

    def __init__(self, is_async=False):
        self.log = []
        self.outcome = 'ok'
        self.clients = {}
        self.async_loop_subscr_mgr = FakeLoopThread() if is_async else None

    def get_soap_client(self, netloc, accepted_encodings, usr_ident):  # noqa: ARG002
        cl = self.clients.get(netloc)
        if cl is None:
            cl = self.clients[netloc] = FakeSoapClient(self, netloc)
        return cl

    def forget_usr(self, netloc, usr_ident):
        pass


def drive(coro):
    """Run a coroutine that never really suspends to completion (what the event loop would do, minus scheduling)."""
    try:
        for _ in range(1000):
            coro.send(None)
    except StopIteration as stop:
        return stop.value
    raise RuntimeError('coroutine did not finish')


async def fake_gather(*tasks, return_exceptions=False):
    out = []
    for t in tasks:
        try:
            out.append(await t)
        except Exception as ex:  # noqa: BLE001
            if not return_exceptions:
                raise
            out.append(ex)
    return out


_real_asyncio = sma.asyncio
_fake_asyncio = SimpleNamespace(gather=fake_gather, exceptions=_real_asyncio.exceptions, TimeoutError=_real_asyncio.TimeoutError)


def install(clock):
    """Patch the environment of the subscription manager modules (idempotent; a fresh clock per harness call)."""
    smb.time = clock
    smb.Thread = FakeThread
    sma.asyncio = _fake_asyncio
    return clock


def housekeeping_pass(mgr, clock):
    """Exactly one pass of the real `_do_housekeeping` loop body at the current virtual time."""
    clock.mgr = mgr
    try:
        mgr._do_housekeeping()
    finally:
        clock.mgr = None

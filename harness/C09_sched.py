"""C09 / engine E3: the provider's transaction id counter under concurrent callers.

The event template of `SdcProvider.generate_transaction_id` is RECORDED from the real code (lock acquire / release through
vf.sched.RecLock, reads / writes of `_transaction_id` with their values through a recording subclass of the provider stub).
From two recordings with different start values the value relation is derived (value written = value last read by this caller
+ d; value returned = value last read + e). z3 (Int order variables, program order, lock mutual exclusion, every read observes
the latest preceding write, symbolic start value) searches an interleaving of N callers in which two calls return the same id,
a call that began after another one ended returns a smaller-or-equal id, or an id is not greater than the counter start.
unsat => none at this granularity; sat => the schedule is REPLAYED with gated real threads and judged on the real return values.
"""
from __future__ import annotations

import threading
import time

VAR = '_transaction_id'


def _build():
    from harness.C09 import ProviderStub
    from vf import sched
    rec = sched.Recorder()
    vals = {}

    class RecProvider(ProviderStub):
        def __getattribute__(self, name):
            if name == VAR:
                rec.event('read', VAR)        # gate FIRST (replay), then perform the read: the value must be the one at that point
                v = object.__getattribute__(self, name)
                if rec.mode == 'record':
                    vals[len(rec.events) - 1] = v
                return v
            return object.__getattribute__(self, name)

        def __setattr__(self, name, value):
            if name == VAR:
                rec.event('write', VAR)
                if rec.mode == 'record':
                    vals[len(rec.events) - 1] = value
            object.__setattr__(self, name, value)

    prov = RecProvider(None)
    object.__setattr__(prov, '_transaction_id_lock', sched.RecLock(rec, 'tid_lock', threading.Lock()))
    return rec, prov, vals


def _activity(rec, prov, out=None):
    def act():
        rec.event('call', 'start')
        r = prov.generate_transaction_id()
        rec.event('ret', 'end')
        if out is not None:
            out.append(r)
        return r
    return act


def _record(v0):
    rec, prov, vals = _build()
    object.__setattr__(prov, VAR, v0)
    out = []
    vals.clear()
    tpl = rec.record(_activity(rec, prov, out))
    return tpl, dict(vals), out[0]


def _template():
    """-> (events, relation) ; relation: {'writes': {idx: (read idx | None, delta or constant)}, 'ret': (read idx | None, offset)}"""
    rels = []
    tpls = []
    for v0 in (0, 41):
        tpl, vals, ret = _record(v0)
        writes, last_read = {}, None
        for i, (kind, what) in enumerate(tpl):
            if what != VAR:
                continue
            if kind == 'read':
                last_read = i
            elif kind == 'write':
                writes[i] = (last_read, vals[i] - (vals[last_read] if last_read is not None else 0))
        rels.append({'writes': writes, 'ret': (last_read, ret - (vals[last_read] if last_read is not None else 0))})
        tpls.append(tpl)
    if tpls[0] != tpls[1] or rels[0] != rels[1]:
        raise RuntimeError(f'template of generate_transaction_id is not affine in the counter start: {tpls} {rels}')
    return tpls[0], rels[0]


def _encode(tpl, rel, n):
    import z3
    from vf import sched
    labs = [f'T{i}' for i in range(n)]
    templates = {lab: tpl for lab in labs}
    s, order = sched.encode(templates, locks=('tid_lock',))
    v0 = z3.Int('v0')
    s.add(v0 >= 0)
    val = {}
    reads = [(lab, i) for lab in labs for i, ev in enumerate(tpl) if ev == ('read', VAR)]
    writes = [(lab, i) for lab in labs for i, ev in enumerate(tpl) if ev == ('write', VAR)]
    for key in reads + writes:
        val[key] = z3.Int(f'val_{key[0]}_{key[1]}')
    for lab, i in writes:
        src, d = rel['writes'][i]
        s.add(val[(lab, i)] == (val[(lab, src)] + d if src is not None else d))
    for r in reads:
        none_before = z3.And([order[w] > order[r] for w in writes]) if writes else z3.BoolVal(True)
        s.add(z3.Implies(none_before, val[r] == v0))
        for w in writes:
            latest = z3.And(order[w] < order[r],
                            *[z3.Or(order[w2] < order[w], order[w2] > order[r]) for w2 in writes if w2 != w])
            s.add(z3.Implies(latest, val[r] == val[w]))
    ret = {}
    for lab in labs:
        src, e = rel['ret']
        ret[lab] = val[(lab, src)] + e if src is not None else z3.IntVal(e)
    start = tpl.index(('call', 'start'))
    end = tpl.index(('ret', 'end'))
    bad = []
    for a in labs:
        bad.append(ret[a] <= v0)
        for b in labs:
            if a < b:
                bad.append(ret[a] == ret[b])
            if a != b:
                bad.append(z3.And(order[(a, end)] < order[(b, start)], ret[a] >= ret[b]))
    return s, order, v0, z3.Or(bad), labs, (start, end)


def _judge(results, log, v0, se):
    """The property on the REAL return values and the real order of call start / end events."""
    start, end = se
    pos = {(lab, idx): p for p, (lab, idx, _k, _w) in enumerate(log)}
    labs = sorted(results)
    for a in labs:
        if results[a] <= v0:
            return 'transaction_id_not_increasing'
    for a in labs:
        for b in labs:
            if a < b and results[a] == results[b]:
                return 'transaction_id_not_unique'
            if a != b and (a, end) in pos and (b, start) in pos and pos[(a, end)] < pos[(b, start)] and results[a] >= results[b]:
                return 'transaction_id_not_increasing'
    return 'ok'


def _replay(n, v0, schedule):
    rec, prov, _vals = _build()
    object.__setattr__(prov, VAR, v0)
    tpl, _rel = _template()
    se = (tpl.index(('call', 'start')), tpl.index(('ret', 'end')))
    acts = {f'T{i}': _activity(rec, prov) for i in range(n)}
    rec.start_replay(schedule)
    results, errors = rec.run_threads(acts)
    if rec.failed or errors or len(results) != n:
        return 'ok', f'replay could not follow the schedule ({rec.failed or errors})'
    label = _judge(results, rec.replay_log, v0, se)
    return label, f'returned ids {results} from counter start {v0}; order {[(a, b) for a, b, _c, _d in rec.replay_log]}'


def ob_transaction_ids(ctx):
    import z3
    from vf import sched
    n = ctx.params['threads']
    t0 = time.time()
    tpl, rel = _template()
    s, order, v0, bad, labs, se = _encode(tpl, rel, n)
    queries = 1
    if str(s.check()) != 'sat':
        return {'verdict': 'error', 'reason': 'base constraints unsatisfiable', 'engine': 'sched(z3 Int)'}
    sample = {'template': [f'{a}:{b}' for a, b in tpl], 'value_relation': {'writes': {str(k): list(v) for k, v in rel['writes'].items()},
                                                                           'ret': list(rel['ret'])}}
    s.add(bad)
    spurious = 0
    while True:
        r = str(s.check())
        queries += 1
        if r == 'unsat':
            return {'verdict': 'confirmed', 'reach': True, 'queries': queries, 'solver_s': round(time.time() - t0, 2),
                    'engine': 'sched(z3 Int order + value variables)', 'sample': sample,
                    'detail': f'{n} callers x template of {len(tpl)} events; {spurious} spurious models refuted by replay'}
        if r != 'sat':
            return {'verdict': 'inconclusive', 'reason': 'solver returned ' + r, 'queries': queries}
        model = s.model()
        schedule = sched.schedule_from_model(model, order)
        v0c = model.eval(v0, model_completion=True).as_long()
        label, detail = _replay(n, v0c, schedule)
        if label != 'ok' and label not in ctx.exclude:
            return {'verdict': 'counterexample', 'label': label, 'replayed': True, 'queries': queries,
                    'witness': {'threads': n, 'v0': v0c, 'schedule': [list(x) for x in schedule]}, 'detail': detail,
                    'engine': 'sched(z3 Int order + value variables)', 'sample': sample}
        spurious += 1
        if spurious >= 12 or time.time() - t0 > ctx.timeout * 0.8:
            return {'verdict': 'inconclusive', 'queries': queries,
                    'reason': f'{spurious} models of the event-granularity abstraction did not reproduce on the real code ({detail})'}
        s.add(z3.Or([order[key] != model[order[key]] for key in order]))


def replay(ctx):
    w = ctx.params['witness']
    label, detail = _replay(w['threads'], w['v0'], [tuple(x) for x in w['schedule']])
    return {'verdict': 'counterexample' if label != 'ok' else 'confirmed', 'label': label, 'detail': detail}

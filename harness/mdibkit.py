"""Shared kit for MDIB harnesses (C01, C02, C03, C04, C06, C10, C20): a small REAL ProviderMdib / ConsumerMdib pair built
programmatically, a capture subscription manager that receives the report OBJECTS the real port-type implementations build
(XML (de)serialisation of reports is stubbed as identity — stated in Ob.stubs), and canonical snapshots.
"""
from __future__ import annotations

import enum
import types
from decimal import Decimal

from vf.hutil import quiet, untraced

quiet()

from lxml import etree  # noqa: E402
from sdc11073 import loghelper, observableproperties as properties  # noqa: E402
from sdc11073.definitions_sdc import SdcV1Definitions  # noqa: E402
from sdc11073.mdib import ProviderMdib  # noqa: E402
from sdc11073.mdib import consumermdib as consumermdib_mod  # noqa: E402
from sdc11073.mdib import descriptorcontainers as dc  # noqa: E402
from sdc11073.mdib.consumermdib import ConsumerMdib, ConsumerMdibState  # noqa: E402
from sdc11073.mdib.mdibbase import MdibVersionGroup  # noqa: E402
from sdc11073.provider.periodicreports import PeriodicReportsNullHandler  # noqa: E402
from sdc11073.provider.porttypes.contextserviceimpl import ContextService  # noqa: E402
from sdc11073.provider.porttypes.descriptioneventserviceimpl import DescriptionEventService  # noqa: E402
from sdc11073.provider.porttypes.stateeventserviceimpl import StateEventService  # noqa: E402
from sdc11073.provider.porttypes.waveformserviceimpl import WaveformService  # noqa: E402
from sdc11073.provider.providerimpl import SdcProvider  # noqa: E402
from sdc11073.xml_types import msg_types, pm_types  # noqa: E402

STUBS = [
    'XML wire is an identity stub: the capture subscription manager hands the report OBJECTS built by the real port-type '
    'implementations to the real ConsumerMdib.process_incoming_* (as_etree_node of context/description reports returns the object)',
    'SdcProvider._send_episodic_reports is called as a plain function on a stub self holding the MDIB, a PeriodicReportsNullHandler '
    'and port-type implementations created with __new__ (no HTTP server, no sockets)',
    'ConsumerMdib gets a stub client (sdc_definitions, log_prefix); the thread that fires sequence_or_instance_id_changed_event is '
    'replaced by a direct call',
    'logging disabled',
    'the `time` module inside the mdib modules is a concrete increasing clock (wall-clock stamps are not the subject)',
]

SEQ = 'urn:uuid:11111111-1111-1111-1111-111111111111'


class StubClient:
    sdc_definitions = SdcV1Definitions
    log_prefix = ''
    msg_reader = None


class Capture:
    """Stands in for the subscriptions manager: receives what the port types would send."""

    def __init__(self):
        self.sent = []

    def send_to_subscribers(self, payload, action, mdib_version_group):
        self.sent.append((payload, action, mdib_version_group))


class _SyncThread:
    def __init__(self, target=None, **_):
        self._t = target

    def start(self):
        self._t()


# identity stubs for the two report kinds that are serialised before they reach the subscriptions manager
def _identity_node(self, *_a, **_k):
    return self


class _FrozenTime:
    """Stands in for the `time` module inside the MDIB modules: a concrete, strictly increasing clock.

    Under CrossHair the real time.time() returns a SYMBOLIC float (two extra branches per call: isfinite / isnan) which only
    multiplies paths here - wall-clock values (DeterminationTime, BindingStartTime ...) are not the subject of these harnesses."""

    def __init__(self):
        self._now = 1700000000.0

    def time(self):
        self._now += 0.125
        return self._now

    def monotonic(self):
        return self.time()

    def perf_counter(self):
        return self.time()

    def sleep(self, _s):
        return None


FROZEN_TIME = _FrozenTime()


def _freeze_time():
    import importlib
    for name in ('sdc11073.mdib.consumermdib', 'sdc11073.mdib.consumermdibxtra', 'sdc11073.mdib.providermdibxtra',
                 'sdc11073.mdib.statecontainers', 'sdc11073.mdib.transactions', 'sdc11073.provider.periodicreports'):
        importlib.import_module(name).time = FROZEN_TIME


_freeze_time()
_REAL_AS_NODE = {cls: cls.as_etree_node for cls in (msg_types.EpisodicContextReport, msg_types.DescriptionModificationReport)}
msg_types.EpisodicContextReport.as_etree_node = _identity_node
msg_types.DescriptionModificationReport.as_etree_node = _identity_node


class real_xml:     # noqa: N801
    """Context manager: the real as_etree_node of the report classes (for harnesses whose reports really travel as XML)."""

    def __enter__(self):
        for cls, fn in _REAL_AS_NODE.items():
            cls.as_etree_node = fn

    def __exit__(self, *_a):
        for cls in _REAL_AS_NODE:
            cls.as_etree_node = _identity_node


consumermdib_mod.threading = types.SimpleNamespace(Thread=_SyncThread)


# ------------------------------------------------------------------------------------------------ containers

def mk_containers(two_mds=False, alerts=True, contexts=True, operations=False, rt=False):
    """Small containment tree. Handles are fixed; versions can be overwritten by the harness afterwards."""
    ds = [dc.MdsDescriptorContainer('mds0', None),
          dc.VmdDescriptorContainer('vmd0', 'mds0'),
          dc.ChannelDescriptorContainer('ch0', 'vmd0'),
          dc.StringMetricDescriptorContainer('m0', 'ch0'),
          dc.StringMetricDescriptorContainer('m1', 'ch0')]
    if alerts:
        asys = dc.AlertSystemDescriptorContainer('as0', 'mds0')
        ac = dc.AlertConditionDescriptorContainer('ac0', 'as0')
        ac.Source = ['m0']
        asig = dc.AlertSignalDescriptorContainer('asig0', 'as0')
        asig.ConditionSignaled = 'ac0'
        ds += [asys, ac, asig]
    if contexts:
        ds += [dc.SystemContextDescriptorContainer('sc0', 'mds0'),
               dc.PatientContextDescriptorContainer('pc0', 'sc0'),
               dc.LocationContextDescriptorContainer('lc0', 'sc0')]
    if operations:
        op = dc.SetStringOperationDescriptorContainer('op0', 'sco0')
        op.OperationTarget = 'm0'
        ds += [dc.ScoDescriptorContainer('sco0', 'mds0'), op]
    if rt:
        rtd = dc.RealTimeSampleArrayMetricDescriptorContainer('rt0', 'ch0')
        rtd.Resolution = Decimal('0.1')
        rtd.SamplePeriod = 0.01
        ds.append(rtd)
    if two_mds:
        ds += [dc.MdsDescriptorContainer('mds1', None),
               dc.VmdDescriptorContainer('vmd1', 'mds1'),
               dc.ChannelDescriptorContainer('ch1', 'vmd1'),
               dc.StringMetricDescriptorContainer('m2', 'ch1')]
    for d in ds:
        if d.is_metric_descriptor:
            d.Unit = pm_types.CodedValue('u')
            d.MetricCategory = pm_types.MetricCategory.MEASUREMENT
            d.MetricAvailability = pm_types.MetricAvailability.CONTINUOUS
        if d.is_alert_condition_descriptor if hasattr(d, 'is_alert_condition_descriptor') else False:
            pass
    return ds


def mk_states(mdib, ds):
    sts = []
    for d in ds:
        cls = mdib.data_model.get_state_class_for_descriptor(d)
        if cls.is_multi_state:
            continue
        sts.append(cls(d))
    return sts


def mk_context_state(mdib, descr, handle, assoc=None, binding=None, unbinding=None, sv=0):
    cls = mdib.data_model.get_state_class_for_descriptor(descr)
    st = cls(descr)
    st.Handle = handle
    st.StateVersion = sv
    if assoc is not None:
        st.ContextAssociation = assoc
    st.BindingMdibVersion = binding
    st.UnbindingMdibVersion = unbinding
    return st


def set_source_mds(ds):
    by = {d.Handle: d for d in ds}
    for d in ds:
        p = d
        while p.parent_handle is not None:
            p = by[p.parent_handle]
        d.set_source_mds(p.Handle)


# ------------------------------------------------------------------------------------------------ provider / consumer

def _port_type(cls, cap):
    inst = cls.__new__(cls)
    inst._sdc_definitions = SdcV1Definitions
    inst._logger = loghelper.get_logger_adapter('verif', '')
    inst.hosting_service = types.SimpleNamespace(subscriptions_manager=cap)
    return inst


def mk_provider(mv=0, containers=None, **kw):
    """-> (mdib, capture). The transaction observable is bound to the real SdcProvider._send_episodic_reports.

    Construction touches only concrete data and runs without CrossHair's tracer; the (possibly symbolic) MdibVersion is planted
    afterwards."""
    with untraced():
        mdib, cap = _mk_provider(containers, kw)
    mdib.mdib_version = mv
    return mdib, cap


def _mk_provider(containers, kw):
    mdib = ProviderMdib()
    ds = containers if containers is not None else mk_containers(**kw)
    set_source_mds(ds)
    mdib.add_description_containers(ds)
    mdib.add_state_containers(mk_states(mdib, ds))
    mdib.sequence_id = SEQ
    mdib.instance_id = 1
    cap = Capture()
    prov = types.SimpleNamespace(
        _mdib=mdib, _periodic_reports_handler=PeriodicReportsNullHandler(),
        hosted_services=types.SimpleNamespace(state_event_service=_port_type(StateEventService, cap),
                                              context_service=_port_type(ContextService, cap),
                                              description_event_service=_port_type(DescriptionEventService, cap),
                                              waveform_service=_port_type(WaveformService, cap)))

    def _on_transaction(tr):
        SdcProvider._send_episodic_reports(prov, tr)

    cap.keep = (_on_transaction, prov)   # observables keep weak references only
    properties.bind(mdib, transaction=_on_transaction)
    return mdib, cap


def mk_consumer(mv=0, containers=None, **kw):
    with untraced():
        mdib = ConsumerMdib(StubClient())
        ds = containers if containers is not None else mk_containers(**kw)
        set_source_mds(ds)
        mdib.add_description_containers(ds)
        mdib.add_state_containers(mk_states(mdib, ds))
        mdib.sequence_id = SEQ
        mdib.instance_id = 1
        mdib._state = ConsumerMdibState.initialized
    mdib.mdib_version = mv
    return mdib


def deliver(cm, payload, action, vg=None):
    """Hand one captured report object to the consumer MDIB handler its action selects (what consumermdibxtra does after parsing)."""
    a = SdcV1Definitions.Actions
    if vg is None:
        vg = MdibVersionGroup(payload.MdibVersion, payload.SequenceId, payload.InstanceId)
    if action == a.EpisodicMetricReport.value:
        cm.process_incoming_metric_states_report(vg, payload)
    elif action == a.EpisodicAlertReport.value:
        cm.process_incoming_alert_states_report(vg, payload)
    elif action == a.EpisodicComponentReport.value:
        cm.process_incoming_component_states_report(vg, payload)
    elif action == a.EpisodicOperationalStateReport.value:
        cm.process_incoming_operational_states_report(vg, payload)
    elif action == a.EpisodicContextReport.value:
        cm.process_incoming_context_states_report(vg, payload)
    elif action == a.DescriptionModificationReport.value:
        cm.process_incoming_description_modifications(vg, payload)
    elif action == a.Waveform.value:
        cm.process_incoming_waveform_states(vg, payload.State)
    else:
        raise ValueError('unexpected action ' + str(action))


# ------------------------------------------------------------------------------------------------ canonical snapshots

def descrs(mdib):
    """Descriptors in a deterministic order (the tables are sets of objects hashed by id: their iteration order differs from
    run to run, which makes CrossHair see 'different execution paths after the same decisions')."""
    with untraced():
        return sorted((o for o in mdib.descriptions.objects if o is not None), key=lambda o: o.Handle)


def single_states(mdib):
    with untraced():
        return sorted((o for o in mdib.states.objects if o is not None), key=lambda o: o.DescriptorHandle)


def ctx_states(mdib):
    with untraced():
        return sorted((o for o in mdib.context_states.objects if o is not None), key=lambda o: str(o.Handle))


def canon(v, depth=0):
    """Canonical, comparable form of a property value (member-wise; never uses the library's __eq__)."""
    if v is None or isinstance(v, (str, int, float, Decimal)):
        return v
    if isinstance(v, enum.Enum):
        return ('enum', v.value)
    if isinstance(v, etree.QName):
        return ('qname', v.text)
    if isinstance(v, (list, tuple)):
        return tuple(canon(x, depth + 1) for x in v)
    if isinstance(v, dict):
        return tuple(sorted((str(k), canon(x, depth + 1)) for k, x in v.items()))
    if hasattr(v, 'sorted_container_properties') and depth < 6:
        return (type(v).__name__,) + tuple((name, canon(getattr(v, name), depth + 1))
                                           for name, _ in v.sorted_container_properties())
    if hasattr(v, '_props') and depth < 6:
        names = []
        for cls in reversed(type(v).__mro__):
            names.extend(cls.__dict__.get('_props', ()))
        return (type(v).__name__,) + tuple((name, canon(getattr(v, name), depth + 1)) for name in names)
    return ('repr', repr(v))


def canon_container(c):
    base = (type(c).__name__,)
    if c.is_descriptor_container:
        base += (('parent', c.parent_handle),)
    return base + tuple((name, canon(getattr(c, name))) for name, _ in c.sorted_container_properties())


def snapshot(mdib, with_indices=True):
    """Full canonical content: version group, every descriptor / state / context state by handle, and index contents."""
    descr = {d.Handle: canon_container(d) for d in descrs(mdib)}
    states = {s.DescriptorHandle: canon_container(s) for s in single_states(mdib)}
    ctx = {s.Handle: canon_container(s) for s in ctx_states(mdib)}
    snap = {'version': (mdib.mdib_version, mdib.sequence_id, mdib.instance_id),
            'descriptors': descr, 'states': states, 'context_states': ctx,
            'sizes': (len(mdib.descriptions.objects), len(mdib.states.objects), len(mdib.context_states.objects)),
            'none_in_tables': (None in mdib.descriptions.objects, None in mdib.states.objects,
                               None in mdib.context_states.objects)}
    if with_indices:
        snap['indices'] = index_snapshot(mdib)
    return snap


def _norm_index(idx, keyf):
    out = {}
    for k, objs in idx.items():
        out[str(k)] = sorted(keyf(o) for o in objs)
    return out


def index_snapshot(mdib):
    hd = lambda o: o.Handle  # noqa: E731
    dh = lambda o: o.DescriptorHandle  # noqa: E731
    d, s, c = mdib.descriptions, mdib.states, mdib.context_states
    return {'d.handle': _norm_index(d.handle, hd), 'd.parent': _norm_index(d.parent_handle, hd),
            'd.type': _norm_index(d.NODETYPE, hd), 'd.cond_sig': _norm_index(d.condition_signaled, hd),
            'd.source': _norm_index(d.source, hd),
            's.dh': _norm_index(s.descriptor_handle, dh), 's.type': _norm_index(s.NODETYPE, dh),
            'c.dh': _norm_index(c.descriptor_handle, hd), 'c.handle': _norm_index(c.handle, hd),
            'c.type': _norm_index(c.NODETYPE, hd)}


def index_scan(mdib):
    """The same index contents recomputed by a linear scan over the stored objects with their CURRENT attribute values."""
    def grp(objs, keyf, namef, none_ok=True, multi=False):
        out = {}
        for o in objs:
            k = keyf(o)
            if k is None and not none_ok:
                continue
            for kk in (k if multi else [k]):
                out.setdefault(str(kk), []).append(namef(o))
        return {k: sorted(v) for k, v in out.items()}
    hd = lambda o: o.Handle  # noqa: E731
    dh = lambda o: o.DescriptorHandle  # noqa: E731
    d, s, c = mdib.descriptions.objects, mdib.states.objects, mdib.context_states.objects
    return {'d.handle': grp(d, hd, hd), 'd.parent': grp(d, lambda o: o.parent_handle, hd),
            'd.type': grp(d, lambda o: o.NODETYPE, hd),
            'd.cond_sig': grp([o for o in d if hasattr(type(o), 'ConditionSignaled')], lambda o: o.ConditionSignaled, hd, none_ok=False),
            'd.source': grp([o for o in d if hasattr(type(o), 'Source')], lambda o: o.Source, hd, none_ok=False, multi=True),
            's.dh': grp(s, dh, dh), 's.type': grp(s, lambda o: o.NODETYPE, dh, none_ok=False),
            'c.dh': grp(c, dh, hd), 'c.handle': grp(c, hd, hd, none_ok=False), 'c.type': grp(c, lambda o: o.NODETYPE, hd, none_ok=False)}


def referential_integrity(mdib):
    """Labels of violated structural invariants (C02 third sentence); empty list = fine."""
    bad = []
    dmap = {d.Handle: d for d in descrs(mdib)}
    seen = {}
    for s in single_states(mdib):
        d = dmap.get(s.DescriptorHandle)
        if d is None:
            bad.append('state-without-descriptor')
        elif s.DescriptorVersion != d.DescriptorVersion:
            bad.append('state-descriptor-version-mismatch')
        seen[s.DescriptorHandle] = seen.get(s.DescriptorHandle, 0) + 1
    if any(n > 1 for n in seen.values()):
        bad.append('two-single-states-for-one-descriptor')
    for s in ctx_states(mdib):
        d = dmap.get(s.DescriptorHandle)
        if d is None:
            bad.append('context-state-without-descriptor')
        elif s.DescriptorVersion != d.DescriptorVersion:
            bad.append('context-state-descriptor-version-mismatch')
    for d in descrs(mdib):
        if d.parent_handle is not None and d.parent_handle not in dmap:
            bad.append('descriptor-without-parent')
    return bad

"""C20 harnesses: query services return exactly the selected states and texts (CrossHair, E1).

Part 1 (GetMdState / GetContextStates): a REAL provider (tests.mockstuff.SomeDevice on tests/mdib_two_mds.xml, extended through the
public transaction API by a patient context in the second MDS) is queried by the REAL consumer service clients over the loop-back
transport of harness/loopkit.py (real MessageFactory/MessageReader with schema validation on both sides, real dispatchers, real
port-type handlers). Handle lists travel through lxml, so handles are concrete: every entry of the requested list is picked by a
symbolic selector from a pool of handle KINDS; the MDIB shape and `contextstates_in_getmdib` are symbolic too. The reference
selection is recomputed from the provider tables by the BICEPS rules quoted in the property.

Part 2 (GetLocalizedText / GetSupportedLanguages): the real LocalizationStorage with <= 4 stored LocalizedText whose (Ref, Lang) group
and TextWidth are selectors and whose Version / number of lines are symbolic ints.
"""
from vf.hutil import Oracle, exc_result, pick, quiet, untraced

quiet()

from sdc11073.provider.porttypes import localizationservice as ls  # noqa: E402
from sdc11073.xml_types.pm_types import LocalizedText  # noqa: E402
from sdc11073.xml_types.pm_types import LocalizedTextWidth as TW  # noqa: E402

# ------------------------------------------------------------------------------------------------ part 1: states

PAT0 = 'd78ef3460038401ab90957ec204dba0c'      # PatientContextState of PC.mds0 in mdib_two_mds.xml
POOL = ('numeric.ch0.vmd0',        # 0 metric descriptor (mds0): one single state
        'PC.mds0',                 # 1 context descriptor (mds0): 1..2 context states
        PAT0,                      # 2 context-state handle (mds0)
        'mds0',                    # 3 MDS handle
        'mds_1',                   # 4 the other MDS
        'no.such.handle',          # 5 unknown
        'PC.mds1',                 # 6 context descriptor of the other MDS: 0..1 context states
        'pcs.mds1',                # 7 context-state handle in the other MDS (unknown handle if that state does not exist)
        'pcs0b',                   # 8 second patient state of PC.mds0 (unknown handle if it does not exist)
        'numeric_metric_0.channel_0.vmd_0.mds_1')   # 9 metric descriptor of the other MDS
R2, R3, R4, R8, R10 = (0, 1), (0, 1, 2), (0, 1, 2, 3), tuple(range(8)), tuple(range(10))


def bpick(sel, pool):
    """pick() by bisection: the solver forks ~log2(len(pool)) times instead of len(pool)/2 times; pool = consecutive ints."""
    lo, hi = 0, len(pool) - 1
    while lo < hi:
        mid = (lo + hi) // 2
        if sel <= pool[mid]:
            hi = mid
        else:
            lo = mid + 1
    return pool[lo]


_FIX = {}


def _fixture(two_pat, other_ctx):
    """(provider, consumer) for one MDIB shape, built once per process (the handlers only read)."""
    key = (two_pat, other_ctx)
    if key not in _FIX:
        from harness import loopkit as lk
        from sdc11073.mdib import descriptorcontainers as dc
        if not _FIX:
            lk.Net.reset()
        dev = lk.mk_provider()
        mdib = dev.mdib
        with mdib.descriptor_transaction() as tr:
            tr.add_descriptor(dc.PatientContextDescriptorContainer('PC.mds1', 'SC.mds1'))
        if two_pat:
            with mdib.context_state_transaction() as tr:
                tr.mk_context_state('PC.mds0', set_associated=False).Handle = 'pcs0b'
        if other_ctx:
            with mdib.context_state_transaction() as tr:
                tr.mk_context_state('PC.mds1', set_associated=True).Handle = 'pcs.mds1'
            # the location context of the second MDS is created by the library's own helper (random handle), after the provider
            # object exists - the way tests/test_device.py::TestDevice2Mds does it
            mdib.xtra.ensure_location_context_descriptor()
            created = [d.Handle for d in mdib.descriptions.objects
                       if d.parent_handle == 'SC.mds1' and isinstance(d, dc.LocationContextDescriptorContainer)]
            with mdib.context_state_transaction() as tr:
                tr.mk_context_state(created[0], set_associated=True).Handle = 'lcs.mds1'
        lk.Net.record = True
        lk.start_provider(dev)
        cons = lk.mk_consumer(dev.get_xaddrs()[0])
        lk.start_consumer(cons)
        lk.Net.record = False          # thousands of queries follow: do not keep their XML
        _FIX[key] = (dev, cons)
    return _FIX[key]


def _key(st):
    return (st.DescriptorHandle, st.Handle if st.is_context_state else None)


def _mds_of(mdib, descriptor_handle):
    d = mdib.descriptions.handle.get_one(descriptor_handle)
    while d.parent_handle is not None:
        d = mdib.descriptions.handle.get_one(d.parent_handle)
    return d.Handle


def _reference(mdib, svc, handles, ctx_on):
    """The selection the property demands, computed by linear scans over the provider tables."""
    singles = list(mdib.states.objects)
    ctx = list(mdib.context_states.objects)
    universe = ctx if svc == 1 else singles + (ctx if ctx_on else [])
    if not handles:
        return {_key(s) for s in universe}
    mds_handles = {d.Handle for d in mdib.descriptions.objects if d.parent_handle is None}
    sel = set()
    for h in handles:
        for s in universe:
            if s.is_context_state and s.Handle == h:          # a context-state handle: that state
                sel.add(_key(s))
            if s.DescriptorHandle == h:                        # a descriptor handle: all its states
                sel.add(_key(s))
            if svc == 1 and h in mds_handles and _mds_of(mdib, s.DescriptorHandle) == h:   # R5042
                sel.add(_key(s))
    return sel


def _known_handles(mdib):
    return {d.Handle for d in mdib.descriptions.objects} | {s.Handle for s in mdib.context_states.objects}


def _select_states(svc, ctx_on, aspect, two_pat, other_ctx, idx):
    orc = Oracle()
    try:
        dev, cons = _fixture(two_pat, other_ctx)
        mdib = dev.mdib
        handles = [POOL[i] for i in idx]
        dev.contextstates_in_getmdib = ctx_on
        if svc == 0:
            res = cons.client('Get').get_md_state(handles)
            got = [_key(s) for s in res.result.MdState.State]
        else:
            res = cons.client('Context').get_context_states(handles)
            got = [_key(s) for s in res.result.ContextState]
        ref = _reference(mdib, svc, handles, ctx_on)
        if aspect == 1:
            orc.check(len(got) == len(set(got)), 'state_returned_twice')
            return orc.result()
        missing = ref - set(got)
        extra = set(got) - ref
        if not handles:
            orc.check(not missing, 'empty_list_not_all_states')
        orc.check(not missing, 'requested_state_missing')
        if extra:
            known = _known_handles(mdib)
            mds_handles = {d.Handle for d in mdib.descriptions.objects if d.parent_handle is None}
            req_mds = [h for h in handles if h in mds_handles]
            if all(h not in known for h in handles):
                orc.fail('unknown_handle_contributed')
            elif svc == 1 and req_mds and all(_mds_of(mdib, dh) not in handles for dh, _h in extra):
                orc.fail('state_of_other_mds_returned')
            elif svc == 0 and not ctx_on and all(h is not None for _dh, h in extra):
                orc.fail('context_state_returned_although_excluded_from_get_service')
            else:
                orc.fail('unselected_state_returned')
    except Exception as ex:  # noqa: BLE001
        return exc_result(orc, ex, 'query')
    return orc.result()


def select_states(svc: int, ctx_on: bool, aspect: int, two_pat: bool, other_ctx: bool, long_list: bool, pool8: bool,
                  n: int, h0: int, h1: int, h2: int) -> str:
    """
    One GetMdState (svc 0) / GetContextStates (svc 1) request with a handle list built from POOL by selectors: length n (0..2),
    or 3 if long_list; pool8: only the first 8 pool entries are used. aspect 0: the set of returned states equals the reference selection; aspect 1: no state is returned twice.
    pre: 0 <= svc <= 1
    pre: 0 <= aspect <= 1
    pre: 0 <= n <= 2
    pre: 0 <= h0 < 10
    pre: 0 <= h1 < 10
    pre: 0 <= h2 < 10
    post: __return__ == 'ok'
    """
    svc, aspect = pick(svc, R2), pick(aspect, R2)
    n = 3 if long_list else pick(n, R3)
    ctx_on = bool(ctx_on) if svc == 0 else True        # the flag only exists for the Get service
    two_pat, other_ctx = bool(two_pat), bool(other_ctx)
    pool = R8 if pool8 else R10
    idx = []
    if n >= 1:
        idx.append(bpick(h0, pool))
    if n >= 2:
        idx.append(bpick(h1, pool))
    if n >= 3:
        idx.append(bpick(h2, pool))
    with untraced():
        return _select_states(svc, ctx_on, aspect, two_pat, other_ctx, tuple(idx))


# ------------------------------------------------------------------------------------------------ part 2: localized texts

GROUPS = (('a', 'en'), ('a', 'de'), ('b', 'en'), ('b', 'de'))
WIDTHS = (None, TW.XS, TW.S, TW.L)
RANK = {None: None, TW.XS: 0, TW.S: 1, TW.M: 2, TW.L: 3, TW.XL: 4, TW.XXL: 5, 'xs': 0, 's': 1, 'm': 2, 'l': 3, 'xl': 4, 'xxl': 5}
REQ_REFS = (None, ['a'], ['b'], ['a', 'b'], ['zz'])
REQ_LANGS = (None, ['en'], ['de'], ['en', 'de'], ['fr'])
REQ_WIDTHS = (None, ['xs'], ['s'], ['l'], ['xs', 'l'])
R5 = (0, 1, 2, 3, 4)
MAX_LINES_FOR_AREA_SORT = 3

_LINES = {}
_REAL_CALC = ls._calc_number_of_lines


def _lines_stub(text):
    """Stands in for len(text.split(chr(10))): the line count of stored text i is the planted (symbolic) int."""
    return _LINES[text]


def _mk_text(i, group, width):
    return LocalizedText('t%d' % i, lang=group[1], ref=group[0], version=None, text_width=width)


def _loc_core(k, gs, ws, vnone, vs, lines, refs, langs, widths, has_ver, rv, nl, q0, q1):
    """Build the storage, call the real filter, check every returned text. Runs traced when Version / line counts are symbolic."""
    orc = Oracle()
    try:
        req_lines = [q0, q1][:nl]
        with untraced():
            texts = [_mk_text(i, GROUPS[gs[i]], WIDTHS[ws[i]]) for i in range(k)]
            storage = ls.LocalizationStorage()
            _LINES.clear()
        for i in range(k):
            if vnone != i + 1:
                texts[i].Version = vs[i]
            _LINES[texts[i].text] = lines[i]
        storage.add(*texts)
        ls._calc_number_of_lines = _lines_stub
        try:
            res = storage.filter_localized_texts(refs, rv if has_ver else None, langs, widths, req_lines if nl else None)
        finally:
            ls._calc_number_of_lines = _REAL_CALC
        max_w = None if widths is None else max(RANK[w] for w in widths)
        counts = [0] * k
        for r in res:
            i = -1
            for j in range(k):
                if r is texts[j]:
                    i = j
            if not orc.check(i >= 0, 'returned_text_not_in_storage'):
                continue
            counts[i] += 1
            if refs is not None:
                orc.check(r.Ref in refs, 'text_violates_ref_filter')
            if has_ver:
                orc.check(vnone != i + 1 and vs[i] == rv, 'text_violates_version_filter')
            if langs is not None:
                orc.check(r.Lang in langs, 'text_violates_lang_filter')
            if widths is not None:
                orc.check(RANK[r.TextWidth] is not None and RANK[r.TextWidth] <= max_w, 'text_violates_width_filter')
            if nl == 1:
                orc.check(lines[i] <= q0, 'text_violates_lines_filter')
            elif nl == 2:
                orc.check(lines[i] <= q0 or lines[i] <= q1, 'text_violates_lines_filter')
        if refs is None and not has_ver and langs is None and widths is None and nl == 0:
            latest = None
            for i in range(k):
                if vnone != i + 1 and (latest is None or vs[i] > latest):
                    latest = vs[i]
            if latest is not None:
                for i in range(k):
                    want = 1 if (vnone != i + 1 and vs[i] == latest) else 0
                    orc.check(counts[i] == want, 'unfiltered_result_not_latest_version')
    except Exception as ex:  # noqa: BLE001
        return exc_result(orc, ex, 'filter')
    return orc.result()


def loc_filter(concrete: bool, k: int, g1: int, g2: int, g3: int, w0: int, w1: int, w2: int, w3: int, vnone: int,
               v0: int, v1: int, v2: int, v3: int, l0: int, l1: int, l2: int, l3: int,
               rq: int, lq: int, wq: int, has_ver: bool, rv: int, nl: int, q0: int, q1: int) -> str:
    """
    filter_localized_texts on k stored texts. Text i: (Ref, Lang) = GROUPS[g_i] (text 0: ('a','en')), TextWidth = WIDTHS[w_i],
    Version = v_i (text vnone-1 has no Version), line count = l_i. Request: Ref list REQ_REFS[rq], Lang list REQ_LANGS[lq],
    TextWidth list REQ_WIDTHS[wq], Version rv if has_ver, NumberOfLines = first nl of (q0, q1).
    concrete=True: the caller fixed every int to a constant (only selectors vary) - the body then runs without the tracer.
    pre: 1 <= k <= 4
    pre: 0 <= g1 <= 3
    pre: 0 <= g2 <= 3
    pre: 0 <= g3 <= 3
    pre: 0 <= w0 <= 3
    pre: 0 <= w1 <= 3
    pre: 0 <= w2 <= 3
    pre: 0 <= w3 <= 3
    pre: 0 <= vnone <= 4
    pre: l0 >= 1
    pre: l1 >= 1
    pre: l2 >= 1
    pre: l3 >= 1
    pre: 0 <= rq <= 4
    pre: 0 <= lq <= 4
    pre: 0 <= wq <= 4
    pre: 0 <= nl <= 2
    post: __return__ == 'ok'
    """
    k = pick(k, (1, 2, 3, 4))
    gs = [0] + [pick(g, R4) for g in (g1, g2, g3)[:k - 1]]
    ws = [pick(w, R4) for w in (w0, w1, w2, w3)[:k]]
    vnone = pick(vnone, R5)
    rq, lq, wq, nl = pick(rq, R5), pick(lq, R5), pick(wq, R5), pick(nl, R3)
    has_ver = bool(has_ver)
    refs, langs, widths = REQ_REFS[rq], REQ_LANGS[lq], REQ_WIDTHS[wq]
    vs, lines = (v0, v1, v2, v3)[:k], (l0, l1, l2, l3)[:k]
    if widths is not None and nl > 0:
        # 'sort by area size' multiplies the TextWidth STRING by the line count: keep that string small
        for x in lines:
            if x > MAX_LINES_FOR_AREA_SORT:
                return 'ok'
    if concrete:
        with untraced():
            return _loc_core(k, gs, ws, vnone, vs, lines, refs, langs, widths, has_ver, rv, nl, q0, q1)
    return _loc_core(k, gs, ws, vnone, vs, lines, refs, langs, widths, has_ver, rv, nl, q0, q1)


def _which(res, texts):
    """Multiplicity of every stored text in a result (identity comparison: no symbolic values involved)."""
    counts = [0] * len(texts)
    for r in res:
        for j, t in enumerate(texts):
            if r is t:
                counts[j] += 1
    return counts


def loc_history(k1: int, k2: int, nq: int, v0: int, v1: int, v2: int, v3: int) -> str:
    """
    The storage is filled in TWO steps (k1 texts, then k2 more) with `nq` unconstrained GetLocalizedText queries served in
    between - the answers must not depend on that history: after the second add, the unconstrained query returns exactly the
    texts carrying the highest Version over everything stored (Versions symbolic), each once.
    pre: 1 <= k1 <= 2
    pre: 1 <= k2 <= 2
    pre: 0 <= nq <= 2
    post: __return__ == 'ok'
    """
    k1, k2, nq = pick(k1, (1, 2)), pick(k2, (1, 2)), pick(nq, (0, 1, 2))
    k = k1 + k2
    vs = (v0, v1, v2, v3)[:k]
    orc = Oracle()
    try:
        with untraced():
            texts = [_mk_text(i, GROUPS[i % 4], WIDTHS[0]) for i in range(k)]
            storage = ls.LocalizationStorage()
        for i in range(k):
            texts[i].Version = vs[i]
        storage.add(*texts[:k1])
        for _ in range(nq):
            early = _which(storage.filter_localized_texts(None, None, None, None, None), texts)
            first_latest = vs[0] if (k1 == 1 or vs[0] >= vs[1]) else vs[1]
            for i in range(k):
                orc.check(early[i] == (1 if (i < k1 and vs[i] == first_latest) else 0), 'unfiltered_result_not_latest_version')
        storage.add(*texts[k1:])
        got = _which(storage.filter_localized_texts(None, None, None, None, None), texts)
        latest = vs[0]
        for v in vs[1:]:
            if v > latest:
                latest = v
        for i in range(k):
            orc.check(got[i] == (1 if vs[i] == latest else 0), 'unfiltered_result_not_latest_version_after_later_add')
    except Exception as ex:  # noqa: BLE001
        return exc_result(orc, ex, 'history')
    return orc.result()


LANGS = ('en', 'de', 'fr', None)


def loc_languages(k: int, a0: int, a1: int, a2: int, a3: int, r0: int, r1: int, r2: int, r3: int, allow_none: bool) -> str:
    """
    get_supported_languages on k stored texts with Lang = LANGS[a_i] (None only if allow_none) and Ref = ('a','b')[r_i].
    pre: 0 <= k <= 4
    pre: 0 <= a0 <= 3
    pre: 0 <= a1 <= 3
    pre: 0 <= a2 <= 3
    pre: 0 <= a3 <= 3
    pre: 0 <= r0 <= 1
    pre: 0 <= r1 <= 1
    pre: 0 <= r2 <= 1
    pre: 0 <= r3 <= 1
    post: __return__ == 'ok'
    """
    k = pick(k, R5)
    sel = [pick(a, R4) for a in (a0, a1, a2, a3)[:k]]
    rs = [pick(r, R2) for r in (r0, r1, r2, r3)[:k]]
    allow_none = bool(allow_none)
    with untraced():
        orc = Oracle()
        try:
            if not allow_none and 3 in sel:
                return 'ok'
            storage = ls.LocalizationStorage()
            texts = [LocalizedText('t%d' % i, lang=LANGS[sel[i]], ref=('a', 'b')[rs[i]], version=1) for i in range(k)]
            storage.add(*texts)
            got = storage.get_supported_languages()
            want = {t.Lang for t in texts if t.Lang is not None}
            orc.check(len(got) == len(set(got)), 'supported_language_listed_twice')
            if 'None' in got and any(t.Lang is None for t in texts):
                orc.fail('supported_languages_lists_str_None_for_text_without_lang')
                got = [g for g in got if g != 'None']     # (if that finding is assumed away: check the rest of the list)
            orc.check(set(got) == want, 'supported_languages_wrong')
        except Exception as ex:  # noqa: BLE001
            return exc_result(orc, ex, 'languages')
        return orc.result()


def loc_line_count(s: str) -> str:
    """
    The real _calc_number_of_lines (stubbed in loc_filter) counts newline-separated lines.
    pre: len(s) <= 4
    post: __return__ == 'ok'
    """
    orc = Oracle()
    try:
        n = _REAL_CALC(s)
        c = 0
        for ch in s:
            if ch == chr(10):
                c += 1
        orc.check(n == c + 1, 'line_count_wrong')
    except Exception as ex:  # noqa: BLE001
        return exc_result(orc, ex, 'lines')
    return orc.result()


# ---- GetLocalizedText / GetSupportedLanguages through the real handlers and the real consumer client (wiring of the parameters)

W_VERS = (1, 2, None)
W_TEXT = ('x', 'x' + chr(10) + 'y')


def _wire(k, gs, ws, vsel, lsel, rq, lq, wq, vq, nq):
    orc = Oracle()
    try:
        dev, cons = _fixture(False, False)
        svc = dev.hosted_services.localization_service
        texts = [LocalizedText(W_TEXT[lsel[i]], lang=GROUPS[gs[i]][1], ref=GROUPS[gs[i]][0], version=W_VERS[vsel[i]],
                               text_width=WIDTHS[ws[i]]) for i in range(k)]
        svc.localization_storage = ls.LocalizationStorage(texts)
        refs, langs, widths = REQ_REFS[rq], REQ_LANGS[lq], REQ_WIDTHS[wq]
        version = (None, 1, 2, 3)[vq]
        nol = (None, [1], [2])[nq]
        cl = cons.client('LocalizationService')
        tws = None if widths is None else [TW(w) for w in widths]
        try:
            res = cl.get_localized_texts(refs, version, langs, tws, nol).result.Text
        except (ValueError, TypeError):
            # documented signature: number_of_lines: list[int]
            orc.fail('number_of_lines_request_rejected_by_client')
            res = cl.get_localized_texts(refs, version, langs, tws, [str(x) for x in nol]).result.Text
        max_w = None if widths is None else max(RANK[w] for w in widths)
        stored = [(t.text, t.Ref, t.Lang, t.Version, t.TextWidth) for t in texts]
        for r in res:
            orc.check((r.text, r.Ref, r.Lang, r.Version, r.TextWidth) in stored, 'returned_text_not_in_storage')
            if refs is not None:
                orc.check(r.Ref in refs, 'text_violates_ref_filter')
            if version is not None:
                orc.check(r.Version == version, 'text_violates_version_filter')
            if langs is not None:
                orc.check(r.Lang in langs, 'text_violates_lang_filter')
            if widths is not None:
                orc.check(RANK[r.TextWidth] is not None and RANK[r.TextWidth] <= max_w, 'text_violates_width_filter')
            if nol is not None:
                orc.check(len(r.text.split(chr(10))) <= nol[0], 'text_violates_lines_filter')
        if refs is None and version is None and langs is None and widths is None and nol is None:
            have = [v for _t, _r, _l, v, _w in stored if v is not None]
            if have:
                want = sorted((t, r, l, str(w)) for t, r, l, v, w in stored if v == max(have))
                got = sorted((r.text, r.Ref, r.Lang, str(r.TextWidth)) for r in res)
                orc.check(got == want, 'unfiltered_result_not_latest_version')
        got_langs = list(cl.get_supported_languages().result.Lang)
        orc.check(sorted(got_langs) == sorted({t.Lang for t in texts}), 'supported_languages_wrong')
    except Exception as ex:  # noqa: BLE001
        return exc_result(orc, ex, 'wire')
    return orc.result()


def loc_wire(which: int, g1: int, w1: int, s1: int, rq: int, lq: int, wq: int, vq: int, nq: int,
             br: bool, bl: bool, bw: bool, bv: bool) -> str:
    """
    GetLocalizedText + GetSupportedLanguages through the real consumer client, the loop-back transport and the real
    LocalizationService handlers; all values concrete (picked by selectors) because they travel through XML.
    Stored: text 0 = ('a','en', xs, Version 1, one line), text 1 = (GROUPS[g1], WIDTHS[w1], Version W_VERS[s1], two lines).
    which 0..4: only the Ref / Lang / TextWidth / Version / NumberOfLines constraint is given (any pool value);
    which 5: Ref, Lang, TextWidth and Version are all given, each one of two values chosen by br / bl / bw / bv.
    pre: 0 <= which <= 5
    pre: 0 <= g1 <= 3
    pre: 0 <= w1 <= 3
    pre: 0 <= s1 <= 2
    pre: 0 <= rq <= 4
    pre: 0 <= lq <= 4
    pre: 0 <= wq <= 4
    pre: 0 <= vq <= 3
    pre: 0 <= nq <= 2
    post: __return__ == 'ok'
    """
    which = pick(which, (0, 1, 2, 3, 4, 5))
    gs = [0, pick(g1, R4)]
    ws = [1, pick(w1, R4)]
    vsel = [0, pick(s1, R3)]
    r = l = w = v = n = 0
    if which == 0:
        r = pick(rq, R5)
    elif which == 1:
        l = pick(lq, R5)    # noqa: E741
    elif which == 2:
        w = pick(wq, R5)
    elif which == 3:
        v = pick(vq, R4)
    elif which == 4:
        n = pick(nq, R3)
    else:
        r, l, w, v = (1, 3)[bool(br)], (1, 3)[bool(bl)], (1, 4)[bool(bw)], (1, 2)[bool(bv)]    # noqa: E741
    with untraced():
        return _wire(2, gs, ws, vsel, [0, 1], r, l, w, v, n)

"""C04 harnesses (content part): reports are complete and truthful (CrossHair, E1). Ordering is decided by engine E3 (checks/C04.py)."""
from vf.hutil import Oracle, exc_result, pick, quiet, untraced

quiet()

from sdc11073.mdib import descriptorcontainers as dc  # noqa: E402
from sdc11073.provider.periodicreports import PeriodicReportsHandler  # noqa: E402
from sdc11073.xml_types import pm_types  # noqa: E402

from harness import mdibkit as k  # noqa: E402

CA = pm_types.ContextAssociation


def _prov(dv, sv, mv, target, two_mds, rt=False):
    pm, cap = k.mk_provider(mv, two_mds=two_mds, operations=True, rt=rt)
    d = pm.descriptions.handle.get_one(target)
    d.DescriptorVersion = dv
    st = pm.states.descriptor_handle.get_one(target, allow_none=True)
    if st is not None:
        st.DescriptorVersion = dv
        st.StateVersion = sv
    lc = pm.descriptions.handle.get_one('lc0')
    pm.add_state_containers([k.mk_context_state(pm, lc, 'lcs0', CA.ASSOCIATED, binding=0, sv=sv)])
    return pm, cap


def _check_header(pm, orc, payload, vg, mv):
    orc.check(payload.MdibVersion == mv + 1 and vg.mdib_version == mv + 1, 'report-mdib-version!=committed-version')
    orc.check(payload.SequenceId == pm.sequence_id and vg.sequence_id == pm.sequence_id, 'report-sequence-id-wrong')
    orc.check(payload.InstanceId == pm.instance_id and vg.instance_id == pm.instance_id, 'report-instance-id-wrong')
    orc.check(pm.mdib_version == mv + 1, 'mdib-version-not-committed-version')


def _states_in(payload):
    out = []
    for part in payload.ReportPart:
        for st in part.values_list:
            out.append((part.SourceMds, st))
    return out


def state_report(kind: int, dv: int, sv: int, mv: int, val: str, flag: bool) -> str:
    """
    One state transaction (0 metric in mds0, 1 metrics in two MDS, 2 alert, 3 component, 4 operational, 5 context new +
    context update in one transaction, 6 a context state built by the application WITHOUT a handle, handed to add_state):
    exactly one report of the matching action with the committed version group,
    exactly the changed states with committed values / counters, each under the MDS it belongs to.
    pre: 0 <= kind <= 6
    pre: dv >= 0
    pre: sv >= 0
    pre: mv >= 0
    pre: len(val) <= 3
    post: __return__ == 'ok'
    """
    orc = Oracle()
    try:
        target = {0: 'm0', 1: 'm0', 2: 'ac0', 3: 'vmd0', 4: 'op0', 5: 'm0', 6: 'm0'}[kind]
        pm, cap = _prov(dv, sv, mv, target, two_mds=(kind == 1))
        expect = {}       # handle -> (source mds, StateVersion, value probe)
        frag = ''
        if kind in (0, 1):
            with pm.metric_state_transaction(set_determination_time=False) as tr:
                st = tr.get_state('m0')
                st.mk_metric_value()
                st.MetricValue.Value = val
                expect['m0'] = ('mds0', sv + 1, val)
                if kind == 1:
                    st2 = tr.get_state('m2')
                    st2.mk_metric_value()
                    st2.MetricValue.Value = val + 'z'
                    expect['m2'] = ('mds1', 1, val + 'z')
                    st3 = tr.get_state('m1')       # mds0 again: the changed states of one MDS are NOT adjacent in the transaction
                    st3.mk_metric_value()
                    st3.MetricValue.Value = val + 'y'
                    expect['m1'] = ('mds0', 1, val + 'y')
            frag = 'EpisodicMetricReport'
            probe = lambda s: s.MetricValue.Value  # noqa: E731
        elif kind == 2:
            with pm.alert_state_transaction(set_determination_time=False) as tr:
                st = tr.get_state('ac0')
                st.Presence = flag
            expect['ac0'] = ('mds0', sv + 1, flag)
            frag = 'EpisodicAlertReport'
            probe = lambda s: s.Presence  # noqa: E731
        elif kind == 3:
            with pm.component_state_transaction() as tr:
                st = tr.get_state('vmd0')
                st.OperatingCycles = dv + 3
            expect['vmd0'] = ('mds0', sv + 1, dv + 3)
            frag = 'EpisodicComponentReport'
            probe = lambda s: s.OperatingCycles  # noqa: E731
        elif kind == 4:
            with pm.operational_state_transaction() as tr:
                st = tr.get_state('op0')
                st.OperatingMode = pm_types.OperatingMode.DISABLED if flag else pm_types.OperatingMode.NA
            expect['op0'] = ('mds0', sv + 1, pm_types.OperatingMode.DISABLED if flag else pm_types.OperatingMode.NA)
            frag = 'EpisodicOperationalStateReport'
            probe = lambda s: s.OperatingMode  # noqa: E731
        elif kind == 6:
            nw = pm.data_model.mk_state_container(pm.descriptions.handle.get_one('pc0'))
            nw.CoreData = pm_types.PatientDemographicsCoreData()
            nw.CoreData.Givenname = val
            with pm.context_state_transaction() as tr:
                tr.add_state(nw)
            orc.check(nw.Handle is not None, 'context-state-committed-without-handle')
            expect[nw.Handle] = ('mds0', 0, val)
            frag = 'EpisodicContextReport'
            probe = lambda s: s.CoreData.Givenname  # noqa: E731
        else:
            with pm.context_state_transaction() as tr:
                st = tr.get_context_state('lcs0')
                st.LocationDetail.Bed = val
                nw = tr.mk_context_state('pc0', 'pcs_new', set_associated=flag)
                nw.CoreData = pm_types.PatientDemographicsCoreData()
                nw.CoreData.Givenname = val
            expect['lcs0'] = ('mds0', sv + 1, val)
            expect['pcs_new'] = ('mds0', 0, val)
            frag = 'EpisodicContextReport'
            probe = lambda s: s.LocationDetail.Bed if s.Handle == 'lcs0' else s.CoreData.Givenname  # noqa: E731
        orc.check(len(cap.sent) == 1, 'not-exactly-one-report')
        payload, action, vg = cap.sent[0]
        orc.check(action.endswith(frag), 'wrong-report-action')
        _check_header(pm, orc, payload, vg, mv)
        got = {}
        for src, st in _states_in(payload):
            h = st.Handle if kind in (5, 6) else st.DescriptorHandle
            orc.check(h not in got, 'state-twice-in-report')
            got[h] = (src, st.StateVersion, probe(st))
            orc.check(src == st.source_mds, 'report-part-source-mds!=state-source-mds')
        orc.check(sorted(got) == sorted(expect), 'report-does-not-contain-exactly-the-changed-states')
        for h in expect:
            if h in got:
                orc.check(got[h][0] == expect[h][0], 'state-under-wrong-mds')
                orc.check(got[h][1] == expect[h][1], 'reported-state-version!=committed')
                orc.check(got[h][2] == expect[h][2], 'reported-value!=committed')
        # the report shows what the MDIB holds at that version
        for h in expect:
            m = pm.context_states.handle.get_one(h) if kind in (5, 6) else pm.states.descriptor_handle.get_one(h)
            orc.check(m.StateVersion == expect[h][1] and probe(m) == expect[h][2], 'mdib-content!=reported-content')
    except Exception as ex:  # noqa: BLE001
        return exc_result(orc, ex)
    return orc.result()


def description_report(kind: int, dv: int, sv: int, mv: int, pdv: int, val: str) -> str:
    """
    One descriptor transaction (0 update m0 + its state, 1 create m9 + state, 2 delete m1, 3 delete subtree vmd0,
    4 create in the second MDS, 5 delete child m1 and then its parent ch0 explicitly, child first, 6 update of a real-time
    sample array descriptor (its state is re-versioned: the transaction result has rt updates), 7 the same together with an
    update of m0, 8 update of an alert condition and of a context descriptor in one transaction, 9 TWO children created below
    ch0 (the parent is touched twice), 10 the parent ch0 updated and its child m1 deleted): the DescriptionModificationReport carries the committed version group, one part per changed
    descriptor with the right modification type, parent, source MDS, committed DescriptorVersion, and the related states;
    the state reports sent along carry the same version.
    pre: 0 <= kind <= 10
    pre: dv >= 0
    pre: sv >= 0
    pre: mv >= 0
    pre: pdv >= 0
    pre: len(val) <= 2
    post: __return__ == 'ok'
    """
    orc = Oracle()
    try:
        from sdc11073.xml_types import msg_types
        dmt = msg_types.DescriptionModificationType
        pm, cap = _prov(dv, sv, mv, 'm0', two_mds=(kind == 4), rt=kind in (6, 7))
        par = pm.descriptions.handle.get_one('ch0')
        par.DescriptorVersion = pdv
        pm.states.descriptor_handle.get_one('ch0').DescriptorVersion = pdv
        exp = {}     # handle -> (modification type, parent, source mds, descriptor version or None, n states)
        with pm.descriptor_transaction() as tr:
            if kind == 0:
                d = tr.get_descriptor('m0')
                d.Type = pm_types.CodedValue(val or 'c')
                st = tr.get_state('m0')
                st.mk_metric_value()
                st.MetricValue.Value = val
                exp['m0'] = (dmt.UPDATE, 'ch0', 'mds0', dv + 1, 1)
            elif kind in (1, 4):
                parent, mds = ('ch0', 'mds0') if kind == 1 else ('ch1', 'mds1')
                nd = dc.StringMetricDescriptorContainer('m9', parent)
                nd.Unit = pm_types.CodedValue('u')
                nd.MetricCategory = pm_types.MetricCategory.MEASUREMENT
                nd.MetricAvailability = pm_types.MetricAvailability.CONTINUOUS
                ns = pm.data_model.get_state_class_for_descriptor(nd)(nd)
                tr.add_descriptor(nd, state_container=ns)
                exp['m9'] = (dmt.CREATE, parent, mds, 0, 1)
                exp[parent] = (dmt.UPDATE, 'vmd0' if kind == 1 else 'vmd1', mds, (pdv + 1) if kind == 1 else 1, 1)
            elif kind == 2:
                tr.remove_descriptor('m1')
                exp['m1'] = (dmt.DELETE, 'ch0', 'mds0', None, 0)
                exp['ch0'] = (dmt.UPDATE, 'vmd0', 'mds0', pdv + 1, 1)
            elif kind == 3:
                tr.remove_descriptor('vmd0')
                for h, p in (('m0', 'ch0'), ('m1', 'ch0'), ('ch0', 'vmd0'), ('vmd0', 'mds0')):
                    exp[h] = (dmt.DELETE, p, 'mds0', None, 0)
                exp['mds0'] = (dmt.UPDATE, None, 'mds0', 1, 1)
            elif kind == 9:
                for h in ('m8', 'm9'):
                    nd = dc.StringMetricDescriptorContainer(h, 'ch0')
                    nd.Unit = pm_types.CodedValue('u')
                    nd.MetricCategory = pm_types.MetricCategory.MEASUREMENT
                    nd.MetricAvailability = pm_types.MetricAvailability.CONTINUOUS
                    tr.add_descriptor(nd, state_container=pm.data_model.get_state_class_for_descriptor(nd)(nd))
                    exp[h] = (dmt.CREATE, 'ch0', 'mds0', 0, 1)
                exp['ch0'] = (dmt.UPDATE, 'vmd0', 'mds0', pdv + 2, 1)
            elif kind == 10:
                d = tr.get_descriptor('ch0')
                d.SafetyClassification = pm_types.SafetyClassification.MED_A
                tr.remove_descriptor('m1')
                exp['m1'] = (dmt.DELETE, 'ch0', 'mds0', None, 0)
                exp['ch0'] = (dmt.UPDATE, 'vmd0', 'mds0', pdv + 2, 1)
            elif kind in (6, 7):
                d = tr.get_descriptor('rt0')
                d.SafetyClassification = pm_types.SafetyClassification.MED_A
                exp['rt0'] = (dmt.UPDATE, 'ch0', 'mds0', 1, 1)
                if kind == 7:
                    d = tr.get_descriptor('m0')
                    d.Type = pm_types.CodedValue(val or 'c')
                    exp['m0'] = (dmt.UPDATE, 'ch0', 'mds0', dv + 1, 1)
            elif kind == 8:
                d = tr.get_descriptor('ac0')
                d.SafetyClassification = pm_types.SafetyClassification.MED_A
                d = tr.get_descriptor('lc0')
                d.SafetyClassification = pm_types.SafetyClassification.MED_B
                exp['ac0'] = (dmt.UPDATE, 'as0', 'mds0', 1, 1)
                exp['lc0'] = (dmt.UPDATE, 'sc0', 'mds0', 1, 1)
            else:
                tr.remove_descriptor('m1')
                tr.remove_descriptor('ch0')
                for h, p in (('m0', 'ch0'), ('m1', 'ch0'), ('ch0', 'vmd0')):
                    exp[h] = (dmt.DELETE, p, 'mds0', None, 0)
                exp['vmd0'] = (dmt.UPDATE, 'mds0', 'mds0', 1, 1)     # a deleted descriptor must not be reported as updated
        orc.check(len(cap.sent) >= 1, 'no-report-sent')
        payload, action, vg = cap.sent[0]
        orc.check(action.endswith('DescriptionModificationReport'), 'first-report-is-not-the-description-report')
        _check_header(pm, orc, payload, vg, mv)
        got = {}
        for part in payload.ReportPart:
            orc.check(len(part.Descriptor) == 1, 'report-part-without-exactly-one-descriptor')
            d = part.Descriptor[0]
            orc.check(d.Handle not in got, 'descriptor-twice-in-report')
            got[d.Handle] = (part.ModificationType, part.ParentDescriptor, part.SourceMds, d.DescriptorVersion, len(part.State))
            for st in part.State:
                orc.check(st.DescriptorHandle == d.Handle, 'state-in-wrong-report-part')
                if part.ModificationType != dmt.DELETE:
                    orc.check(st.DescriptorVersion == d.DescriptorVersion, 'reported-state-descriptor-version-mismatch')
        orc.check(sorted(got) == sorted(exp), 'report-does-not-contain-exactly-the-changed-descriptors')
        for h, e in exp.items():
            if h in got:
                g = got[h]
                orc.check(g[0] == e[0], 'wrong-modification-type')
                orc.check(g[1] == e[1], 'wrong-parent-in-report-part')
                orc.check(g[2] == e[2], 'report-part-source-mds-wrong')
                if e[3] is not None:
                    orc.check(g[3] == e[3], 'reported-descriptor-version!=committed')
                    m = pm.descriptions.handle.get_one(h)
                    orc.check(m.DescriptorVersion == g[3], 'mdib-descriptor-version!=reported')
                orc.check(g[4] == e[4], 'related-states-missing-or-extra-in-report-part')
        for payload2, action2, vg2 in cap.sent[1:]:
            orc.check(payload2.MdibVersion == mv + 1 and vg2.mdib_version == mv + 1, 'state-report-of-descriptor-transaction-has-other-version')
        # every state the transaction changed is in the description report part of its descriptor or in a state report
        reported = set()
        for payload2, _action2, _vg2 in cap.sent:
            if not hasattr(payload2, 'ReportPart'):        # WaveformStream
                reported.update(st.DescriptorHandle for st in payload2.State)
                continue
            for part in payload2.ReportPart:
                for st in (part.State if hasattr(part, 'Descriptor') else part.values_list):
                    reported.add(st.Handle if st.is_context_state else st.DescriptorHandle)
        for st in pm.transaction.all_states():
            orc.check((st.Handle if st.is_context_state else st.DescriptorHandle) in reported, 'changed-state-in-no-report')
    except Exception as ex:  # noqa: BLE001
        return exc_result(orc, ex)
    return orc.result()


def retained_copies(mv: int, sv: int, val1: str, val2: str, kind: int) -> str:
    """
    State copies retained for periodic reports (real PeriodicReportsHandler, thread not started) keep the values of the
    version they are labelled with after a LATER transaction changes the same state (kind 0 metric nested value, 1 context
    nested value, 2 alert flat value).
    pre: mv >= 0
    pre: sv >= 0
    pre: len(val1) <= 2
    pre: len(val2) <= 2
    pre: 0 <= kind <= 2
    post: __return__ == 'ok'
    """
    orc = Oracle()
    try:
        if val1 == val2:
            return 'ok'
        pm, cap = _prov(0, sv, mv, ('m0', 'm0', 'ac0')[kind], False)
        prh = PeriodicReportsHandler(pm, None, 1.0)
        cap.keep[1]._periodic_reports_handler = prh

        def tx(v):
            if kind == 0:
                with pm.metric_state_transaction(set_determination_time=False) as tr:
                    st = tr.get_state('m0')
                    if st.MetricValue is None:
                        st.mk_metric_value()
                    st.MetricValue.Value = v
            elif kind == 1:
                with pm.context_state_transaction() as tr:
                    st = tr.get_context_state('lcs0')
                    st.LocationDetail.Bed = v
            else:
                with pm.alert_state_transaction(set_determination_time=False) as tr:
                    st = tr.get_state('ac0')
                    st.Presence = (v == val1)
        tx(val1)
        tx(val2)
        store = (prh._periodic_metric_reports, prh._periodic_context_state_reports, prh._periodic_alert_reports)[kind]
        orc.check(len(store) == 2, 'retained-copies-missing')
        if len(store) == 2:
            probe = (lambda s: s.MetricValue.Value, lambda s: s.LocationDetail.Bed, lambda s: 'T' if s.Presence else 'F')[kind]
            want = (val1, val2) if kind != 2 else ('T', 'F')
            for i in (0, 1):
                orc.check(store[i].mdib_version == mv + 1 + i, 'retained-copy-labelled-with-wrong-version')
                orc.check(len(store[i].states) == 1 and probe(store[i].states[0]) == want[i], 'retained-copy-shows-value-of-other-version')
                orc.check(store[i].states[0].StateVersion == sv + 1 + i, 'retained-copy-state-version-wrong')
    except Exception as ex:  # noqa: BLE001
        return exc_result(orc, ex)
    return orc.result()

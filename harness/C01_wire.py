"""C01 over the wire: the same transaction kinds as harness.C01, but the reports really travel - real SdcProvider, real port
types, MessageFactory with schema validation, loop-back transport (harness.loopkit: only the socket layer is replaced), real
SdcConsumer dispatch, MessageReader with schema validation, consumermdibxtra, ConsumerMdib. The E1 obligations of harness.C01
stub report (de)serialisation as identity; these obligations close that gap for selector-chosen transactions with concrete
payloads (lxml is C code: no symbolic data), run with real interpreter semantics.
"""
from lxml import etree

from vf.hutil import Oracle, exc_result, pick, quiet, untraced

quiet()

from sdc11073.mdib.consumermdib import ConsumerMdib  # noqa: E402
from sdc11073.provider import providerimpl  # noqa: E402
from sdc11073.xml_types import pm_types  # noqa: E402
from tests import mockstuff  # noqa: E402

from harness import C01 as M  # noqa: E402
from harness import loopkit as lk  # noqa: E402
from harness import mdibkit as k  # noqa: E402

CA = pm_types.ContextAssociation
MSG_NS = 'http://standards.ieee.org/downloads/11073/11073-10207-2017/message'
VALS = ('v', 'a<&b', 'ä €')        # plain, XML-special, non-ASCII


def _complete(pm):
    """The kit MDIB leaves schema-mandatory members unset (its reports never meet a validator); fill them."""
    for d in k.descrs(pm):
        name = type(d).__name__
        if 'AlertSignal' in name:
            d.Manifestation, d.Latching = pm_types.AlertSignalManifestation.AUD, False
        if 'AlertCondition' in name:
            d.Kind, d.Priority = pm_types.AlertConditionKind.OTHER, pm_types.AlertConditionPriority.NONE
        if d.is_metric_descriptor:
            d.Unit = d.Unit or pm_types.CodedValue('u')
            d.MetricCategory = d.MetricCategory or pm_types.MetricCategory.MEASUREMENT
            d.MetricAvailability = d.MetricAvailability or pm_types.MetricAvailability.CONTINUOUS
    for st in k.single_states(pm):
        name = type(st).__name__
        if 'Alert' in name and getattr(st, 'ActivationState', 0) is None:
            st.ActivationState = pm_types.AlertActivation.ON
        if 'Operation' in name and st.OperatingMode is None:
            st.OperatingMode = pm_types.OperatingMode.ENABLED


def _mdib_xml():
    pm, _cap = k.mk_provider(0, operations=True)
    lc, pc = pm.descriptions.handle.get_one('lc0'), pm.descriptions.handle.get_one('pc0')
    pm.add_state_containers([k.mk_context_state(pm, lc, 'lcs0', CA.ASSOCIATED, binding=0),
                             k.mk_context_state(pm, lc, 'lcs1', CA.DISASSOCIATED, binding=0, unbinding=0),
                             k.mk_context_state(pm, pc, 'pcs0', CA.ASSOCIATED, binding=0)])
    _complete(pm)
    node, _vg = pm.reconstruct_mdib_with_context_states()
    resp = etree.Element('{%s}GetMdibResponse' % MSG_NS)
    resp.set('SequenceId', node.get('SequenceId'))
    resp.set('MdibVersion', node.get('MdibVersion') or '0')
    resp.append(node)
    return etree.tostring(resp)


_XML = []


def mk_world(validate=True):
    """-> (provider, consumer, consumer mdib): started, subscribed, initial GetMdib loaded - all through the loop-back wire."""
    if not _XML:
        _XML.append(_mdib_xml())
    lk.Net.reset()
    comp = providerimpl.provider_components_sync_factory()
    comp.soap_client_class = lk.ProviderSoapClient
    dev = mockstuff.SomeDevice(mockstuff.MockWsDiscovery(lk.IP), _XML[0], validate=validate, components=comp,
                               role_provider_components=None)
    lk.start_provider(dev)
    cons = lk.mk_consumer(dev.get_xaddrs()[0], validate=validate)
    lk.start_consumer(cons)
    cm = ConsumerMdib(cons)
    cm.init_mdib()
    return dev, cons, cm


def _run(codes, val, flag, sel):
    orc = Oracle()
    try:
        with k.real_xml():
            return _run_real(orc, codes, val, flag, sel)
    except Exception as ex:  # noqa: BLE001
        return exc_result(orc, ex, 'wire')


def _run_real(orc, codes, val, flag, sel):
    try:
        dev, cons, cm = mk_world()
        pm = dev.mdib
        M._compare(pm, cm, orc, 'initial')
        for step, code in enumerate(codes, 1):
            before = pm.mdib_version
            try:
                M._tx(pm, code, val, flag, sel, str(step))
            except (KeyError, ValueError) as ex:        # the API rejected the call (target deleted by an earlier step)
                if step == 1:
                    raise
                orc.check(pm.mdib_version == before, f'step{step}:rejected-transaction-changed-mdib-version')
                del ex
            M._compare(pm, cm, orc, f'step{step}')
        try:
            cons.stop_all(unsubscribe=False)
            dev.stop_all(send_subscription_end=False)
        except Exception:  # noqa: BLE001
            pass
    except Exception as ex:  # noqa: BLE001
        return exc_result(orc, ex, 'wire')
    return orc.result()


def wire_one_kind(c1: int, vsel: int, flag: bool, sel: int) -> str:
    """
    One provider transaction of kind TX_CODES[c1] with payload VALS[vsel]; reports travel as validated XML; mirror compared.
    pre: 0 <= c1 < 19
    pre: 0 <= vsel < 3
    pre: 0 <= sel < 4
    post: __return__ == 'ok'
    """
    code, val, flag, sel = pick(c1, M.TX_CODES), pick(vsel, VALS), bool(flag), pick(sel, (0, 1, 2, 3))
    with untraced():
        return _run([code], val, flag, sel)


def wire_one_state_kinds(c1: int, vsel: int, flag: bool, sel: int) -> str:
    """
    wire_one_kind restricted to the 9 state transaction kinds.
    pre: 0 <= c1 < 9
    pre: 0 <= vsel < 3
    pre: 0 <= sel < 4
    post: __return__ == 'ok'
    """
    code, val, flag, sel = pick(c1, M.TX_CODES[:9]), pick(vsel, VALS), bool(flag), pick(sel, (0, 1, 2, 3))
    with untraced():
        return _run([code], val, flag, sel)


def wire_one_descriptor_kinds(c1: int, vsel: int, flag: bool, sel: int) -> str:
    """
    wire_one_kind restricted to the 10 descriptor transaction kinds.
    pre: 0 <= c1 < 10
    pre: 0 <= vsel < 3
    pre: 0 <= sel < 4
    post: __return__ == 'ok'
    """
    code, val, flag, sel = pick(c1, M.TX_CODES[9:]), pick(vsel, VALS), bool(flag), pick(sel, (0, 1, 2, 3))
    with untraced():
        return _run([code], val, flag, sel)


def wire_two_kinds(c1: int, c2: int, vsel: int, flag: bool, sel: int) -> str:
    """
    Two consecutive provider transactions of kinds TX_CODES[c1], TX_CODES[c2]; mirror compared after each.
    pre: 0 <= c1 < 19
    pre: 0 <= c2 < 19
    pre: 0 <= vsel < 3
    pre: 0 <= sel < 4
    post: __return__ == 'ok'
    """
    k1, k2 = pick(c1, M.TX_CODES), pick(c2, M.TX_CODES)
    val, flag, sel = pick(vsel, VALS), bool(flag), pick(sel, (0, 1, 2, 3))
    with untraced():
        return _run([k1, k2], val, flag, sel)


# ------------------------------------------------------------------------------------------------ C04: what is on the wire validates

_VALIDATOR = []


def _invalid(xml):
    """None, or the reason why this message does not validate against the bundled schemas (independent validating reader)."""
    if not _VALIDATOR:
        import logging
        from sdc11073.definitions_sdc import SdcV1Definitions
        from sdc11073.pysoap.msgreader import MessageReader
        _VALIDATOR.append(MessageReader(SdcV1Definitions, None, logging.getLogger('verif'), validate=True))
    try:
        _VALIDATOR[0].read_received_message(xml, validate=True)
    except Exception as ex:  # noqa: BLE001
        return type(ex).__name__
    return None


def wire_messages_validate(c1: int, vsel: int, flag: bool, sel: int) -> str:
    """
    Provider and consumer run WITHOUT their own schema validation (so that nothing invalid is held back); start-up (GetMdib,
    Subscribe ...), one transaction of kind TX_CODES[c1], renew / status, unsubscribe. Every SOAP message either side put on the
    wire - requests, responses, notifications - is validated here by an independent validating reader.
    pre: 0 <= c1 < 19
    pre: 0 <= vsel < 3
    pre: 0 <= sel < 4
    post: __return__ == 'ok'
    """
    code, val, flag, sel = pick(c1, M.TX_CODES), pick(vsel, VALS), bool(flag), pick(sel, (0, 1, 2, 3))
    with untraced():
        orc = Oracle()
        try:
            with k.real_xml():
                dev, cons, cm = mk_world(validate=False)
                M._tx(dev.mdib, code, val, flag, sel, '1')
                for s in list(cons.subscription_mgr.subscriptions.values()):
                    s.renew(30)
                    s.get_status()
                cons.stop_all(unsubscribe=True)
                dev.stop_all(send_subscription_end=False)
            n = 0
            for m in lk.Net.messages:
                if not m['xml'] or m['kind'] == 'get-response':
                    continue
                n += 1
                why = _invalid(m['xml'])
                if why is not None:
                    action = lk.re.search(rb'Action[^>]*>([^<]*)<', m['xml'])
                    orc.fail(f"message-on-wire-invalid:{m['sender']}:{m['kind']}:" + (action.group(1).decode().rsplit('/', 1)[-1] if action else '?'))
            orc.check(n >= 8, 'harness:too-few-messages-recorded')
            M._compare(dev.mdib, cm, orc, 'unvalidated-wire')
        except Exception as ex:  # noqa: BLE001
            return exc_result(orc, ex, 'wire')
        return orc.result()

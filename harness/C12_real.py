"""C12 on the real lxml: aliasing that only exists with real element objects (any-element members, the `node` of containers).

The FakeElement harness (harness.C12) decides the class-level defaults and the copy operations for every class; element
identity and lxml's move-on-append semantics need the real library. Library calls run with real interpreter semantics on
selector-chosen cases.
"""
from lxml import etree

from vf.hutil import Oracle, exc_result, pick, quiet, untraced

quiet()
from sdc11073 import observableproperties as properties  # noqa: E402
from sdc11073.mdib import descriptorcontainers as dc  # noqa: E402
from sdc11073.mdib import statecontainers as sc  # noqa: E402
from sdc11073.namespaces import default_ns_helper as nsh  # noqa: E402
from sdc11073.xml_types import pm_types  # noqa: E402
from sdc11073.xml_types.addressing_types import EndpointReferenceType  # noqa: E402


def _state_node():
    d = dc.NumericMetricDescriptorContainer('m0', 'ch0')
    st = sc.NumericMetricStateContainer(d)
    st.mk_metric_value()
    ext = etree.Element('{urn:verif}Marker')
    ext.set('Source', 'original')
    st.Extension.append(ext)
    return d, st.mk_state_node(nsh.PM.tag('State'), nsh)


def _epr_node():
    epr = EndpointReferenceType()
    epr.Address = 'http://h/p'
    ident = etree.Element('{urn:verif}Ident')
    ident.text = 'original'
    epr.ReferenceParameters = [ident]
    return epr.as_etree_node(nsh.WSA.tag('EndpointReference'), {})


def _parse(which, d, node):
    if which == 0:
        st = sc.NumericMetricStateContainer(d)
        st.update_from_node(node)
        return st, lambda x: list(x.Extension)
    return EndpointReferenceType.from_node(node), lambda x: list(x.ReferenceParameters)


def _write(which, x):
    if which == 0:
        return x.mk_state_node(nsh.PM.tag('State'), nsh)
    return x.as_etree_node(nsh.WSA.tag('EndpointReference'), {})


def _probe(elems):
    return [(e.tag, e.get('Source'), e.text) for e in elems]


def parsed_any_elements_independent(which: int, op: int) -> str:
    """
    Two instances are parsed from ONE document node (0 a metric state with an ext:Extension element, 1 an endpoint reference
    with a reference parameter). op 0: the element is changed through instance 1; 1: instance 1 is written to a new node;
    2: instance 1 and then instance 2 are written. Afterwards instance 2, a third parse of the same document, the document
    itself and the node written first still show what the document said.
    pre: 0 <= which < 2
    pre: 0 <= op < 3
    post: __return__ == 'ok'
    """
    which, op = pick(which, (0, 1)), pick(op, (0, 1, 2))
    with untraced():
        orc = Oracle()
        try:
            d, node = _state_node() if which == 0 else (None, _epr_node())
            reference = etree.tostring(node)
            x1, elems = _parse(which, d, node)
            x2, _ = _parse(which, d, node)
            want = _probe(elems(x2))
            orc.check(len(want) == 1, 'harness:any-element-not-parsed')
            orc.check(all(a is not b for a in elems(x1) for b in elems(x2)), 'parsed_instances_share_element_objects')
            written1 = None
            if op == 0:
                e = elems(x1)[0]
                e.set('Source', 'changed')
                e.text = 'changed'
            else:
                written1 = _write(which, x1)
                w1 = etree.tostring(written1)
                if op == 2:
                    _write(which, x2)
                    orc.check(etree.tostring(written1) == w1, 'writing_a_second_instance_changed_the_node_written_from_the_first')
            orc.check(_probe(elems(x2)) == want, 'other_parsed_instance_changed')
            orc.check(etree.tostring(node) == reference, 'parsed_document_changed')
            x3, _ = _parse(which, d, node)
            orc.check(_probe(elems(x3)) == want, 'later_parse_of_the_same_document_differs')
        except Exception as ex:  # noqa: BLE001
            return exc_result(orc, ex, 'any-elements')
        return orc.result()


def mk_copy_node_and_observers_independent(copy_node: bool, op: int) -> str:
    """
    A state container with a node is copied with mk_copy(copy_node): 0 the copy gets another node assigned, 1 the copy parses
    another node (update_from_node), 2 an observer is bound to the copy and the ORIGINAL is written. The original keeps its
    node; observers of one instance do not fire for the other.
    pre: 0 <= op < 3
    post: __return__ == 'ok'
    """
    copy_node, op = bool(copy_node), pick(op, (0, 1, 2))
    with untraced():
        orc = Oracle()
        try:
            d, node = _state_node()
            orig = sc.NumericMetricStateContainer(d)
            orig.update_from_node(node)
            n0 = orig.node
            orc.check(n0 is node, 'harness:node-not-kept')
            cp = orig.mk_copy(copy_node=copy_node)
            orc.check(orig.node is n0, 'mk_copy_replaced_the_node_of_the_original')
            orc.check((cp.node is not n0) if copy_node else (cp.node is n0), 'mk_copy_node_flag_not_honoured')
            if op == 0:
                cp.node = etree.Element('x')
            elif op == 1:
                _d2, other = _state_node()
                cp.update_from_node(other)
            else:
                hits = []
                cb = hits.append
                properties.bind(cp, node=cb)
                orig.node = etree.Element('y')
                orc.check(hits == [], 'observer_of_the_copy_fires_for_the_original')
                n0 = orig.node
            orc.check(orig.node is n0, 'setting_the_node_of_the_copy_changed_the_original')
        except Exception as ex:  # noqa: BLE001
            return exc_result(orc, ex, 'mk_copy-node')
        return orc.result()

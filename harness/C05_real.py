"""C05 on the real lxml + the bundled schemas, for members whose mapping to the schema cannot be seen by a round trip through
the library's own reader: a wrong element name or an element-instead-of-attribute mapping round-trips perfectly and is wrong
on the wire. Hand-built values of the classes concerned are written, validated with the library's schema validator, and
schema-valid documents are read. (A generic schema check over sampled instances of all classes was tried and dropped: the
samples of harness.C05 are outside the XSD value spaces - 2^32+1 for xs:int, '<&>' for xs:language - by design.)
"""
from lxml import etree

from vf.hutil import Oracle, exc_result, pick, quiet, untraced

quiet()
from sdc11073 import namespaces, schema_resolver  # noqa: E402
from sdc11073.mdib import descriptorcontainers as dc  # noqa: E402
from sdc11073.mdib import statecontainers as sc  # noqa: E402
from sdc11073.namespaces import default_ns_helper as ns  # noqa: E402
from sdc11073.xml_types import msg_types, pm_types  # noqa: E402
from sdc11073.xml_types.addressing_types import HeaderInformationBlock  # noqa: E402

_SCHEMA = []
SEQ = 'urn:uuid:2f1c2f0e-8f4b-4d0e-9d1a-3d5d1f0c0a02'
REL = 'http://example.org/relationship/supersedes'


def schema():
    if not _SCHEMA:
        _SCHEMA.append(schema_resolver.mk_schema_validator(list(namespaces.PrefixesEnum), ns))
    return _SCHEMA[0]


def _valid(orc, node, tag):
    doc = etree.fromstring(etree.tostring(node))
    ok = schema().validate(doc)
    orc.check(ok, tag + ':written-xml-does-not-validate')
    return doc


def schema_mapping(case: int, variant: int) -> str:
    """
    case 0: AlertConditionDescriptor with a CauseInfo without (variant 0) / with (1) RemedyInfo inside a GetMdDescriptionResponse-
    like report part; case 1: WorkflowContextState with PerformedOrderDetail.ResultingClinicalInfo (0 one, 1 two entries) in a
    GetContextStatesResponse; case 2: soap header with wsa:RelatesTo and an explicit (0) / no (1) RelationshipType.
    The written XML validates against the bundled schemas, reading it back gives the written value, and re-writing gives the same XML.
    pre: 0 <= case < 3
    pre: 0 <= variant < 2
    post: __return__ == 'ok'
    """
    case, variant = pick(case, (0, 1, 2)), pick(variant, (0, 1))
    with untraced():
        orc = Oracle()
        try:
            nsmap = ns.partial_map(ns.MSG, ns.PM, ns.XSI, ns.EXT)
            if case == 0:
                d = dc.AlertConditionDescriptorContainer('ac0', 'as0')
                d.Kind, d.Priority = pm_types.AlertConditionKind.OTHER, pm_types.AlertConditionPriority.NONE
                remedy = pm_types.RemedyInfo([pm_types.LocalizedText('restart')]) if variant else None
                d.CauseInfo.append(pm_types.CauseInfo(remedy, [pm_types.LocalizedText('sensor disconnected')]))
                rep = msg_types.DescriptionModificationReport()
                rep.SequenceId, rep.MdibVersion = SEQ, 1
                part = rep.add_report_part()
                part.ModificationType = msg_types.DescriptionModificationType.UPDATE
                part.Descriptor.append(d)
                doc = _valid(orc, rep.as_etree_node(rep.NODETYPE, nsmap), 'CauseInfo')
                back = msg_types.DescriptionModificationReport.from_node(doc).ReportPart[0].Descriptor[0]
                orc.check(len(back.CauseInfo) == 1 and (back.CauseInfo[0].RemedyInfo is None) == (variant == 0)
                          and back.CauseInfo[0].Description[0].text == 'sensor disconnected', 'CauseInfo:read-back-differs')
            elif case == 1:
                descriptor = dc.WorkflowContextDescriptorContainer('wf', 'sc0')
                state = sc.WorkflowContextStateContainer(descriptor, 'wf1')
                state.ContextAssociation = pm_types.ContextAssociation.ASSOCIATED
                patient = pm_types.PersonReference([pm_types.InstanceIdentifier('urn:oid:1.2.3', extension_string='pat1')])
                infos = [pm_types.ClinicalInfo(descriptions=[pm_types.LocalizedText('finding %d' % i)]) for i in range(variant + 1)]
                state.WorkflowDetail = pm_types.WorkflowDetail(patient=patient,
                                                               performed_order_detail=pm_types.PerformedOrderDetail(resulting_clinical_info=infos))
                resp = msg_types.GetContextStatesResponse()
                resp.SequenceId, resp.MdibVersion = SEQ, 7
                resp.ContextState.append(state)
                doc = _valid(orc, resp.as_etree_node(resp.NODETYPE, nsmap), 'ResultingClinicalInfo')
                back = msg_types.GetContextStatesResponse.from_node(doc).ContextState[0]
                got = back.WorkflowDetail.PerformedOrderDetail.ResultingClinicalInfo
                orc.check(len(got) == variant + 1, 'ResultingClinicalInfo:read-back-differs')
            else:
                header = HeaderInformationBlock(action='urn:action', message_id='urn:uuid:2f1c2f0e-8f4b-4d0e-9d1a-3d5d1f0c0a03',
                                                relates_to='urn:uuid:2f1c2f0e-8f4b-4d0e-9d1a-3d5d1f0c0a04',
                                                relationship_type=None if variant else REL)
                nsm = ns.partial_map(ns.S12, ns.WSA)
                envelope = etree.Element(ns.S12.tag('Envelope'), nsmap=nsm)
                header.as_etree_node(ns.S12.tag('Header'), nsm, envelope)
                etree.SubElement(envelope, ns.S12.tag('Body'))
                doc = _valid(orc, envelope, 'RelatesTo')
                back = HeaderInformationBlock.from_node(doc.find(ns.S12.tag('Header')))
                want = 'http://www.w3.org/2005/08/addressing/reply' if variant else REL
                orc.check(back.RelatesTo.RelationshipType == want, 'RelatesTo:relationship-type-read-back-differs')
                # a schema-valid document that spells the attribute
                rt = doc.find('.//' + str(ns.WSA.tag('RelatesTo')))
                rt.set('RelationshipType', REL)
                orc.check(HeaderInformationBlock.from_node(doc.find(ns.S12.tag('Header'))).RelatesTo.RelationshipType == REL,
                          'RelatesTo:explicit-attribute-replaced-by-implied-value')
        except Exception as ex:  # noqa: BLE001
            return exc_result(orc, ex, 'schema-mapping')
        return orc.result()

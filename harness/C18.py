"""C18 harnesses (CrossHair, E1): lexical spaces of the scalar converters and DecimalConverter.to_xml on digit-run families.

integer / boolean / enum: the argument is a fully symbolic str (<= 5 XML characters); the oracle is an independent
character-level recogniser of the XSD lexical space (after the whiteSpace=collapse step every XSD processor applies).
decimal: `decimal.Decimal` is a C type that CrossHair cannot execute symbolically, so the text is assembled from selectors
(characters from a pool / run lengths of digit runs); the solver enumerates the selectors, the real converter runs concretely.
"""
from decimal import Decimal
from fractions import Fraction

from vf.hutil import Oracle, exc_result, pick, quiet, untraced

quiet()
from sdc11073.xml_types import dataconverters as dc  # noqa: E402
from sdc11073.xml_types import pm_types  # noqa: E402

XML_WS = (' ', '\t', '\n', '\r')


def bpick(sel, n):
    """Concrete value of the (symbolic) selector sel in range(n) by binary branching: log2(n) solver decisions per selector
    instead of n (CrossHair pays ~1 ms per decision, and these harnesses explore tens of thousands of paths)."""
    lo, hi = 0, n
    while hi - lo > 1:
        mid = (lo + hi) // 2
        if sel < mid:
            hi = mid
        else:
            lo = mid
    return lo


def xml_chars(s):
    """Every character may occur in an XML 1.0 document (Char production)."""
    for ch in s:
        o = ord(ch)
        if not (o == 9 or o == 10 or o == 13 or 32 <= o <= 0xD7FF or 0xE000 <= o <= 0xFFFD or 0x10000 <= o <= 0x10FFFF):
            return False
    return True


def collapse(s):
    """whiteSpace=collapse for a value without inner whitespace: strip leading/trailing XML whitespace."""
    i, j = 0, len(s)
    while i < j and s[i] in XML_WS:
        i += 1
    while j > i and s[j - 1] in XML_WS:
        j -= 1
    return s[i:j]


def int_value(s):
    """xsd:integer lexical mapping ([+-]?[0-9]+ after collapse), character by character. None: not in the lexical space."""
    s = collapse(s)
    if len(s) == 0:
        return None
    neg, k = False, 0
    if s[0] == '+' or s[0] == '-':
        neg, k = s[0] == '-', 1
    if k == len(s):
        return None
    v = 0
    while k < len(s):
        c = s[k]
        if not ('0' <= c <= '9'):
            return None
        v = v * 10 + (ord(c) - 48)
        k += 1
    return -v if neg else v


INT_POOL = ('0', '1', '9', '+', '-', '_', ' ', '\t', '.', 'e', 'a', '\u0663', '\xa0')    # incl. '_' , ARABIC-INDIC 3, NBSP


def integer_lex(maxn: int, n: int, c0: int, c1: int, c2: int, c3: int) -> str:
    """
    IntegerConverter.to_py(text) returns  =>  text is an xsd:integer literal, the result is the value it denotes and to_xml
    gives a literal of that value; a literal is not rejected.  text = n <= maxn characters picked from INT_POOL by the selectors
    (int() on a symbolic str is concretised by CrossHair, so the text is built from selectors instead).
    pre: 0 <= maxn <= 4
    pre: 0 <= n <= maxn
    pre: 0 <= c0 < 13
    pre: 0 <= c1 < 13
    pre: 0 <= c2 < 13
    pre: 0 <= c3 < 13
    post: __return__ == 'ok'
    """
    n = bpick(n, 5)
    sel = [bpick(c, len(INT_POOL)) if i < n else 0 for i, c in enumerate((c0, c1, c2, c3))]
    with untraced():
        return _integer_lex(''.join(INT_POOL[i] for i in sel[:n]))


def _integer_lex(text):
    orc = Oracle()
    try:
        exp = int_value(text)
        try:
            v = dc.IntegerConverter.to_py(text)
        except ValueError:
            orc.check(exp is None, 'integer_literal_rejected')
            return orc.result()
        if exp is None:
            orc.fail('integer_accepts_non_lexical')
            return orc.result()
        orc.check(v == exp, 'integer_wrong_value')
        orc.check(int_value(dc.IntegerConverter.to_xml(v)) == exp, 'integer_roundtrip_changed')
    except Exception as ex:  # noqa: BLE001
        return exc_result(orc, ex, 'integer_lex')
    return orc.result()


def timestamp_lex(maxn: int, n: int, c0: int, c1: int, c2: int, c3: int) -> str:
    """
    TimestampConverter.to_py(text) returns  =>  text is an xsd:unsignedLong literal (pm:Timestamp) and the result is that
    many milliseconds; a literal is not rejected. Same text pool as integer_lex.
    pre: 0 <= maxn <= 4
    pre: 0 <= n <= maxn
    pre: 0 <= c0 < 13
    pre: 0 <= c1 < 13
    pre: 0 <= c2 < 13
    pre: 0 <= c3 < 13
    post: __return__ == 'ok'
    """
    n = bpick(n, 5)
    sel = [bpick(c, len(INT_POOL)) if i < n else 0 for i, c in enumerate((c0, c1, c2, c3))]
    with untraced():
        text = ''.join(INT_POOL[i] for i in sel[:n])
        orc = Oracle()
        try:
            exp = int_value(text)
            if exp is not None and exp < 0:
                exp = None        # unsignedLong
            try:
                v = dc.TimestampConverter.to_py(text)
            except ValueError:
                orc.check(exp is None, 'timestamp_literal_rejected')
                return orc.result()
            if exp is None:
                orc.fail('timestamp_accepts_non_lexical')
                return orc.result()
            orc.check(round(v * 1000) == exp, 'timestamp_wrong_value')
        except Exception as ex:  # noqa: BLE001
            return exc_result(orc, ex, 'timestamp_lex')
        return orc.result()


BOOL_PROBES = ('TRUE', 'True', 'FALSE', 'yes', 'on', '01', '1.0', 'truee', 'tru', 't', ' true', 'false ', '\ttrue\n', 'true', '0')


def boolean_lex(probe: int, s: str) -> str:
    """
    BooleanConverter.to_py(s) returns  =>  s (without surrounding XML whitespace) is one of true/false/1/0 and the result is
    the value it denotes; to_xml gives a literal of that value; a literal is not rejected.
    s is fully symbolic (probe == 0) or one of the fixed spellings in BOOL_PROBES chosen by the selector (case variants are
    hard to reach through str.lower() on a symbolic str).
    pre: 0 <= probe <= 15
    pre: len(s) <= 5
    post: __return__ == 'ok'
    """
    orc = Oracle()
    try:
        if probe != 0:
            s = pick(probe - 1, BOOL_PROBES)
        c = s.strip(' \t\n\r')
        lexical = c == 'true' or c == 'false' or c == '1' or c == '0'
        try:
            v = dc.BooleanConverter.to_py(s)
        except ValueError:
            orc.check(not lexical, 'boolean_literal_rejected')
            return orc.result()
        if not lexical:
            orc.fail('boolean_accepts_non_lexical')
            return orc.result()
        truth = c == 'true' or c == '1'
        orc.check(v == truth, 'boolean_wrong_value')
        x = dc.BooleanConverter.to_xml(v)
        orc.check((x == 'true' or x == '1') if v else (x == 'false' or x == '0'), 'boolean_roundtrip_changed')    # to_xml denotes v
    except Exception as ex:  # noqa: BLE001
        return exc_result(orc, ex, 'boolean_lex')
    return orc.result()


ENUMS = (pm_types.MeasurementValidity, pm_types.ComponentActivation, pm_types.SafetyClassification, pm_types.AlertSignalPresence)


def enum_lex(which: int, s: str) -> str:
    """
    EnumConverter(klass).to_py(s) returns  =>  s is exactly one of the literals of the enumeration and to_xml gives s back.
    pre: 0 <= which < 4
    pre: len(s) <= 5
    post: __return__ == 'ok'
    """
    orc = Oracle()
    try:
        klass = pick(which, ENUMS)
        conv = dc.EnumConverter(klass)
        try:
            v = conv.to_py(s)
        except ValueError:
            for m in klass:
                orc.check(s != m.value, 'enum_literal_rejected')
            return orc.result()
        known = False
        for m in klass:
            if s == m.value:
                known = True
        if not known:
            orc.fail('enum_accepts_non_lexical')
            return orc.result()
        orc.check(conv.to_xml(v) == s, 'enum_roundtrip_changed')
    except Exception as ex:  # noqa: BLE001
        return exc_result(orc, ex, 'enum_lex')
    return orc.result()


# ------------------------------------------------------------------------------------------------ decimals (selector driven)

DEC_POOL = ('0', '1', '.', '-', '+', 'e', '_', ' ', 'N', 'a', 'I', 'n', 'f')


def dec_value(s):
    """xsd:decimal lexical mapping after collapse: [+-]?([0-9]+(.[0-9]*)?|.[0-9]+) -> Fraction, None if not lexical."""
    s = collapse(s)
    k, neg = 0, False
    if k < len(s) and s[k] in '+-':
        neg, k = s[k] == '-', 1
    ip, fp, seen_dot = '', '', False
    while k < len(s):
        c = s[k]
        if '0' <= c <= '9':
            if seen_dot:
                fp += c
            else:
                ip += c
        elif c == '.' and not seen_dot:
            seen_dot = True
        else:
            return None
        k += 1
    if ip == '' and fp == '':
        return None
    v = Fraction(int(ip or '0')) + (Fraction(int(fp), 10 ** len(fp)) if fp else 0)
    return -v if neg else v


def decimal_lex(maxn: int, n: int, c0: int, c1: int, c2: int, c3: int) -> str:
    """
    DecimalConverter.to_py(text) returns  =>  text is an xsd:decimal literal and the Decimal has exactly its value.
    text = n <= maxn characters picked from DEC_POOL by the selectors.
    pre: 0 <= maxn <= 4
    pre: 0 <= n <= maxn
    pre: 0 <= c0 < 13
    pre: 0 <= c1 < 13
    pre: 0 <= c2 < 13
    pre: 0 <= c3 < 13
    post: __return__ == 'ok'
    """
    n = bpick(n, 5)
    sel = [bpick(c, len(DEC_POOL)) if i < n else 0 for i, c in enumerate((c0, c1, c2, c3))]
    with untraced():
        return _decimal_lex(''.join(DEC_POOL[i] for i in sel[:n]))


def _decimal_lex(text):
    orc = Oracle()
    try:
        try:
            v = dc.DecimalConverter.to_py(text)
        except (ValueError, ArithmeticError):
            orc.check(dec_value(text) is None or collapse(text) != text, 'decimal_literal_rejected')
            return orc.result()
        exp = dec_value(text)
        if exp is None:
            orc.fail('decimal_accepts_non_lexical')
            return orc.result()
        orc.check(v.is_finite() and Fraction(v) == exp, 'decimal_wrong_value')
    except Exception as ex:  # noqa: BLE001
        return exc_result(orc, ex, 'decimal_lex')
    return orc.result()


DIGITS = ('1', '5', '9')


def decimal_to_xml_runs(neg: bool, dg: int, a: int, b: int, c: int, d: int) -> str:
    """
    DecimalConverter.to_xml(Decimal(text)) for text = [-] 'D'*a (or '0') '.' '0'*b 'D'*c '0'*d  (D = digit chosen by dg):
    plain notation, numerically equal to the input, for at most 18 digits in total (xsd totalDigits 18).
    pre: 0 <= dg < 3
    pre: 0 <= a <= 18
    pre: 0 <= b <= 18
    pre: 0 <= c <= 18
    pre: 0 <= d <= 2
    pre: a + b + c + d <= 18
    post: __return__ == 'ok'
    """
    neg, dg = bool(neg), bpick(dg, 3)
    a, b, c, d = bpick(a, 19), bpick(b, 19), bpick(c, 19), bpick(d, 3)
    with untraced():
        return _decimal_to_xml_runs(neg, DIGITS[dg], a, b, c, d)


def _decimal_to_xml_runs(neg, digit, a, b, c, d):
    orc = Oracle()
    try:
        frac = '0' * b + digit * c + '0' * d
        text = ('-' if neg else '') + (digit * a if a else '0') + ('.' + frac if frac else '')
        value = Decimal(text)
        out = dc.DecimalConverter.to_xml(value)
        orc.check(isinstance(out, str) and 'e' not in out and 'E' not in out, 'decimal_exponent_notation_written')
        lexical = dec_value(out)
        orc.check(lexical is not None, 'decimal_output_not_lexical')
        if lexical is not None and lexical != Fraction(value):
            small = a == 0 and c > 0 and b >= 6        # str(Decimal) is in scientific notation (adjusted exponent < -6)
            orc.fail('decimal_small_value_lost' if small else 'decimal_18th_digit_lost')
        if lexical is not None and '.' in out:
            orc.check(not out.endswith('0') and not out.endswith('.'), 'decimal_trailing_zeros_written')
    except Exception as ex:  # noqa: BLE001
        return exc_result(orc, ex, 'decimal_to_xml_runs')
    return orc.result()


# ------------------------------------------------------------------------------------------------ durations, XML -> Python

DUR_H = (None, '0', '3', '100')
DUR_M = (None, '0', '7', '90')
DUR_S = ('0', '5', '59', '120')


def duration_parse_runs(h: int, m: int, s: int, dg: int, a: int, b: int, c: int, slim: bool = False) -> str:
    """
    parse_duration on PT[nH][nM]n[.f]S with hours / minutes / seconds from small pools and the fraction f assembled from digit
    runs '0'*a + D*b + '9'*c (0..9 fractional digits: the schema and the SDPi grammar allow any number): the result is the exact
    value within the documented microsecond resolution, and writing it with duration_string and parsing again changes nothing.
    pre: 0 <= h < 4
    pre: 0 <= m < 4
    pre: 0 <= s < 4
    pre: 1 <= dg <= 9
    pre: 0 <= a <= 9
    pre: 0 <= b <= 9
    pre: 0 <= c <= 9
    pre: a + b + c <= 9
    post: __return__ == 'ok'
    """
    if slim:    # quick tier: hours / minutes absent or present (2 x 2), seconds 59, digit D in {1, 5, 9}
        h, m, s, dg = bpick(h, 2) * 2, bpick(m, 2) * 2, 2, (1, 5, 9)[bpick(dg - 1, 3)]
    else:
        h, m, s, dg = bpick(h, 4), bpick(m, 4), bpick(s, 4), bpick(dg - 1, 9) + 1
    a, b, c = bpick(a, 10), bpick(b, 10), bpick(c, 10)
    with untraced():
        orc = Oracle()
        try:
            from sdc11073.xml_types import isoduration
            frac = '0' * a + str(dg) * b + '9' * c
            text = 'PT' + (DUR_H[h] + 'H' if DUR_H[h] else '') + (DUR_M[m] + 'M' if DUR_M[m] else '') + DUR_S[s] + \
                   ('.' + frac if frac else '') + 'S'
            exact = Fraction(int(DUR_H[h] or 0) * 3600 + int(DUR_M[m] or 0) * 60 + int(DUR_S[s])) + \
                (Fraction(int(frac), 10 ** len(frac)) if frac else 0)
            try:
                got = isoduration.parse_duration(text)
            except Exception as ex:  # noqa: BLE001
                return exc_result(orc, ex, 'parse_duration(valid-literal)')
            # microsecond resolution: at most half a microsecond from the exact value (+ one float ulp of slack)
            orc.check(abs(Fraction(got) - exact) <= Fraction(1, 2 * 10 ** 6) + Fraction(1, 10 ** 9), 'duration_parse_value_wrong')
            again = isoduration.parse_duration(isoduration.duration_string(got))
            orc.check(again == got, 'duration_python_xml_python_changes_value')
        except Exception as ex:  # noqa: BLE001
            return exc_result(orc, ex, 'harness')
        return orc.result()


# ------------------------------------------------------------------------------------------------ date / time values

DT_SECONDS = (0.0, 5.5, 59.999999, 7.000001, 30.25, 10, 0, 50, 11)      # incl. int seconds (the dataclass accepts them)
TZ_LEXICAL = __import__('re').compile(r'^(Z|[+-](0\d|1[0-3]):[0-5]\d|[+-]14:00)?$')


def _ref_tz(tz):
    """Reference spelling of a time zone (independent of the library): '' / Z / (+|-)hh:mm."""
    if tz is None:
        return ''
    minutes = tz.utcoffset(None) // __import__('datetime').timedelta(minutes=1)
    if minutes == 0:
        return 'Z'
    return ('-' if minutes < 0 else '+') + '%02d:%02d' % divmod(abs(minutes), 60)


HEAD_LEXICAL = __import__('re').compile(r'^-?\d{4,}(-\d\d(-\d\d(T\d\d:\d\d:\d\d(\.\d+)?)?)?)?$')


def _dt_roundtrip(orc, info):
    from sdc11073.xml_types import isoduration
    text = str(info)
    ref = _ref_tz(info.tz_info)
    orc.check(text.endswith(ref) and HEAD_LEXICAL.match(text[:len(text) - len(ref)]) is not None and TZ_LEXICAL.match(ref) is not None,
              'date_time_text_wrong_timezone_or_not_lexical')
    try:
        back = isoduration.parse_date_time(text)
    except Exception as ex:  # noqa: BLE001
        orc.fail('own_date_time_string_not_parseable:' + type(ex).__name__)
        return
    for f in ('year', 'month', 'day', 'hour', 'minute', 'end_of_day'):
        orc.check(getattr(back, f) == getattr(info, f), 'date_time_roundtrip_changes_' + f)
    if info.second is None:
        orc.check(back.second is None, 'date_time_roundtrip_changes_second')
    else:
        orc.check(back.second is not None and abs(back.second - info.second) < 1e-6, 'date_time_roundtrip_changes_second')
    off_a = None if info.tz_info is None else info.tz_info.utcoffset(None)
    off_b = None if back.tz_info is None else back.tz_info.utcoffset(None)
    orc.check(off_a == off_b, 'date_time_roundtrip_changes_timezone')
    orc.check(str(back) == text, 'date_time_xml_python_xml_changes_text')


def datetime_timezones(m: int, with_time: bool) -> str:
    """
    Every time-zone offset xsd allows (whole minutes in [-14:00, +14:00]: 1681 values, enumerated through the solver) on a date
    and on a date-time value: Python -> XML gives a lexically valid text, XML -> Python gives the same offset, XML again the same text.
    pre: -840 <= m <= 840
    post: __return__ == 'ok'
    """
    m = bpick(m + 840, 1681) - 840
    with_time = bool(with_time)
    with untraced():
        orc = Oracle()
        try:
            import datetime
            from sdc11073.xml_types import isoduration
            tz = datetime.timezone(datetime.timedelta(minutes=m))
            if with_time:
                info = isoduration.XsdDateInformation(year=1990, month=5, day=17, hour=8, minute=30, second=0.0, tz_info=tz)
            else:
                info = isoduration.XsdDateInformation(year=1990, month=5, day=17, tz_info=tz)
            _dt_roundtrip(orc, info)
        except Exception as ex:  # noqa: BLE001
            return exc_result(orc, ex, 'harness')
        return orc.result()


def datetime_fields(kind: int, ssel: int, tzsel: int, ysel: int) -> str:
    """
    The four value kinds (gYear, gYearMonth, date, dateTime, dateTime at end of day) x seconds pool x time zone (none, UTC,
    +01:30, -00:30, -14:00) x year pool (1, 1990, 12345, -44): str -> parse_date_time -> str round trip.
    pre: 0 <= kind < 5
    pre: 0 <= ssel < 9
    pre: 0 <= tzsel < 5
    pre: 0 <= ysel < 4
    post: __return__ == 'ok'
    """
    kind, ssel, tzsel, ysel = bpick(kind, 5), bpick(ssel, 9), bpick(tzsel, 5), bpick(ysel, 4)
    with untraced():
        orc = Oracle()
        try:
            import datetime
            from sdc11073.xml_types import isoduration
            tz = (None, datetime.timezone.utc, datetime.timezone(datetime.timedelta(minutes=90)),
                  datetime.timezone(datetime.timedelta(minutes=-30)), datetime.timezone(datetime.timedelta(hours=-14)))[tzsel]
            year = (1, 1990, 12345, -44)[ysel]
            kw = {'year': year, 'tz_info': tz}
            if kind >= 1:
                kw['month'] = 12
            if kind >= 2:
                kw['day'] = 31
            if kind == 3:
                kw.update(hour=23, minute=59, second=DT_SECONDS[ssel])
            if kind == 4:
                kw['end_of_day'] = True
            _dt_roundtrip(orc, isoduration.XsdDateInformation(**kw))
        except Exception as ex:  # noqa: BLE001
            return exc_result(orc, ex, 'harness')
        return orc.result()

"""Loop-back transport for C19 / C20: the REAL SdcProvider, SdcConsumer, SoapClient, HttpServerThreadBase.run, dispatchers,
MessageFactory / MessageReader (schema validation on) talk to each other inside one process - only the socket layer is replaced:

* `sdc11073.pysoap.soapclient.HTTPSConnectionNoDelay` / `HTTPConnectionNoDelay`  ->  `FakeTLSConn` / `FakePlainConn`: record their
  constructor arguments (the decision "TLS with which context" vs. "plaintext" of every outgoing connection is taken by the real
  `SoapClient._mk_http_connection`), `connect()` follows the rule of a real TCP/TLS stack (TLS client against a plaintext server ->
  `ssl.SSLError`; plaintext client against a TLS server -> the peer drops the connection; nobody listening ->
  `ConnectionRefusedError`), `request()` hands the bytes to the dispatcher of the addressed fake server synchronously.
* `sdc11073.httpserver.httpserverimpl._ThreadingHTTPServer`  ->  `FakeHTTPD` (no listening socket; port numbers from a counter); the
  real `HttpServerThreadBase.run` is executed synchronously by `SyncHttpServer.start` (it decides `base_url` and wraps the socket).
* `SSLContext.wrap_socket` of the contexts made by `mk_container` is replaced by a recorder (no handshake).
* Threads that only do housekeeping (provider subscription managers, consumer renew loop) are not started; the harness calls
  renew / get_status itself.

Everything here is concrete bookkeeping: it runs inside `untraced()` blocks only.
"""
from __future__ import annotations

import http.client
import pathlib
import re
import ssl
from urllib.parse import urlparse

from vf.hutil import quiet

quiet()

import sdc11073.definitions_sdc  # noqa: E402,F401  (registers the protocol definitions)
from sdc11073 import certloader  # noqa: E402
from sdc11073.consumer import consumerimpl  # noqa: E402
from sdc11073.consumer.subscription import ConsumerSubscriptionManager  # noqa: E402
from sdc11073.definitions_sdc import SdcV1Definitions  # noqa: E402
from sdc11073.dispatch import PathElementRegistry, RequestDispatcher  # noqa: E402
from sdc11073.httpserver import httpserverimpl  # noqa: E402
from sdc11073.httpserver.compression import CompressionHandler  # noqa: E402
from sdc11073.httpserver.httpserverimpl import HttpServerThreadBase  # noqa: E402
from sdc11073.provider import providerimpl, subscriptionmgr_base  # noqa: E402
from sdc11073.pysoap import soapclient as soapclient_mod  # noqa: E402
from sdc11073.pysoap.soapclient import SoapClient  # noqa: E402

import tests  # noqa: E402
from tests import mockstuff  # noqa: E402

CERT_DIR = pathlib.Path(tests.__file__).parent / 'certificates'
IP = '127.0.0.1'
ALT_HOST = 'localhost'

STUBS = [
    'socket layer replaced: soapclient.HTTPSConnectionNoDelay/HTTPConnectionNoDelay -> recording fakes whose connect() follows the '
    'TCP/TLS rule (TLS client vs plaintext server: ssl.SSLError; plaintext client vs TLS server: connection dropped; no listener: '
    'ConnectionRefusedError) and whose request() calls the addressed dispatcher synchronously',
    'httpserverimpl._ThreadingHTTPServer -> FakeHTTPD without listening socket; the real HttpServerThreadBase.run runs synchronously',
    'SSLContext.wrap_socket of the created contexts is a recorder (no handshake); load_cert_chain / load_verify_locations are real',
    'housekeeping threads (provider subscription managers, consumer renew loop) are not started; consumer notifications are '
    'dispatched synchronously (RequestDispatcher instead of DispatchKeyRegistryDeferred)',
    'provider = tests.mockstuff.SomeDevice (mdib_two_mds.xml, no role provider, sync components) with MockWsDiscovery(127.0.0.1)',
    'logging disabled',
]


class Net:
    """The fake network: who listens where, every connection object ever constructed, every message exchanged."""
    servers: dict = {}       # 'host:port' -> FakeHTTPD
    conns: list = []         # dicts: owner, tls, context, netloc
    messages: list = []      # dicts: sender, kind ('request'|'response'), netloc, path, xml
    wrapped: list = []       # dicts: context, server_side
    owner = None             # who constructs connections right now ('provider' | 'consumer')
    server_owner: dict = {}  # port -> owner of the listening server
    handshake_fails = False  # the first TLS handshake fails although the server speaks TLS (e.g. certificate rejected)
    port = [50000]
    record = True            # keep every message / connection (C19); switched off for bulk queries (C20)

    @classmethod
    def reset(cls, handshake_fails=False):
        cls.servers, cls.conns, cls.messages, cls.wrapped, cls.server_owner = {}, [], [], [], {}
        cls.owner = None
        cls.handshake_fails = handshake_fails
        cls.port = [50000]
        cls.record = True


class WrappedSock:
    def __init__(self, sock, context, server_side):
        self.inner, self.context, self.server_side = sock, context, server_side


class _ListenSock:
    pass


class FakeHTTPD:
    """Stands in for httpserverimpl._ThreadingHTTPServer."""

    def __init__(self, logger, server_address, chunk_size, supported_encodings):
        self.logger = logger
        Net.port[0] += 1
        self.server_address = (server_address[0], Net.port[0])
        self.dispatcher = PathElementRegistry()
        self.chunk_size = chunk_size
        self.supported_encodings = supported_encodings
        self.socket = _ListenSock()
        self.threads = []
        self.closed = False
        Net.servers[str(Net.port[0])] = self

    @property
    def server_port(self):
        return self.server_address[1]

    @property
    def is_tls(self):
        return isinstance(self.socket, WrappedSock)

    def serve_forever(self):
        return None

    def shutdown(self):
        return None

    def server_close(self):
        self.closed = True
        self.dispatcher = None


class SyncHttpServer(HttpServerThreadBase):
    """The real HttpServerThreadBase; start() executes the real run() in the calling thread (serve_forever returns at once)."""

    def start(self):
        self.run()


def _wrap_recorder(context):
    def wrap_socket(sock, server_side=False, **_kw):
        Net.wrapped.append({'context': context, 'server_side': server_side})
        return WrappedSock(sock, context, server_side)
    return wrap_socket


class _FakeSock:
    def __init__(self, n, tls):
        self._n, self._tls = n, tls

    def getsockname(self):
        return (IP, 40000 + self._n)

    def getpeername(self):
        return (IP, 1)

    def getpeercert(self, binary_form=False):
        return b'' if binary_form else {}

    def setsockopt(self, *_a):
        return None

    def close(self):
        return None


class _FakeResponse:
    def __init__(self, status, reason, headers, body):
        self.status, self.reason, self._headers, self._body = status, reason, headers, body

    def getheader(self, name, default=None):
        for k, v in self._headers:
            if k.lower() == name.lower():
                return v
        return default

    def getheaders(self):
        return list(self._headers)

    def read(self, n=None):
        if n is None or n < 0:
            out, self._body = self._body, b''
        else:
            out, self._body = self._body[:n], self._body[n:]
        return out


class _FakeConnBase:
    tls = False

    def _init(self, netloc, context):
        self.netloc, self.context, self.sock, self._resp = netloc, context, None, None
        Net.conns.append({'owner': Net.owner, 'tls': self.tls, 'context': context, 'netloc': netloc})
        self.owner = Net.owner

    def _server(self):
        port = self.netloc.rsplit(':', 1)[-1]
        srv = Net.servers.get(port)
        if srv is None or srv.closed:
            raise ConnectionRefusedError(111, 'nobody listens on ' + self.netloc)
        return srv

    def connect(self):
        srv = self._server()
        if self.tls:
            if not srv.is_tls:
                raise ssl.SSLError(1, '[SSL: WRONG_VERSION_NUMBER] wrong version number')
            if Net.handshake_fails:
                Net.handshake_fails = False      # only the first handshake
                raise ssl.SSLCertVerificationError(1, '[SSL: CERTIFICATE_VERIFY_FAILED] certificate verify failed')
        self.sock = _FakeSock(len(Net.conns), self.tls)

    def close(self):
        self.sock = None

    def request(self, method, url, body=None, headers=None):
        if self.sock is None:
            self.connect()     # http.client auto-opens
        srv = self._server()
        if srv.is_tls != self.tls:
            self.sock = None
            raise ConnectionResetError(104, 'peer dropped the connection (TLS / plaintext mismatch)')
        hdr = http.client.HTTPMessage()
        hdr['Host'] = self.netloc
        for k, v in (headers or {}).items():
            hdr[k] = v
        if body is not None and not isinstance(body, (bytes, bytearray)):
            body = b''.join(body)
        if body and hdr.get('Content-Encoding'):
            body = CompressionHandler.decompress_payload(hdr.get('Content-Encoding'), body)
        first = [p for p in urlparse(url).path.split('/') if p][:1]
        component = srv.dispatcher.get_instance(first[0] if first else None)
        peer = (IP, 40000)
        port = self.netloc.rsplit(':', 1)[-1]
        if method == 'POST':
            if Net.record:
                Net.messages.append({'sender': self.owner, 'kind': 'request', 'netloc': self.netloc, 'path': url,
                                     'xml': bytes(body)})
            status, reason, xml = component.do_post(hdr, url, peer, bytes(body))
            ctype = 'application/soap+xml; charset=utf-8'
        else:
            status, reason, xml, ctype = component.do_get(hdr, url, peer)
        if isinstance(xml, str):
            xml = xml.encode('utf-8')
        if Net.record:
            Net.messages.append({'sender': Net.server_owner.get(port), 'kind': 'response' if method == 'POST' else 'get-response',
                                 'netloc': self.netloc, 'path': url, 'xml': xml})
        self._resp = _FakeResponse(status, reason, [('Content-type', ctype), ('Content-length', str(len(xml)))], xml)

    def getresponse(self):
        r, self._resp = self._resp, None
        return r


class FakeTLSConn(_FakeConnBase):
    tls = True

    def __init__(self, netloc, context=None, timeout=None, **_kw):
        self._init(netloc, context)


class FakePlainConn(_FakeConnBase):
    tls = False

    def __init__(self, netloc, timeout=None, **_kw):
        self._init(netloc, None)


class ProviderSoapClient(SoapClient):
    """The real SoapClient; only marks who opens the connection."""

    def _mk_http_connection(self):
        Net.owner = 'provider'
        return super()._mk_http_connection()


class ConsumerSoapClient(SoapClient):
    def _mk_http_connection(self):
        Net.owner = 'consumer'
        return super()._mk_http_connection()


class _NoThread:
    def __init__(self, *_a, **_k):
        pass

    def start(self):
        return None

    def join(self, *_a, **_k):
        return None


class QuietSubscriptionManager(ConsumerSubscriptionManager):
    """The real consumer subscription manager without its renew thread."""

    def start(self):
        self._run = True

    def stop(self):
        self._run = False
        with self._subscriptions_lock:
            self.subscriptions.clear()


def install():
    soapclient_mod.HTTPSConnectionNoDelay = FakeTLSConn
    soapclient_mod.HTTPConnectionNoDelay = FakePlainConn
    httpserverimpl._ThreadingHTTPServer = FakeHTTPD
    providerimpl.HttpServerThreadBase = SyncHttpServer
    consumerimpl.HttpServerThreadBase = SyncHttpServer
    subscriptionmgr_base.Thread = _NoThread


install()


# ------------------------------------------------------------------------------------------------ builders

def mk_container(ca_file):
    """Real certloader.mk_ssl_contexts on the repository's self-signed test certificate (optionally also as CA file)."""
    cert, key = CERT_DIR / 'test_certificate.pem', CERT_DIR / 'test_private_key.pem'
    c = certloader.mk_ssl_contexts(key, cert, cert if ca_file else None, ssl_passwd='password')
    c.client_context.wrap_socket = _wrap_recorder(c.client_context)
    c.server_context.wrap_socket = _wrap_recorder(c.server_context)
    return c


def mk_shared_server(context):
    """What an application does to share one HTTP server: create it with the server context (or None) and start it."""
    from sdc11073 import loghelper
    srv = SyncHttpServer(IP, context, logger=loghelper.get_logger_adapter('verif.shared', ''),
                         supported_encodings=CompressionHandler.available_encodings[:])
    srv.start()
    return srv


def mk_provider(container=None, alt=False, mdib_file='mdib_two_mds.xml', validate=True):
    comp = providerimpl.provider_components_sync_factory()
    comp.soap_client_class = ProviderSoapClient
    return mockstuff.SomeDevice.from_mdib_file(mockstuff.MockWsDiscovery(IP), None, mdib_file, validate=validate,
                                               ssl_context_container=container, components=comp,
                                               role_provider_components=None,
                                               alternative_hostname=ALT_HOST if alt else None)


def start_provider(dev, shared=None):
    dev._start_services(shared_http_server=shared)
    Net.server_owner[str(dev._http_server.server_port)] = 'provider'


def mk_consumer(address, container=None, force=False, alt=False, validate=True):
    comp = consumerimpl.default_components_factory()
    comp.soap_client_class = ConsumerSoapClient
    comp.action_dispatcher_class = RequestDispatcher
    comp.subscription_manager_class = QuietSubscriptionManager
    return consumerimpl.SdcConsumer(address, SdcV1Definitions, container, validate=validate, components=comp,
                                    force_ssl_connect=force, alternative_hostname=ALT_HOST if alt else None)


def start_consumer(cons, shared=None, **kw):
    """Real SdcConsumer.start_all; registers who owns the event-sink server (also when start_all fails half-way)."""
    try:
        cons.start_all(shared_http_server=shared, **kw)
    finally:
        if cons._http_server is not None and cons._http_server.server_port is not None:
            Net.server_owner[str(cons._http_server.server_port)] = 'consumer'


def own_server_port(participant):
    srv = participant._http_server
    return None if srv is None else srv.server_port


# ------------------------------------------------------------------------------------------------ url scan

_URL = re.compile(rb'(https?):/*([A-Za-z0-9.\-]+):([0-9]+)')


def own_urls(xml, port):
    """-> list of (scheme, element-localname) for every URL in `xml` whose port is `port` (i.e. that points to the sender's own
    HTTP server), found in element texts and attribute values."""
    from lxml import etree
    out = []
    if not xml:
        return out
    try:
        root = etree.fromstring(xml)
    except etree.XMLSyntaxError:
        return [(m.group(1).decode(), 'raw') for m in _URL.finditer(xml) if int(m.group(3)) == port]
    for el in root.iter():
        if not isinstance(el.tag, str):
            continue
        name = etree.QName(el).localname
        texts = [el.text or ''] + [v for v in el.attrib.values()]
        for t in texts:
            for m in _URL.finditer(t.encode('utf-8')):
                if int(m.group(3)) == port:
                    parent = el.getparent()
                    pname = etree.QName(parent).localname if parent is not None and isinstance(parent.tag, str) else ''
                    out.append((m.group(1).decode(), (pname + '/' if pname else '') + name))
    return out

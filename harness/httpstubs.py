"""Pure-Python environment stubs and independent reference parsers for the HTTP layer checks (C13, C17).

Everything here must stay CrossHair-friendly: no C calls on symbolic values, no `io.BytesIO`, no `re`.
Each stub is listed in the `stubs` of the obligations that use it - they are part of the claim.
"""
from vf.hutil import pick

CRLF = b'\r\n'
SPIN_LIMIT = 8


class SpinDetected(Exception):
    """Raised by FakeStream on the (SPIN_LIMIT+1)-th read at end of data: the caller keeps reading a drained stream,
    i.e. on a real (closed / half-closed) socket it would busy-loop forever."""


class FakeStream:
    """`rfile` of a request / body of a response: read(n) over a bytes object, b'' at end of data (peer closed), like
    `socket.makefile('rb')`. `frag` > 0 limits every read to at most `frag` bytes (short reads of an unbuffered stream).
    Remembers whether a negative size was ever requested (read-until-EOF, on a live socket this blocks until the peer
    closes)."""

    def __init__(self, data, frag=0):
        self.data = data
        self.pos = 0
        self.frag = frag
        self.eof_reads = 0
        self.reads = 0
        self.negative_read = False

    def read(self, n=-1):
        self.reads += 1
        if n is not None and n < 0:
            self.negative_read = True
        size = len(self.data)
        if self.pos >= size:
            self.eof_reads += 1
            if self.eof_reads > SPIN_LIMIT:
                raise SpinDetected
            return b''
        if n is None or n < 0:
            end = size
        else:
            end = self.pos + n
            if end > size:
                end = size
        if self.frag > 0 and end - self.pos > self.frag:
            end = self.pos + self.frag
        out = self.data[self.pos:end]
        self.pos = end
        return out


class PyBytesIO:
    """List-backed replacement for io.BytesIO (write/getvalue only) planted as `httpreader.BytesIO`."""

    def __init__(self, initial=b''):
        self.parts = [initial] if initial else []

    def write(self, data):
        self.parts.append(data)
        return len(data)

    def getvalue(self):
        return b''.join(self.parts)


def install_pybytesio():
    from sdc11073.httpserver import httpreader
    httpreader.BytesIO = PyBytesIO


class CIHeaders:
    """Case-insensitive header lookup like email.message.Message.get (what BaseHTTPRequestHandler.headers is)."""

    def __init__(self, pairs=()):
        self.pairs = [(k.lower(), v) for k, v in pairs]

    def get(self, name, default=None):
        name = name.lower()
        for k, v in self.pairs:
            if k == name:
                return v
        return default

    def __getitem__(self, name):
        return self.get(name)

    def __contains__(self, name):
        return self.get(name) is not None


class FakeMessage:
    """The `http_message` of HTTPReader.read_request_body: `.headers.get(name)` and `.rfile.read(n)`."""

    def __init__(self, headers, stream):
        self.headers = headers
        self.rfile = stream


class FakeResponse:
    """http.client.HTTPResponse stand-in for read_response_body: getheader/getheaders/read/status/reason."""

    def __init__(self, headers, stream, status=200, reason='OK'):
        self.hdrs = headers
        self.stream = stream
        self.status = status
        self.reason = reason

    def getheader(self, name, default=None):
        return self.hdrs.get(name, default)

    def getheaders(self):
        return list(self.hdrs.pairs)

    def read(self, n=-1):
        return self.stream.read(n)


class ListWriter:
    def __init__(self):
        self.parts = []

    def write(self, data):
        self.parts.append(data)
        return len(data)

    def value(self):
        return b''.join(self.parts)


class NullLogger:
    """Accepts every logging call of sdc11073's LoggerAdapter and does nothing."""

    def _noop(self, *args, **kwargs):
        return None

    debug = info = warning = warn = error = exception = critical = log = _noop


# ------------------------------------------------------------------------------------------------ chunk grammar

HEXDIG = b'0123456789abcdefABCDEF'


def _hexval(c):
    if 48 <= c <= 57:
        return c - 48
    if 97 <= c <= 102:
        return c - 87
    if 65 <= c <= 70:
        return c - 55
    return -1


def parse_chunked_strict(wire, max_header=14):
    """Independent recogniser for the HTTP/1.1 chunked coding WITHOUT trailers and WITHOUT chunk extensions
    (RFC 9112 7.1: chunk = 1*HEXDIG CRLF chunk-data CRLF; last-chunk = 1*"0" CRLF; then CRLF).
    Only framing bytes are inspected, never chunk data. Returns (ok, segments, end): segments = list of (start, end)
    offsets of the chunk data, end = offset just behind the message. A size field longer than `max_header` is not
    accepted (HTTPReader reads at most 16 bytes per chunk header line; longer lines are outside the claim)."""
    pos = 0
    n = len(wire)
    segs = []
    while True:
        size = 0
        digits = 0
        while pos < n and digits <= max_header:
            v = _hexval(wire[pos])
            if v < 0:
                break
            size = size * 16 + v
            digits += 1
            pos += 1
        if digits == 0 or digits > max_header:
            return False, segs, pos
        if wire[pos:pos + 2] != CRLF:
            return False, segs, pos
        pos += 2
        if pos + size + 2 > n:
            return False, segs, pos
        if size:
            segs.append((pos, pos + size))
        pos += size
        if wire[pos:pos + 2] != CRLF:
            return False, segs, pos
        pos += 2
        if size == 0:
            return True, segs, pos


def payload_of(wire, segs):
    return b''.join([wire[a:b] for a, b in segs])


def ref_dechunk_lenient(wire, max_line=16):
    """Reference for what a tolerant de-chunker may accept: like parse_chunked_strict, but a chunk header line is
    `size [;extension]` of at most `max_line` bytes including CRLF, and the size field is whatever Python's
    int(field.strip(), 16) accepts as a NON-NEGATIVE number. Concrete data only (oracle bookkeeping).
    Returns (ok, payload, end)."""
    pos = 0
    n = len(wire)
    out = []
    while True:
        idx = wire.find(CRLF, pos, pos + max_line)
        if idx < 0:
            return False, None, pos
        field = wire[pos:idx].split(b';')[0].strip()
        try:
            size = int(field, 16)
        except ValueError:
            return False, None, pos
        if size < 0:
            return False, None, pos
        pos = idx + 2
        if pos + size + 2 > n:
            return False, None, pos
        out.append(wire[pos:pos + size])
        pos += size
        if wire[pos:pos + 2] != CRLF:
            return False, None, pos
        pos += 2
        if size == 0:
            return True, b''.join(out), pos


# ------------------------------------------------------------------------------------------------ mutated chunked bodies

DATA = bytes(33 + (i * 7) % 90 for i in range(90))     # 90 position-distinct marker bytes (chunk data is never inspected)
SIZES = (1, 2, 10, 17)
# replacement size fields (mutation kind 1)
SIZE_FIELDS = (b'', b'g', b'-1', b'+1', b'0x1', b'1_0', b' 1', b'1 ', b'-0', b'00', b'01', b'\t1', b'1;', b'--1',
               b'-10', b'fffffffffffffff', b'1' * 16)
EXTENSIONS = (b';a', b';a=b', b' ;a', b';' + b'e' * 11, b';' + b'e' * 12, b';' + b'e' * 13, b';' + b'e' * 20)
HEADER_ENDS = (b'\n', b'\r', b'', b'\r\r\n', b'\n\r', b' \r\n')
DATA_DELTAS = (-2, -1, 1, 2)
DATA_ENDS = (b'', b'\n', b'\r', b'xx', b'\r\r\n', b'\n\r')
TAILS = (b'', b'X', b'\r\n', b'0\r\n\r\n', b'T: v\r\n\r\n')       # bytes following the message (mutation kind 6)
KINDS = ('none', 'size-field', 'extension', 'header-end', 'data-length', 'data-end', 'tail', 'drop-last-chunk')
VARIANTS = ((None,), SIZE_FIELDS, EXTENSIONS, HEADER_ENDS, DATA_DELTAS, DATA_ENDS, TAILS, (None,))


def mutated_chunked(sizes, kind, j, variant):
    """A valid chunked message with data chunks of the given sizes followed by the last chunk, with ONE mutation of
    `kind` (index into KINDS) applied to chunk j (j == len(sizes) is the last chunk). All arguments concrete.
    Returns the wire bytes."""
    recs = []
    off = 0
    for s in sizes:
        recs.append([b'%x' % s, b'', CRLF, DATA[off:off + s], CRLF])
        off += s
    recs.append([b'0', b'', CRLF, b'', CRLF])
    tail = b''
    if j >= len(recs):
        j = len(recs) - 1
    r = recs[j]
    if kind == 1:
        r[0] = variant
    elif kind == 2:
        r[1] = variant
    elif kind == 3:
        r[2] = variant
    elif kind == 4:
        if variant < 0:
            r[3] = r[3][:variant] if len(r[3]) >= -variant else b''
        else:
            r[3] = r[3] + b'z' * variant
    elif kind == 5:
        r[4] = variant
    elif kind == 6:
        tail = variant
    elif kind == 7:
        recs = recs[:-1]
    return b''.join([b''.join(r) for r in recs]) + tail


def pick_variant(kind, v):
    """explicit branching on the variant selector of mutation `kind` (concrete)."""
    return pick(v, VARIANTS[kind])

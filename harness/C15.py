"""C15 harness: own-message rule of the WS-Discovery networking thread (CrossHair, E1).

add_outbound_message must have registered the MessageID in _known_message_ids by the time the datagram is queued for sending,
and the receive side (_run_q_read) must not dispatch a datagram whose MessageID is known - together: a multicast the node
sent itself is ignored when it is looped back.
"""
import collections
import queue
import threading
import types

from vf.hutil import Oracle, exc_result, quiet

quiet()
from sdc11073.wsdiscovery import networkingthread as nt  # noqa: E402


class _RecQueue:
    """Stands for the send queue: notes, at the time of every put, whether the message id is already known."""

    def __init__(self, owner, mid):
        self.owner, self.mid, self.known_at_put = owner, mid, []

    def put(self, item, *a, **k):
        self.known_at_put.append(self.mid in self.owner._known_message_ids or any(self.mid == m for m, _t in getattr(self.owner, '_own_message_ids', ())))

    put_nowait = put


class _OneShot:
    """_quit_recv_event: lets exactly one loop iteration run."""

    def __init__(self, n=1):
        self.n = n

    def is_set(self):
        self.n -= 1
        return self.n < 0


class _Wsd:
    def __init__(self):
        self.handled = []

    def handle_received_message(self, msg, addr):
        self.handled.append(msg.p_msg.header_info_block.MessageID)


def _msg(mid):
    hib = types.SimpleNamespace(MessageID=mid, Action='urn:a')
    return types.SimpleNamespace(p_msg=types.SimpleNamespace(header_info_block=hib), action='urn:a', serialize=lambda: b'')


def _nolog():
    f = lambda *a, **k: None  # noqa: E731
    return types.SimpleNamespace(debug=f, info=f, warning=f, error=f, exception=f)


def _thread(mid, n_before, other):
    t = nt.NetworkingThread.__new__(nt.NetworkingThread)
    t._logger = _nolog()
    t._known_message_ids = collections.deque(maxlen=200)
    t._own_message_ids = collections.deque()
    for _ in range(n_before):
        t._known_message_ids.appendleft(other)
    t._quit_send_event = threading.Event()
    t._send_queue = _RecQueue(t, mid)
    t._wsd = _Wsd()
    return t


def _setup(mid, n_before, other):
    nt.random = types.SimpleNamespace(randint=lambda a, b: a, randrange=lambda a, b=None: a)
    nt.time = types.SimpleNamespace(time=lambda: 1000.0, sleep=lambda s: None)
    t = _thread(mid, n_before, other)
    t.add_outbound_message(_msg(mid), '239.255.255.250', 3702, nt.MULTICAST_REPEAT_PARAMS)
    return t


def own_registered(mid: str, other: str, n_before: int) -> str:
    """
    The id is known at the time of EVERY put performed by the real add_outbound_message.
    pre: len(mid) <= 3
    pre: len(other) <= 3
    pre: 0 <= n_before <= 2
    post: __return__ == 'ok'
    """
    orc = Oracle()
    saved = nt.random, nt.time
    try:
        q = _setup(mid, n_before, other)._send_queue
        orc.check(len(q.known_at_put) >= 1, 'own_message_never_queued')
        orc.check(all(q.known_at_put), 'own_id_not_known_at_send')
    except Exception as ex:  # noqa: BLE001
        return exc_result(orc, ex, 'own_registered')
    finally:
        nt.random, nt.time = saved
    return orc.result()


def own_loopback(mid: str, other: str, rx: str, n_before: int, rx_is_own: bool) -> str:
    """
    After add_outbound_message one datagram arrives (our own id, or an arbitrary id) and one iteration of the real
    _run_q_read runs: dispatched to WSDiscovery iff the id was not known.
    pre: len(mid) <= 3
    pre: len(other) <= 3
    pre: len(rx) <= 3
    pre: 0 <= n_before <= 2
    post: __return__ == 'ok'
    """
    orc = Oracle()
    saved = nt.random, nt.time, nt.message_reader
    try:
        t = _setup(mid, n_before, other)
        got = mid if rx_is_own else rx
        own = got == mid
        known_before = n_before > 0 and got == other
        nt.message_reader = types.SimpleNamespace(read_received_message=lambda data, validate=True: _msg(got))
        t._quit_recv_event = _OneShot(1)
        t._read_queue = queue.Queue()
        t._read_queue.put((('10.0.0.1', 3702), b'<datagram/>'))
        t._run_q_read()
        if own:
            orc.check(t._wsd.handled == [], 'own_message_dispatched')
        elif known_before:
            orc.check(t._wsd.handled == [], 'known_message_dispatched_again')
        else:
            orc.check(t._wsd.handled == [got], 'new_message_not_dispatched')
            orc.check(got in t._known_message_ids, 'received_id_not_remembered')
    except Exception as ex:  # noqa: BLE001
        return exc_result(orc, ex, 'own_loopback')
    finally:
        nt.random, nt.time, nt.message_reader = saved
    return orc.result()


def own_loopback_after_traffic(maxlen: int, n_before: int, k_between: int, k_own: int = 0) -> str:
    """
    The id memory holds `maxlen` ids (the real one holds 200). n_before foreign ids are already known, the node sends its own
    message and k_own further own messages (Resolves ...), k_between NEW foreign messages arrive - also MORE than the memory for
    foreign ids holds - then the own message is looped back while its retransmissions are still pending (the clock has not
    moved): it must still be ignored, whatever the other traffic was.
    pre: 2 <= maxlen <= 4
    pre: 0 <= n_before <= maxlen
    pre: 0 <= k_between <= 5
    pre: 0 <= k_own <= 5
    post: __return__ == 'ok'
    """
    from vf.hutil import pick, untraced
    maxlen = pick(maxlen, (2, 3, 4))
    n_before = pick(n_before, tuple(range(maxlen + 1)))
    k_between, k_own = pick(k_between, tuple(range(6))), pick(k_own, tuple(range(6)))
    with untraced():        # (concrete ids and counts: nothing symbolic is left, the solver enumerates the selectors)
        return _own_loopback_after_traffic(maxlen, n_before, k_between, k_own)


def _own_loopback_after_traffic(maxlen, n_before, k_between, k_own):
    orc = Oracle()
    saved = nt.random, nt.time, nt.message_reader
    try:
        nt.random = types.SimpleNamespace(randint=lambda a, b: a, randrange=lambda a, b=None: a)
        nt.time = types.SimpleNamespace(time=lambda: 1000.0, sleep=lambda s: None)
        t = nt.NetworkingThread.__new__(nt.NetworkingThread)
        t._logger = _nolog()
        cap = maxlen
        t._known_message_ids = collections.deque(maxlen=cap)
        t._own_message_ids = collections.deque()
        saved_purge = getattr(nt, 'OWN_MESSAGE_IDS_PURGE_SIZE', None)
        if saved_purge is not None:
            nt.OWN_MESSAGE_IDS_PURGE_SIZE = cap       # scaled down together with the memory for foreign ids
        t._quit_send_event = threading.Event()
        t._send_queue = _RecQueue(t, 'own')
        t._wsd = _Wsd()
        current = ['?']
        nt.message_reader = types.SimpleNamespace(read_received_message=lambda data, validate=True: _msg(current[0]))

        def receive(mid):
            current[0] = mid
            t._quit_recv_event = _OneShot(1)
            t._read_queue = queue.Queue()
            t._read_queue.put((('10.0.0.1', 3702), b'<datagram/>'))
            t._run_q_read()
        i = 0
        while i < n_before:
            receive('old%d' % i)
            i += 1
        t.add_outbound_message(_msg('own'), '239.255.255.250', 3702, nt.MULTICAST_REPEAT_PARAMS)
        j = 0
        while j < k_own:
            t.add_outbound_message(_msg('own%d' % j), '239.255.255.250', 3702, nt.MULTICAST_REPEAT_PARAMS)
            j += 1
        j = 0
        while j < k_between:
            receive('new%d' % j)
            j += 1
        del t._wsd.handled[:]
        receive('own')
        orc.check(t._wsd.handled == [], 'own_message_dispatched_after_other_traffic')
    except Exception as ex:  # noqa: BLE001
        return exc_result(orc, ex, 'own_loopback_after_traffic')
    finally:
        nt.random, nt.time, nt.message_reader = saved
        if getattr(nt, 'OWN_MESSAGE_IDS_PURGE_SIZE', None) is not None:
            nt.OWN_MESSAGE_IDS_PURGE_SIZE = 200
    return orc.result()


# ------------------------------------------------------------------------------------------------ the send loop under a virtual clock

class _VClock:
    """Stands for the `time` module inside networkingthread: virtual seconds; sleep(d) advances the clock by exactly d and
    lets the scenario's events (another message is enqueued, stop is scheduled) happen at their virtual instants."""

    def __init__(self):
        self.now = 1000.0
        self.events = []       # (instant, action), sorted
        self.sleeps = 0

    def time(self):
        return self.now

    def sleep(self, d):
        self.sleeps += 1
        if self.sleeps > 5000:
            raise RuntimeError('send loop does not end')
        target = self.now + d
        while self.events and self.events[0][0] <= target:
            at, action = self.events.pop(0)
            self.now = max(self.now, at)
            action()
        self.now = target


class _Draws:
    """Stands for `random`: the draws of each message come from the scenario (first randint = initial delay, first randrange =
    first gap), in the order the library asks for them."""

    def __init__(self, values):
        self.values = list(values)

    def randint(self, a, b):
        v = self.values.pop(0)
        assert a <= v <= b, (a, v, b)
        return v

    def randrange(self, a, b=None):
        v = self.values.pop(0)
        assert a <= v < b, (a, v, b)
        return v


def _draw_pool(params):
    """(initial delay ms, first gap ms) corner and middle values of a parameter set."""
    hi = params.max_initial_delay_ms
    inits = sorted({0, hi // 2, hi})
    gaps = sorted({params.min_delay_ms, (params.min_delay_ms + params.max_delay_ms) // 2, params.max_delay_ms - 1})
    return inits, gaps


def _send_loop(pset_a, ia, ga, second, pset_b, ib, gb, tb, stop, tq, bad_a=False):
    orc = Oracle()
    saved = nt.random, nt.time
    try:
        clock = _VClock()
        pa = (nt.UNICAST_REPEAT_PARAMS, nt.MULTICAST_REPEAT_PARAMS)[pset_a]
        pb = (nt.UNICAST_REPEAT_PARAMS, nt.MULTICAST_REPEAT_PARAMS)[pset_b]
        inits_a, gaps_a = _draw_pool(pa)
        inits_b, gaps_b = _draw_pool(pb)
        draws = [inits_a[ia % len(inits_a)], gaps_a[ga % len(gaps_a)]]
        if second:
            draws += [inits_b[ib % len(inits_b)], gaps_b[gb % len(gaps_b)]]
        nt.random, nt.time = _Draws(draws), clock
        t = nt.NetworkingThread.__new__(nt.NetworkingThread)
        t._logger = _nolog()
        t._known_message_ids = collections.deque(maxlen=200)
        t._own_message_ids = collections.deque()
        t._quit_send_event = threading.Event()
        t._send_queue = queue.PriorityQueue(10000)
        sent, scheduled = [], {}
        current = [None]
        # the REAL _send_msg runs (serialisation, error handling); the socket records what is handed to sendto
        sock = types.SimpleNamespace(sendto=lambda data, addr: sent.append((current[0].msg.created_message.p_msg.header_info_block.MessageID,
                                                                           current[0].repeat, clock.now)))
        t._outbound_selector = types.SimpleNamespace(select=lambda timeout=None: [(types.SimpleNamespace(fileobj=sock), 1)])
        real_send = nt.NetworkingThread._send_msg

        def send_msg(enq, s):
            current[0] = enq
            real_send(t, enq, s)
        t._send_msg = send_msg

        def enqueue(mid, params):
            before = len(t._send_queue.queue)
            if t._quit_send_event.is_set():
                return before       # after schedule_stop the library drops new messages (documented with a warning): no claim
            m = _msg(mid)
            if bad_a and mid == 'A':
                def boom():
                    raise ValueError('stub: message cannot be serialised (e.g. a scope that is not an xs:anyURI)')
                m.serialize = boom
            t.add_outbound_message(m, '239.255.255.250', 3702, params)
            scheduled[mid] = sorted((e.send_time, e.repeat) for e in t._send_queue.queue
                                    if e.msg.created_message.p_msg.header_info_block.MessageID == mid)
            return before
        enqueue('A', pa)
        span_a = scheduled['A'][-1][0] - clock.now
        if second:
            clock.events.append((clock.now + span_a * tb / 4.0, lambda: enqueue('B', pb)))
        # stop is scheduled (WSDiscovery.stop -> schedule_stop) at some instant; the loop then drains the queue and ends
        t_stop = clock.now + (span_a * tq / 4.0 if stop else span_a + 5.0)
        clock.events.append((t_stop, t._quit_send_event.set))
        clock.events.sort(key=lambda e: e[0])
        t._run_send()
        period = max(nt.SEND_LOOP_IDLE_SLEEP, nt.SEND_LOOP_BUSY_SLEEP)
        for mid, sched in sorted(scheduled.items()):
            if bad_a and mid == 'A':
                continue        # cannot be transmitted at all; the claim is about the messages handed over after it
            mine = [(rep, at) for m, rep, at in sent if m == mid]
            params = pa if mid == 'A' else pb
            orc.check(len(mine) == 1 + params.repeat and len(sched) == 1 + params.repeat, 'transmission_count!=1+repeat')
            orc.check([rep for rep, _at in mine] == sorted(rep for rep, _at in mine), 'retransmissions_out_of_order')
            for (rep, at), (due, rep_s) in zip(sorted(mine), sorted(sched, key=lambda x: x[1])):
                orc.check(rep == rep_s, 'harness:repeat-index-mismatch')
                orc.check(at >= due - 1e-9, 'datagram_sent_before_its_scheduled_time')
                orc.check(at <= due + period + 1e-9, 'datagram_sent_later_than_one_polling_period_after_its_scheduled_time')
    except Exception as ex:  # noqa: BLE001
        return exc_result(orc, ex, 'send-loop')
    finally:
        nt.random, nt.time = saved
    return orc.result()


def send_loop_realises_schedule(pset_a: int, ia: int, ga: int, second: bool, pset_b: int, ib: int, gb: int, tb: int,
                                stop: bool, tq: int, bad_a: bool = False) -> str:
    """
    The REAL send loop (_run_send) on a virtual clock with the real queue and the real schedule computation: message A
    (unicast / multicast parameters, draws from corner / middle values), optionally a second message B enqueued while A's
    retransmissions are pending (at 0, 1/4 ... 4/4 of A's schedule), optionally a stop scheduled while datagrams are pending.
    Every datagram leaves not before its scheduled instant and at most one polling period of the loop after it; each
    message 1 + repeat times, in order. bad_a: message A cannot be serialised (the application handed over an invalid uri) -
    message B must still be transmitted completely.
    pre: 0 <= pset_a < 2
    pre: 0 <= ia < 3
    pre: 0 <= ga < 3
    pre: 0 <= pset_b < 2
    pre: 0 <= ib < 3
    pre: 0 <= gb < 3
    pre: 0 <= tb < 5
    pre: 0 <= tq < 5
    post: __return__ == 'ok'
    """
    from vf.hutil import pick, untraced
    r2, r3, r5 = (0, 1), (0, 1, 2), (0, 1, 2, 3, 4)
    pset_a, ia, ga, second = pick(pset_a, r2), pick(ia, r3), pick(ga, r3), bool(second)
    pset_b, ib, gb, tb = (pick(pset_b, r2), pick(ib, r3), pick(gb, r3), pick(tb, r5)) if second else (0, 0, 0, 0)
    stop = bool(stop)
    tq = pick(tq, r5) if stop else 0
    with untraced():
        return _send_loop(pset_a, ia, ga, second, pset_b, ib, gb, tb, stop, tq, bool(bad_a))

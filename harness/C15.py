"""C15 harness: own-message rule of the WS-Discovery networking thread (CrossHair, E1).

add_outbound_message must have registered the MessageID in _known_message_ids by the time the datagram is queued for sending,
and the receive side (_run_q_read) must not dispatch a datagram whose MessageID is known - together: a multicast the node
sent itself is ignored when it is looped back.
"""
import collections
import queue
import threading
import types

from vf.hutil import Oracle, exc_result, quiet

quiet()
from sdc11073.wsdiscovery import networkingthread as nt  # noqa: E402


class _RecQueue:
    """Stands for the send queue: notes, at the time of every put, whether the message id is already known."""

    def __init__(self, owner, mid):
        self.owner, self.mid, self.known_at_put = owner, mid, []

    def put(self, item, *a, **k):
        self.known_at_put.append(self.mid in self.owner._known_message_ids)

    put_nowait = put


class _OneShot:
    """_quit_recv_event: lets exactly one loop iteration run."""

    def __init__(self, n=1):
        self.n = n

    def is_set(self):
        self.n -= 1
        return self.n < 0


class _Wsd:
    def __init__(self):
        self.handled = []

    def handle_received_message(self, msg, addr):
        self.handled.append(msg.p_msg.header_info_block.MessageID)


def _msg(mid):
    hib = types.SimpleNamespace(MessageID=mid, Action='urn:a')
    return types.SimpleNamespace(p_msg=types.SimpleNamespace(header_info_block=hib), action='urn:a', serialize=lambda: b'')


def _nolog():
    f = lambda *a, **k: None  # noqa: E731
    return types.SimpleNamespace(debug=f, info=f, warning=f, error=f, exception=f)


def _thread(mid, n_before, other):
    t = nt.NetworkingThread.__new__(nt.NetworkingThread)
    t._logger = _nolog()
    t._known_message_ids = collections.deque(maxlen=200)
    for _ in range(n_before):
        t._known_message_ids.appendleft(other)
    t._quit_send_event = threading.Event()
    t._send_queue = _RecQueue(t, mid)
    t._wsd = _Wsd()
    return t


def _setup(mid, n_before, other):
    nt.random = types.SimpleNamespace(randint=lambda a, b: a, randrange=lambda a, b=None: a)
    nt.time = types.SimpleNamespace(time=lambda: 1000.0, sleep=lambda s: None)
    t = _thread(mid, n_before, other)
    t.add_outbound_message(_msg(mid), '239.255.255.250', 3702, nt.MULTICAST_REPEAT_PARAMS)
    return t


def own_registered(mid: str, other: str, n_before: int) -> str:
    """
    The id is known at the time of EVERY put performed by the real add_outbound_message.
    pre: len(mid) <= 3
    pre: len(other) <= 3
    pre: 0 <= n_before <= 2
    post: __return__ == 'ok'
    """
    orc = Oracle()
    saved = nt.random, nt.time
    try:
        q = _setup(mid, n_before, other)._send_queue
        orc.check(len(q.known_at_put) >= 1, 'own_message_never_queued')
        orc.check(all(q.known_at_put), 'own_id_not_known_at_send')
    except Exception as ex:  # noqa: BLE001
        return exc_result(orc, ex, 'own_registered')
    finally:
        nt.random, nt.time = saved
    return orc.result()


def own_loopback(mid: str, other: str, rx: str, n_before: int, rx_is_own: bool) -> str:
    """
    After add_outbound_message one datagram arrives (our own id, or an arbitrary id) and one iteration of the real
    _run_q_read runs: dispatched to WSDiscovery iff the id was not known.
    pre: len(mid) <= 3
    pre: len(other) <= 3
    pre: len(rx) <= 3
    pre: 0 <= n_before <= 2
    post: __return__ == 'ok'
    """
    orc = Oracle()
    saved = nt.random, nt.time, nt.message_reader
    try:
        t = _setup(mid, n_before, other)
        got = mid if rx_is_own else rx
        own = got == mid
        known_before = n_before > 0 and got == other
        nt.message_reader = types.SimpleNamespace(read_received_message=lambda data, validate=True: _msg(got))
        t._quit_recv_event = _OneShot(1)
        t._read_queue = queue.Queue()
        t._read_queue.put((('10.0.0.1', 3702), b'<datagram/>'))
        t._run_q_read()
        if own:
            orc.check(t._wsd.handled == [], 'own_message_dispatched')
        elif known_before:
            orc.check(t._wsd.handled == [], 'known_message_dispatched_again')
        else:
            orc.check(t._wsd.handled == [got], 'new_message_not_dispatched')
            orc.check(got in t._known_message_ids, 'received_id_not_remembered')
    except Exception as ex:  # noqa: BLE001
        return exc_result(orc, ex, 'own_loopback')
    finally:
        nt.random, nt.time, nt.message_reader = saved
    return orc.result()


def own_loopback_after_traffic(maxlen: int, n_before: int, k_between: int) -> str:
    """
    The id memory holds `maxlen` ids (the real one holds 200). n_before foreign ids are already known, the node sends its own
    message, k_between NEW foreign messages arrive (fewer than the memory holds), then the own message is looped back: it is among
    the last `maxlen` ids the node saw or sent, so it must still be ignored - whatever the fill level of the memory.
    pre: 2 <= maxlen <= 4
    pre: 0 <= n_before <= maxlen
    pre: 0 <= k_between < maxlen
    post: __return__ == 'ok'
    """
    orc = Oracle()
    saved = nt.random, nt.time, nt.message_reader
    try:
        nt.random = types.SimpleNamespace(randint=lambda a, b: a, randrange=lambda a, b=None: a)
        nt.time = types.SimpleNamespace(time=lambda: 1000.0, sleep=lambda s: None)
        t = nt.NetworkingThread.__new__(nt.NetworkingThread)
        t._logger = _nolog()
        cap = 2 if maxlen == 2 else (3 if maxlen == 3 else 4)      # concrete: deque is implemented in C
        t._known_message_ids = collections.deque(maxlen=cap)
        t._quit_send_event = threading.Event()
        t._send_queue = _RecQueue(t, 'own')
        t._wsd = _Wsd()
        current = ['?']
        nt.message_reader = types.SimpleNamespace(read_received_message=lambda data, validate=True: _msg(current[0]))

        def receive(mid):
            current[0] = mid
            t._quit_recv_event = _OneShot(1)
            t._read_queue = queue.Queue()
            t._read_queue.put((('10.0.0.1', 3702), b'<datagram/>'))
            t._run_q_read()
        i = 0
        while i < n_before:
            receive('old%d' % i)
            i += 1
        t.add_outbound_message(_msg('own'), '239.255.255.250', 3702, nt.MULTICAST_REPEAT_PARAMS)
        j = 0
        while j < k_between:
            receive('new%d' % j)
            j += 1
        del t._wsd.handled[:]
        receive('own')
        orc.check(t._wsd.handled == [], 'own_message_dispatched_after_other_traffic')
    except Exception as ex:  # noqa: BLE001
        return exc_result(orc, ex, 'own_loopback_after_traffic')
    finally:
        nt.random, nt.time, nt.message_reader = saved
    return orc.result()

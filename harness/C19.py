"""C19 harnesses: with TLS configured no endpoint is advertised or contacted in plaintext (CrossHair, E1).

The symbolic inputs are CONFIGURATION BOOLEANS - a finite space that CrossHair enumerates by path forking. For every configuration
a REAL SdcProvider and a REAL SdcConsumer run a complete exchange over the in-process loop-back transport of harness/loopkit.py
(discovery-less start-up: GetMetadata / hosted-service metadata / WSDL GET, event sink start, Subscribe; one episodic report;
Renew, GetStatus; shutdown by Unsubscribe or by the provider's SubscriptionEnd). Observed: the constructor arguments of every HTTP
connection object ever created (TLS with which context / plaintext), the ssl context handed to every HTTP server, and every URL that
points to the sender's own HTTP server in every message on the wire.
"""
import ssl

from vf.hutil import Oracle, exc_result, pick, quiet, untraced

quiet()

from harness import loopkit as lk  # noqa: E402
from harness.loopkit import Net  # noqa: E402


def _conns(owner):
    return [c for c in Net.conns if c['owner'] == owner]


def _urls(owner, port):
    out = []
    for m in Net.messages:
        if m['sender'] == owner:
            out.extend(lk.own_urls(m['xml'], port))
    return out


def _exchange(p_tls, c_cont, c_force, p_shared, c_shared, p_alt, c_alt, hs_fail, end_by_provider, typed=False):
    orc = Oracle()
    stage = 'setup'
    try:
        Net.reset(handshake_fails=hs_fail)
        pc = lk.mk_container(True) if p_tls else None
        cc = lk.mk_container(True) if c_cont else None
        # ---------------- provider
        dev = lk.mk_provider(pc, p_alt)
        p_srv = lk.mk_shared_server(pc.server_context if pc else None) if p_shared else None
        lk.start_provider(dev, p_srv)
        p_port = dev._http_server.server_port
        xaddrs = dev.get_xaddrs()
        # ---------------- consumer
        stage = 'consumer-init'
        location = xaddrs[0]
        if typed:       # the device location was typed in by hand with the other scheme (host, port and path are right)
            location = ('http://' if location.startswith('https://') else 'https://') + location.split('://', 1)[1]
        try:
            cons = lk.mk_consumer(location, cc, c_force, c_alt)
        except ValueError:
            if c_force and cc is None:
                return 'ok'      # enforced TLS without a container is rejected by the constructor: nothing can leak
            raise
        c_srv = lk.mk_shared_server(cc.server_context if cc else None) if c_shared else None
        stage = 'start_all'
        started, start_error = True, None
        try:
            lk.start_consumer(cons, c_srv)
        except (ssl.SSLError, ConnectionError, OSError, lk.http.client.HTTPException) as ex:
            started, start_error = False, ex
        c_port = lk.own_server_port(cons)
        n_subscr = 0
        if started:
            stage = 'notify'
            subs = list(cons.subscription_mgr.subscriptions.values())
            n_subscr = len([s for s in subs if s.is_subscribed])
            from decimal import Decimal
            try:
                with dev.mdib.metric_state_transaction() as tr:
                    st = tr.get_state('numeric.ch0.vmd0')
                    if st.MetricValue is None:
                        st.mk_metric_value()
                    st.MetricValue.Value = Decimal(42)
            except (ssl.SSLError, ConnectionError, OSError, lk.http.client.HTTPException):
                pass     # delivery problems (TLS / plaintext mismatch of the event sink) are not the subject
            stage = 'renew'
            for s in subs:
                s.renew(30)
                s.get_status()
            stage = 'shutdown'
            if end_by_provider:
                dev.stop_all(send_subscription_end=True)
                cons.stop_all(unsubscribe=False)
            else:
                cons.stop_all(unsubscribe=True)
                dev.stop_all(send_subscription_end=False)
        stage = 'oracle'
        tls_works = p_tls and c_cont and not hs_fail
        plain_works = (not p_tls) and not c_force
        # ---------------- provider configured with TLS
        if p_tls:
            for x in xaddrs:
                orc.check(x.startswith('https://'), 'plaintext_url_advertised:xaddrs')
            for u in dev.base_urls:
                orc.check(u.scheme == 'https', 'plaintext_url_advertised:base_urls')
            for scheme, where in _urls('provider', p_port):
                orc.check(scheme == 'https', 'plaintext_url_advertised:' + where)
            for c in _conns('provider'):
                orc.check(c['tls'] and c['context'] is pc.client_context, 'client_without_tls_context:provider')
            orc.check(dev._http_server._ssl_context is pc.server_context, 'server_without_tls_context:provider')
            orc.check(lk.Net.servers[str(p_port)].is_tls, 'server_socket_not_wrapped:provider')
        # ---------------- consumer with TLS enforced
        mine = _conns('consumer')
        if c_cont and c_force:
            seen_tls_failure = False
            for c in mine:
                if not c['tls'] and seen_tls_failure:
                    orc.fail('fallback_to_plaintext_after_ssl_error')
                orc.check(c['tls'] and c['context'] is cc.client_context, 'client_without_tls_context:consumer')
                seen_tls_failure = seen_tls_failure or not tls_works
            if c_port is not None:
                for scheme, where in _urls('consumer', c_port):
                    orc.check(scheme == 'https', 'plaintext_url_advertised:' + where)
                if started:
                    orc.check(cons.base_url.startswith('https://'), 'plaintext_url_advertised:consumer_base_url')
                orc.check(cons._http_server._ssl_context is cc.server_context, 'server_without_tls_context:consumer')
                orc.check(lk.Net.servers[str(c_port)].is_tls, 'server_socket_not_wrapped:consumer')
            if not tls_works:
                orc.check(not started, 'connected_although_tls_impossible')
        # ---------------- consumer with optional TLS: documented policy (first attempt encrypted, plaintext only after an SSLError)
        if c_cont and not c_force:
            if mine:
                orc.check(mine[0]['tls'] and mine[0]['context'] is cc.client_context, 'optional_mode_first_attempt_without_tls')
            if tls_works:
                for c in mine:
                    orc.check(c['tls'] and c['context'] is cc.client_context, 'plaintext_client_without_ssl_error')
                if c_port is not None:
                    for scheme, where in _urls('consumer', c_port):
                        orc.check(scheme == 'https', 'plaintext_url_advertised:' + where)
                    orc.check(cons._http_server._ssl_context is cc.server_context, 'server_without_tls_context:consumer')
        # ---------------- sanity: the scenario really ran where the configurations are compatible (no vacuous pass)
        if tls_works or plain_works:
            orc.check(started, 'harness:compatible-configuration-did-not-start')
            orc.check(n_subscr >= 1, 'harness:no-subscription-established')
            orc.check(len(_urls('provider', p_port)) > 0, 'harness:no-provider-url-seen')
            orc.check(c_port is not None and len(_urls('consumer', c_port)) > 0, 'harness:no-consumer-url-seen')
            orc.check(len(_conns('provider')) > 0, 'harness:provider-opened-no-connection')
        del start_error
    except Exception as ex:  # noqa: BLE001
        return exc_result(orc, ex, stage)
    return orc.result()


def tls_exchange(p_tls: bool, c_cont: bool, c_force: bool, p_shared: bool, c_shared: bool, p_alt: bool, c_alt: bool,
                 hs_fail: bool, end_by_provider: bool, typed: bool = False) -> str:
    """
    One complete provider/consumer exchange for one configuration:
    p_tls: provider has an SSL context container; c_cont: consumer has one; c_force: force_ssl_connect;
    p_shared / c_shared: the participant uses a shared HTTP server (created by the application with the participant's server
    context) instead of its own; p_alt / c_alt: alternative_hostname given; hs_fail: the first TLS handshake fails (ssl.SSLError)
    although the peer speaks TLS; end_by_provider: shutdown by SubscriptionEnd (else by Unsubscribe); typed: the device location
    handed to the consumer spells the OTHER scheme than the provider's xaddr (only with TLS enforced: then the text of the address
    must not matter).
    post: __return__ == 'ok'
    """
    cfg = (bool(p_tls), bool(c_cont), bool(c_force), bool(p_shared), bool(c_shared), bool(p_alt), bool(c_alt), bool(hs_fail),
           bool(end_by_provider), bool(typed))
    if cfg[9] and not (cfg[1] and cfg[2]):
        return 'ok'         # a mistyped scheme without enforced TLS: outside the claim
    with untraced():
        return _exchange(*cfg)


def _foreign_shared_server(p_alt, c_force):
    """A TLS-configured provider that the application starts on a shared HTTP server WITHOUT a TLS context: whatever happens
    to connections, the provider must not ADVERTISE plaintext addresses; and a TLS-enforcing consumer pointed at it must not
    open a plaintext connection."""
    orc = Oracle()
    stage = 'setup'
    try:
        Net.reset(handshake_fails=False)
        pc = lk.mk_container(True)
        dev = lk.mk_provider(pc, p_alt)
        lk.start_provider(dev, lk.mk_shared_server(None))
        p_port = dev._http_server.server_port
        xaddrs = dev.get_xaddrs()
        for x in xaddrs:
            orc.check(x.startswith('https://'), 'plaintext_url_advertised:xaddrs')
        for u in dev.base_urls:
            orc.check(u.scheme == 'https', 'plaintext_url_advertised:base_urls')
        stage = 'consumer'
        cc = lk.mk_container(True)
        cons = lk.mk_consumer(xaddrs[0].replace('http://', 'https://'), cc, c_force, False)
        try:
            lk.start_consumer(cons, None)
        except (ssl.SSLError, ConnectionError, OSError, lk.http.client.HTTPException):
            pass
        for scheme, where in _urls('provider', p_port):
            orc.check(scheme == 'https', 'plaintext_url_advertised:' + where)
        if c_force:
            for c in _conns('consumer'):
                orc.check(c['tls'] and c['context'] is cc.client_context, 'client_without_tls_context:consumer')
        try:
            cons.stop_all(unsubscribe=False)
            dev.stop_all(send_subscription_end=False)
        except Exception:  # noqa: BLE001, S110
            pass
    except Exception as ex:  # noqa: BLE001
        return exc_result(orc, ex, stage)
    return orc.result()


def foreign_shared_server(p_alt: bool, c_force: bool) -> str:
    """
    post: __return__ == 'ok'
    """
    cfg = (bool(p_alt), bool(c_force))
    with untraced():
        return _foreign_shared_server(*cfg)


def _enforced_restart(p_tls, how, c_alt, n_cycles):
    """A consumer with TLS enforced goes through start / stop (or restart) cycles against a provider that does (p_tls) or
    does not speak TLS: in no cycle may it construct a plaintext connection or advertise an http:// address."""
    orc = Oracle()
    stage = 'setup'
    try:
        Net.reset(handshake_fails=False)
        pc = lk.mk_container(True) if p_tls else None
        cc = lk.mk_container(True)
        dev = lk.mk_provider(pc, False)
        lk.start_provider(dev, None)
        xaddrs = dev.get_xaddrs()
        cons = lk.mk_consumer(xaddrs[0], cc, True, c_alt)
        for cycle in range(n_cycles):
            stage = f'cycle{cycle}:start'
            started = True
            try:
                lk.start_consumer(cons, None)
            except (ssl.SSLError, ConnectionError, OSError, lk.http.client.HTTPException):
                started = False
            orc.check(started == p_tls, 'connected_although_tls_impossible' if started else 'harness:tls-provider-not-reached')
            for c in _conns('consumer'):
                orc.check(c['tls'] and c['context'] is cc.client_context, 'client_without_tls_context:consumer')
            c_port = lk.own_server_port(cons)
            if c_port is not None:
                for scheme, where in _urls('consumer', c_port):
                    orc.check(scheme == 'https', 'plaintext_url_advertised:' + where)
            stage = f'cycle{cycle}:stop'
            try:
                if how == 0:
                    cons.stop_all(unsubscribe=started)
                else:
                    cons.stop_all(unsubscribe=False)
            except (ssl.SSLError, ConnectionError, OSError, lk.http.client.HTTPException):
                pass
        try:
            dev.stop_all(send_subscription_end=False)
        except Exception:  # noqa: BLE001, S110
            pass
    except Exception as ex:  # noqa: BLE001
        return exc_result(orc, ex, stage)
    return orc.result()


def enforced_restart(p_tls: bool, how: int, c_alt: bool, n_cycles: int) -> str:
    """
    pre: 0 <= how <= 1
    pre: 2 <= n_cycles <= 3
    post: __return__ == 'ok'
    """
    cfg = (bool(p_tls), 0 if how == 0 else 1, bool(c_alt), 2 if n_cycles == 2 else 3)
    with untraced():
        return _enforced_restart(*cfg)


def _contexts(ca_file, via_folder, cyphers):
    orc = Oracle()
    try:
        from sdc11073 import certloader
        cert, key = lk.CERT_DIR / 'test_certificate.pem', lk.CERT_DIR / 'test_private_key.pem'
        cy = 'ECDHE+AESGCM' if cyphers else None
        if via_folder:
            # the repository folder holds no cipher file (and the harness must not write files): cipher string only via mk_ssl_contexts
            c = certloader.mk_ssl_contexts_from_folder(lk.CERT_DIR, 'test_private_key.pem', 'test_certificate.pem',
                                                       'test_certificate.pem' if ca_file else None, None, 'password')
        else:
            c = certloader.mk_ssl_contexts(key, cert, cert if ca_file else None, cy, 'password')
        orc.check(c.client_context.protocol == ssl.PROTOCOL_TLS_CLIENT, 'client_context_wrong_protocol')
        orc.check(c.server_context.protocol == ssl.PROTOCOL_TLS_SERVER, 'server_context_wrong_protocol')
        if ca_file:
            orc.check(c.client_context.verify_mode == ssl.CERT_REQUIRED, 'ca_file_without_cert_required:client')
            orc.check(c.server_context.verify_mode == ssl.CERT_REQUIRED, 'ca_file_without_cert_required:server')
            orc.check(len(c.client_context.get_ca_certs()) > 0, 'ca_file_not_loaded:client')
            orc.check(len(c.server_context.get_ca_certs()) > 0, 'ca_file_not_loaded:server')
    except Exception as ex:  # noqa: BLE001
        return exc_result(orc, ex, 'contexts')
    return orc.result()


def cert_contexts(ca_file: bool, via_folder: bool, cyphers: bool) -> str:
    """
    certloader.mk_ssl_contexts / mk_ssl_contexts_from_folder on the repository's test certificate, CA file present or absent.
    post: __return__ == 'ok'
    """
    cfg = (bool(ca_file), bool(via_folder), bool(cyphers))
    with untraced():
        return _contexts(*cfg)


def _consumer_foreign_shared_server(c_alt):
    """A TLS-ENFORCING consumer that the application starts on a shared HTTP server WITHOUT a TLS context: either the
    configuration is rejected, or no plaintext NotifyTo / EndTo / base_url is ever advertised."""
    orc = Oracle()
    stage = 'setup'
    try:
        Net.reset(handshake_fails=False)
        pc, cc = lk.mk_container(True), lk.mk_container(True)
        dev = lk.mk_provider(pc, False)
        lk.start_provider(dev, None)
        cons = lk.mk_consumer(dev.get_xaddrs()[0], cc, True, c_alt)
        stage = 'start_all'
        rejected = False
        try:
            lk.start_consumer(cons, lk.mk_shared_server(None))
        except ValueError:
            rejected = True          # refusing the configuration is the safe answer
        except (ssl.SSLError, ConnectionError, OSError, lk.http.client.HTTPException):
            pass
        c_port = lk.own_server_port(cons)
        if c_port is not None:
            for scheme, where in _urls('consumer', c_port):
                orc.check(scheme == 'https', 'plaintext_url_advertised:' + where)
        if not rejected:
            orc.check(str(cons.base_url).startswith('https://'), 'plaintext_url_advertised:consumer_base_url')
        for c in _conns('consumer'):
            orc.check(c['tls'] and c['context'] is cc.client_context, 'client_without_tls_context:consumer')
        try:
            cons.stop_all(unsubscribe=False)
            dev.stop_all(send_subscription_end=False)
        except Exception:  # noqa: BLE001, S110
            pass
    except Exception as ex:  # noqa: BLE001
        return exc_result(orc, ex, stage)
    return orc.result()


def consumer_foreign_shared_server(c_alt: bool) -> str:
    """
    TLS-enforcing consumer on a shared plain http server (with / without alternative hostname).
    post: __return__ == 'ok'
    """
    c_alt = bool(c_alt)
    with untraced():
        return _consumer_foreign_shared_server(c_alt)


def async_client_redirect(status: int, target: int) -> str:
    """
    The REAL SoapClientAsync (what a provider with the default components uses for notifications and SubscriptionEnd) gets a
    redirect answer (301 / 302 / 307 / 308) that points to a plain http:// address, to another https:// address or to a
    relative path: it must not follow it (a second connection outside the configured one) - the answer is a failed delivery.
    pre: 0 <= status < 4
    pre: 0 <= target < 3
    post: __return__ == 'ok'
    """
    import asyncio
    from types import SimpleNamespace
    from harness import httpstubs as hs
    from sdc11073.definitions_sdc import SdcV1Definitions
    from sdc11073.pysoap.msgreader import MessageReader
    from sdc11073.pysoap.soapclient_async import SoapClientAsync
    status, target = pick(status, (301, 302, 307, 308)), pick(target, ('http://10.0.0.9:80/leak', 'https://10.0.0.9/x', '/other'))
    with untraced():
        orc = Oracle()
        try:
            calls = []

            class Resp:
                reason = 'redirect'
                headers = {'Location': target}

                async def text(self):
                    return ''

                async def __aenter__(self):
                    return self

                async def __aexit__(self, *a):
                    return False
            Resp.status = status

            def post(path, data=None, headers=None, **kw):
                calls.append(kw)
                return Resp()
            reader = MessageReader(SdcV1Definitions, None, hs.NullLogger(), validate=False)
            cl = SoapClientAsync('h:1', 1.0, hs.NullLogger(), None, SdcV1Definitions, reader, supported_encodings=[], request_encodings=[],
                                 chunk_size=0)
            cl._http_connection = SimpleNamespace(post=post, closed=False)
            msg = SimpleNamespace(p_msg=None, serialize=lambda request_manipulator=None: b'<?xml version="1.0" encoding="utf-8"?><x/>')
            outcome = 'returned'
            try:
                asyncio.run(cl.async_post_message_to('/sink', msg))
            except Exception as ex:  # noqa: BLE001
                outcome = type(ex).__name__
            orc.check(len(calls) == 1, 'harness:not-exactly-one-post')
            # aiohttp follows redirects unless told otherwise: the request must say so
            orc.check(calls and calls[0].get('allow_redirects') is False, 'redirect_would_be_followed_outside_the_tls_connection')
            orc.check(outcome == 'HTTPReturnCodeError', 'redirect_answer_not_a_failed_delivery:' + outcome)
        except Exception as ex:  # noqa: BLE001
            return exc_result(orc, ex, 'redirect')
        return orc.result()

"""C06 harnesses: the consumer MDIB never regresses under lost / duplicated / re-ordered reports (CrossHair, E1).

The delivery schedule is symbolic the strong way: each delivered report carries UNCONSTRAINED (MdibVersion, StateVersion,
value id, SequenceId selector, InstanceId selector) - every drop / duplication / re-ordering of every provider history is an
instance - under the single assumption that the provider is functional (same handle and StateVersion => same content).
"""
import types

from vf.hutil import Oracle, exc_result, pick, quiet, untraced

quiet()

from sdc11073.mdib.consumermdib import ConsumerMdibState  # noqa: E402
from sdc11073.mdib.mdibbase import MdibVersionGroup  # noqa: E402
from sdc11073.xml_types import msg_types, pm_types  # noqa: E402

from harness import mdibkit as k  # noqa: E402

VALS = ('va', 'vb', 'vc')
OTHER_SEQ = 'urn:uuid:22222222-2222-2222-2222-222222222222'
CA = pm_types.ContextAssociation


def _metric_state(cm, sv, val, handle='m0'):
    d = cm.descriptions.handle.get_one(handle)
    st = cm.data_model.get_state_class_for_descriptor(d)(d)
    st.StateVersion = sv
    st.mk_metric_value()
    st.MetricValue.Value = val
    return st


def _ctx_state(cm, sv, val, handle='pcs0', descr=None):
    d = descr if descr is not None else cm.descriptions.handle.get_one('pc0')
    st = k.mk_context_state(cm, d, handle, CA.ASSOCIATED, binding=0, sv=sv)
    st.CoreData = pm_types.PatientDemographicsCoreData()
    st.CoreData.Givenname = val
    return st


def _report(cm, kind, mv, sv, val, seq_other, inst_other):
    """kind 0: EpisodicMetricReport(m0), 1: EpisodicContextReport(pcs0), 2: EpisodicContextReport(new handle pcs9),
    3: EpisodicAlertReport(ac0)."""
    vg = MdibVersionGroup(mv, OTHER_SEQ if seq_other else k.SEQ, 2 if inst_other else 1)
    if kind == 0:
        rep = msg_types.EpisodicMetricReport()
        st = _metric_state(cm, sv, val)
    elif kind == 1 or kind == 2:
        rep = msg_types.EpisodicContextReport()
        st = _ctx_state(cm, sv, val, 'pcs0' if kind == 1 else 'pcs9')
    else:
        rep = msg_types.EpisodicAlertReport()
        d = cm.descriptions.handle.get_one('ac0')
        st = cm.data_model.get_state_class_for_descriptor(d)(d)
        st.StateVersion = sv
        st.Presence = (val == 'va')
    rep.set_mdib_version_group(vg)
    part = rep.add_report_part()
    part.SourceMds = 'mds0'
    part.values_list.append(st)
    return rep, vg, rep.action.value


def _small_containers(alert):
    from sdc11073.mdib import descriptorcontainers as dc
    ds = [dc.MdsDescriptorContainer('mds0', None), dc.VmdDescriptorContainer('vmd0', 'mds0'),
          dc.ChannelDescriptorContainer('ch0', 'vmd0'), dc.StringMetricDescriptorContainer('m0', 'ch0'),
          dc.SystemContextDescriptorContainer('sc0', 'mds0'), dc.PatientContextDescriptorContainer('pc0', 'sc0')]
    if alert:
        ac = dc.AlertConditionDescriptorContainer('ac0', 'as0')
        ac.Source = ['m0']
        ds += [dc.AlertSystemDescriptorContainer('as0', 'mds0'), ac]
    return ds


def _consumer(mv0, sv0, alert=False):
    cm = k.mk_consumer(mv0, containers=_small_containers(alert))
    st = cm.states.descriptor_handle.get_one('m0')
    st.StateVersion = sv0
    st.mk_metric_value()
    st.MetricValue.Value = 'init'
    if alert:
        ac = cm.states.descriptor_handle.get_one('ac0')
        ac.StateVersion = sv0
        ac.Presence = False
    cm.add_state_containers([_ctx_state(cm, sv0, 'init')])
    _watch(cm)
    return cm


SIGNALS = ('metrics_by_handle', 'context_by_handle', 'alert_by_handle', 'waveform_by_handle')
KIND_KEY = {0: 'm0', 1: 'pcs0', 2: 'pcs9', 3: 'ac0'}


def _watch(cm):
    """Collect the keys of every '<family>_by_handle' notification the consumer MDIB publishes to the application."""
    from sdc11073 import observableproperties as properties
    cm._verif_signalled = []
    cm._verif_cbs = []

    def cb(value):
        if value:
            cm._verif_signalled.extend(sorted(value))
    for name in SIGNALS:
        cm._verif_cbs.append(cb)
        properties.bind(cm, **{name: cb})


def _held(cm, kind):
    """(present, StateVersion, value) of the state a report of this kind addresses."""
    if kind == 0:
        st = cm.states.descriptor_handle.get_one('m0')
        return (True, st.StateVersion, st.MetricValue.Value)
    if kind == 3:
        st = cm.states.descriptor_handle.get_one('ac0', allow_none=True)
        if st is None:
            return (False, -1, None)
        return (True, st.StateVersion, 'va' if st.Presence else 'not-va')
    st = cm.context_states.handle.get_one('pcs0' if kind == 1 else 'pcs9', allow_none=True)
    if st is None:
        return (False, -1, None)
    return (True, st.StateVersion, st.CoreData.Givenname)


def _functional(mva, sva, mvb, svb):
    """Two reports of ONE provider history that contain the same handle: a later MdibVersion means the state changed again,
    i.e. a greater StateVersion; the same MdibVersion means the same transaction, i.e. the same StateVersion."""
    if mva < mvb:
        return sva < svb
    if mva > mvb:
        return sva > svb
    return sva == svb


def _functional_vs_snapshot(mv_snap, sv_snap, mv, sv):
    """A report vs. a snapshot (initial content / GetMdib answer) of the same history: not newer than the snapshot => its state
    is not newer either; newer than the snapshot => the state changed after the snapshot."""
    if mv <= mv_snap:
        return sv <= sv_snap
    return sv > sv_snap


def _indices_ok(cm):
    with untraced():
        return k.index_snapshot(cm) == k.index_scan(cm)


def _step(cm, orc, tag, kind, mv, sv, val, seq_other, inst_other):
    """Deliver one report and check the per-step obligations. Returns nothing."""
    pre_mv = cm.mdib_version
    pre_valid = cm._state == ConsumerMdibState.initialized
    pre_held = _held(cm, kind)
    pre_all = [_held(cm, kk) for kk in (0, 1, 2, 3)]
    rep, vg, action = _report(cm, kind, mv, sv, val, seq_other, inst_other)
    del cm._verif_signalled[:]
    k.deliver(cm, rep, action, vg)
    post_held = _held(cm, kind)
    signalled = KIND_KEY[kind] in cm._verif_signalled
    id_changed = seq_other or inst_other
    orc.check(cm.mdib_version >= pre_mv, tag + ':mdib-version-decreased')
    if pre_held[0]:
        orc.check(post_held[0] and post_held[1] >= pre_held[1], tag + ':state-version-decreased')
    if not pre_valid or id_changed:
        # invalid MDIB (or the report that reveals the id change): nothing may change
        orc.check(cm.mdib_version == pre_mv, tag + ':version-changed-while-invalid')
        orc.check([_held(cm, kk) for kk in (0, 1, 2, 3)] == pre_all, tag + ':content-changed-while-invalid')
        orc.check(not cm._verif_signalled, tag + ':update-signalled-while-invalid')
        if pre_valid and id_changed:
            orc.check(cm._state == ConsumerMdibState.invalid, tag + ':id-change-not-detected')
    else:
        if mv < pre_mv:
            orc.check(cm.mdib_version == pre_mv and post_held == pre_held, tag + ':stale-mdib-version-applied')
            orc.check(not cm._verif_signalled, tag + ':stale-report-signalled-as-update')
        elif pre_held[0] and sv <= pre_held[1]:
            orc.check(post_held == pre_held, tag + ':stale-or-duplicate-state-applied')
            # "changes nothing" includes what the application is told: the state is not announced as updated again
            orc.check(not signalled, tag + ':stale-or-duplicate-state-signalled-as-updated')
        else:
            # newer MdibVersion (or equal) and newer state: must be taken over exactly
            orc.check(post_held == (True, sv, val if kind != 3 else ('va' if val == 'va' else 'not-va')), tag + ':new-state-not-applied')
            orc.check(cm.mdib_version == mv, tag + ':mdib-version-not-updated')
            orc.check(signalled, tag + ':applied-state-not-signalled')
        # states not addressed by the report are untouched
        others = [kk for kk in (0, 1, 2, 3) if kk != kind]
        orc.check([_held(cm, kk) for kk in others] == [pre_all[kk] for kk in others], tag + ':unrelated-state-changed')
    orc.check(_indices_ok(cm), tag + ':index!=scan')


def faulty_delivery(kind1: int, kind2: int, ids: int, mv0: int, sv0: int, mv1: int, sv1: int, mv2: int, sv2: int) -> str:
    """
    Two arbitrary reports (any versions, any order relation, possibly a duplicate of each other) delivered to an initialised
    consumer MDIB. ids: 0 = both reports carry the consumer's SequenceId/InstanceId, 1 = report 1 has another SequenceId,
    2 = report 1 has another InstanceId, 3 = report 2 has another SequenceId, 4 = report 2 has another InstanceId.
    Content is a function of (handle, StateVersion): report 2 repeats report 1's content iff it has the same StateVersion.
    pre: 0 <= kind1 <= 3
    pre: 0 <= kind2 <= 3
    pre: 0 <= ids <= 4
    pre: mv0 >= 0
    pre: sv0 >= 0
    pre: mv1 >= 0
    pre: sv1 >= 0
    pre: mv2 >= 0
    pre: sv2 >= 0
    post: __return__ == 'ok'
    """
    orc = Oracle()
    try:
        # assume: the reports stem from ONE functional provider history that also produced the initial content
        if kind1 != 2 and (not _functional_vs_snapshot(mv0, sv0, mv1, sv1) or sv1 == sv0):
            return 'ok'
        if kind2 != 2 and (not _functional_vs_snapshot(mv0, sv0, mv2, sv2) or sv2 == sv0):
            return 'ok'
        if kind1 == kind2 and not _functional(mv1, sv1, mv2, sv2):
            return 'ok'
        val1 = 'va'
        val2 = 'va' if (kind1 == kind2 and sv1 == sv2) else 'vb'
        cm = _consumer(mv0, sv0, alert=(kind1 == 3 or kind2 == 3))
        _step(cm, orc, 'r1', kind1, mv1, sv1, val1, ids == 1, ids == 2)
        _step(cm, orc, 'r2', kind2, mv2, sv2, val2, ids == 3, ids == 4)
    except Exception as ex:  # noqa: BLE001
        return exc_result(orc, ex)
    return orc.result()


def faulty_delivery3(kind1: int, kind2: int, kind3: int, mv0: int, sv0: int, mv1: int, sv1: int, mv2: int, sv2: int,
                     mv3: int, sv3: int) -> str:
    """
    Three arbitrary reports of one provider history (any subset / duplication / re-ordering of three of its reports) delivered
    to an initialised consumer MDIB; all carry the consumer's SequenceId / InstanceId.
    pre: 0 <= kind1 <= 2
    pre: 0 <= kind2 <= 2
    pre: 0 <= kind3 <= 2
    pre: mv0 >= 0
    pre: sv0 >= 0
    pre: mv1 >= 0
    pre: sv1 >= 0
    pre: mv2 >= 0
    pre: sv2 >= 0
    pre: mv3 >= 0
    pre: sv3 >= 0
    post: __return__ == 'ok'
    """
    orc = Oracle()
    try:
        reps = ((kind1, mv1, sv1), (kind2, mv2, sv2), (kind3, mv3, sv3))
        for (kd, mv, sv) in reps:
            if kd != 2 and (not _functional_vs_snapshot(mv0, sv0, mv, sv) or sv == sv0):
                return 'ok'
        for a in range(3):
            for b in range(a + 1, 3):
                if reps[a][0] == reps[b][0] and not _functional(reps[a][1], reps[a][2], reps[b][1], reps[b][2]):
                    return 'ok'
        # content is a function of (kind, StateVersion)
        vals = ['va']
        vals.append('va' if (kind2 == kind1 and sv2 == sv1) else 'vb')
        if kind3 == kind1 and sv3 == sv1:
            vals.append('va')
        elif kind3 == kind2 and sv3 == sv2:
            vals.append(vals[1])
        else:
            vals.append('vc')
        cm = _consumer(mv0, sv0)
        _step(cm, orc, 'r1', kind1, mv1, sv1, vals[0], False, False)
        _step(cm, orc, 'r2', kind2, mv2, sv2, vals[1], False, False)
        _step(cm, orc, 'r3', kind3, mv3, sv3, vals[2], False, False)
    except Exception as ex:  # noqa: BLE001
        return exc_result(orc, ex)
    return orc.result()


class _GetService:
    def __init__(self, cm, mv, sv, during):
        self.cm, self.mv, self.sv, self.during = cm, mv, sv, during

    def get_mdib(self):
        # reports that arrive while GetMdib is in flight (consumer state: initializing) must be buffered
        for rep, vg, action in self.during:
            k.deliver(self.cm, rep, action, vg)
        ds = _small_containers(False)
        k.set_source_mds(ds)
        sts = k.mk_states(self.cm, ds)
        for st in sts:
            if st.DescriptorHandle == 'm0':
                st.StateVersion = self.sv
                st.mk_metric_value()
                st.MetricValue.Value = 'getmdib'
        ctx = _ctx_state(self.cm, self.sv, 'getmdib', descr=[d for d in ds if d.Handle == 'pc0'][0])
        return types.SimpleNamespace(result=(ds, sts + [ctx]), mdib_version_group=MdibVersionGroup(self.mv, k.SEQ, 1))


def reload_with_inflight(kind1: int, kind2: int, seq1: bool, late: bool, mvg: int, svg: int, mv1: int, sv1: int,
                         mv2: int, sv2: int) -> str:
    """
    reload_all (also the initial load) while two arbitrary reports arrive during GetMdib, optionally a third delivery of
    report 1 again after the reload (replayed notification).
    pre: 0 <= kind1 <= 1
    pre: 0 <= kind2 <= 1
    pre: mvg >= 0
    pre: svg >= 0
    pre: mv1 >= 0
    pre: sv1 >= 0
    pre: mv2 >= 0
    pre: sv2 >= 0
    post: __return__ == 'ok'
    """
    orc = Oracle()
    try:
        val1 = 'va'
        val2 = 'va' if (kind1 == kind2 and sv1 == sv2) else 'vb'
        # assume: reports and GetMdib answer stem from ONE functional provider history
        if not _functional_vs_snapshot(mvg, svg, mv1, sv1) or not _functional_vs_snapshot(mvg, svg, mv2, sv2):
            return 'ok'
        if sv1 == svg or sv2 == svg:
            return 'ok'     # content of version svg is the GetMdib content
        if kind1 == kind2 and not _functional(mv1, sv1, mv2, sv2):
            return 'ok'
        cm = k.mk_consumer(0, containers=_small_containers(False))
        cm._state = ConsumerMdibState.invalid      # as after construction / after an id change
        r1 = _report(cm, kind1, mv1, sv1, val1, seq1, False)
        r2 = _report(cm, kind2, mv2, sv2, val2, False, False)
        svc = _GetService(cm, mvg, svg, [r1, r2])
        cm._sdc_client = types.SimpleNamespace(client=lambda name: svc, sdc_definitions=k.StubClient.sdc_definitions)
        cm.reload_all()
        orc.check(cm._state == ConsumerMdibState.initialized, 'not-initialized-after-reload')
        orc.check(len(cm._buffered_notifications) == 0, 'buffer-not-drained')
        # expected: start from the GetMdib content, then apply the buffered reports in arrival order by the normal rules,
        # except that reports of another sequence or with MdibVersion <= GetMdib version are dropped
        exp = {0: (svg, 'getmdib'), 1: (svg, 'getmdib')}
        exp_mv = mvg
        for (kind, mv, sv, val, other) in ((kind1, mv1, sv1, val1, seq1), (kind2, mv2, sv2, val2, False)):
            if other or mv <= mvg or mv < exp_mv:
                continue
            exp_mv = mv
            if sv > exp[kind][0]:
                exp[kind] = (sv, val)
        orc.check(cm.mdib_version == exp_mv, 'mdib-version-after-reload-wrong')
        orc.check(_held(cm, 0) == (True,) + exp[0], 'metric-after-reload-wrong')
        orc.check(_held(cm, 1) == (True,) + exp[1], 'context-after-reload-wrong')
        if late and not seq1:
            before = (cm.mdib_version, _held(cm, 0), _held(cm, 1))
            k.deliver(cm, r1[0], r1[2], r1[1])     # the same notification replayed after the reload
            after = (cm.mdib_version, _held(cm, 0), _held(cm, 1))
            if mv1 < before[0] or sv1 <= before[1 + kind1][1]:
                if mv1 < before[0]:
                    orc.check(after == before, 'replayed-report-applied-twice')
                else:
                    orc.check(after[1:] == before[1:], 'replayed-report-applied-twice')
        orc.check(_indices_ok(cm), 'index!=scan')
    except Exception as ex:  # noqa: BLE001
        return exc_result(orc, ex)
    return orc.result()


def description_report_faults(mod1: int, mod2: int, mv0: int, mv1: int, mv2: int, dv: int, sv: int, dv2: int = 0, sv2: int = 0) -> str:
    """
    Two DescriptionModificationReports with one part each (0 CREATE m9+state, 1 UPDATE m1+state, 2 DELETE m1) with arbitrary
    MdibVersions (stale, duplicate, in order) and arbitrary DescriptorVersion / StateVersion per report: no report makes the
    handler fail, lookups stay consistent, versions never decrease, stale ones change nothing.
    pre: dv2 >= 0
    pre: sv2 >= 0
    pre: 0 <= mod1 <= 2
    pre: 0 <= mod2 <= 2
    pre: mv0 >= 0
    pre: mv1 >= 0
    pre: mv2 >= 0
    pre: dv >= 0
    pre: sv >= 0
    post: __return__ == 'ok'
    """
    orc = Oracle()
    try:
        from sdc11073.mdib import descriptorcontainers as dc
        cm = k.mk_consumer(mv0, alerts=False, contexts=False)
        dmt = msg_types.DescriptionModificationType

        def mk(mod, mv, dv, sv):
            rep = msg_types.DescriptionModificationReport()
            rep.set_mdib_version_group(MdibVersionGroup(mv, k.SEQ, 1))
            part = rep.add_report_part()
            part.SourceMds = 'mds0'
            part.ParentDescriptor = 'ch0'
            handle = 'm9' if mod == 0 else 'm1'
            d = dc.StringMetricDescriptorContainer(handle, 'ch0')
            d.set_source_mds('mds0')
            d.DescriptorVersion = dv
            st = cm.data_model.get_state_class_for_descriptor(d)(d)
            st.StateVersion = sv
            st.DescriptorVersion = dv
            part.ModificationType = (dmt.CREATE, dmt.UPDATE, dmt.DELETE)[mod]
            part.Descriptor.append(d)
            if mod != 2:
                part.State.append(st)
            return rep

        def state_versions():
            with untraced():
                return {s.DescriptorHandle: s.StateVersion for s in cm.states.objects}

        for tag, mod, mv, dvx, svx in (('r1', mod1, mv1, dv, sv), ('r2', mod2, mv2, dv2, sv2)):
            pre_mv = cm.mdib_version
            with untraced():
                pre_handles = sorted(d.Handle for d in cm.descriptions.objects)
            pre_sv = state_versions()
            raised = False
            try:
                cm.process_incoming_description_modifications(MdibVersionGroup(mv, k.SEQ, 1), mk(mod, mv, dvx, svx))
            except Exception:  # noqa: BLE001
                raised = True
            # a duplicated / re-ordered report is an ordinary delivery fault: the handler must cope with it (an exception here
            # leaves reload_all in the middle of its replay, or drops the remaining parts of the report)
            orc.check(not raised, tag + ':description-report-makes-the-handler-fail')
            orc.check(cm.mdib_version >= pre_mv, tag + ':mdib-version-decreased')
            post_sv = state_versions()
            for h in pre_sv:
                if h in post_sv:
                    orc.check(post_sv[h] >= pre_sv[h], tag + ':state-version-decreased')
            with untraced():
                post_handles = sorted(d.Handle for d in cm.descriptions.objects)
            if mv < pre_mv:
                orc.check(cm.mdib_version == pre_mv and post_handles == pre_handles, tag + ':stale-description-report-applied')
            if raised:
                orc.check(post_handles == pre_handles, tag + ':rejected-report-changed-descriptors')
            orc.check(_indices_ok(cm), tag + ':index!=scan')
            with untraced():
                dangling = [s.DescriptorHandle for s in cm.states.objects if s.DescriptorHandle not in post_handles]
            orc.check(dangling == [], tag + ':state-without-descriptor')
    except Exception as ex:  # noqa: BLE001
        return exc_result(orc, ex)
    return orc.result()


def description_report_rekeys(mod: int, which: int, newkey: int, mv0: int, mv1: int, dv0: int, dv1: int) -> str:
    """
    One DescriptionModificationReport part (0 CREATE - a duplicate, or the DELETE before it was lost -, 1 UPDATE) for an alert
    descriptor the consumer ALREADY has (which 0: AlertSignal asig0, 1: AlertCondition ac0), arriving with another value of the
    attribute the tables index it by (ConditionSignaled / Source; newkey 0 same, 1 other, 2 none), any MdibVersion and
    DescriptorVersion: afterwards every index of the consumer tables equals a scan over the stored objects, and a report that is
    applied leaves the descriptor with the reported attribute.
    pre: 0 <= mod <= 1
    pre: 0 <= which <= 1
    pre: 0 <= newkey <= 2
    pre: mv0 >= 0
    pre: mv1 >= 0
    pre: dv0 >= 0
    pre: dv1 >= 0
    post: __return__ == 'ok'
    """
    orc = Oracle()
    try:
        from sdc11073.mdib import descriptorcontainers as dc
        mod, which, newkey = pick(mod, (0, 1)), pick(which, (0, 1)), pick(newkey, (0, 1, 2))
        cm = k.mk_consumer(mv0, alerts=True, contexts=False)
        dmt = msg_types.DescriptionModificationType
        handle = 'asig0' if which == 0 else 'ac0'
        with untraced():
            old = cm.descriptions.handle.get_one(handle)
            st0 = cm.states.descriptor_handle.get_one(handle, allow_none=True)
        old.DescriptorVersion = dv0
        if st0 is not None:
            st0.DescriptorVersion = dv0
        rep = msg_types.DescriptionModificationReport()
        rep.set_mdib_version_group(MdibVersionGroup(mv1, k.SEQ, 1))
        part = rep.add_report_part()
        part.SourceMds = 'mds0'
        part.ParentDescriptor = 'as0'
        if which == 0:
            d = dc.AlertSignalDescriptorContainer(handle, 'as0')
            d.ConditionSignaled = ('ac0', 'ac9', None)[newkey]
            want = d.ConditionSignaled
        else:
            d = dc.AlertConditionDescriptorContainer(handle, 'as0')
            d.Source = (['m0'], ['m1', 'm2'], [])[newkey]
            want = list(d.Source)
        d.set_source_mds('mds0')
        d.DescriptorVersion = dv1
        st = cm.data_model.get_state_class_for_descriptor(d)(d)
        st.DescriptorVersion = dv1
        part.ModificationType = (dmt.CREATE, dmt.UPDATE)[mod]
        part.Descriptor.append(d)
        part.State.append(st)
        pre_mv = cm.mdib_version
        try:
            cm.process_incoming_description_modifications(MdibVersionGroup(mv1, k.SEQ, 1), rep)
        except Exception:  # noqa: BLE001
            orc.fail('description-report-makes-the-handler-fail')
        orc.check(_indices_ok(cm), 'index!=scan')
        with untraced():
            now = cm.descriptions.handle.get_one(handle, allow_none=True)
            got = None if now is None else (now.ConditionSignaled if which == 0 else list(now.Source))
        orc.check(now is not None, 'descriptor-lost')
        if now is not None and mv1 >= pre_mv and dv1 > dv0:
            orc.check(got == want and now.DescriptorVersion == dv1, 'newer-descriptor-not-taken-over')
        if now is not None and mv1 < pre_mv:
            orc.check(now.DescriptorVersion == dv0, 'stale-description-report-applied')
    except Exception as ex:  # noqa: BLE001
        return exc_result(orc, ex)
    return orc.result()


def faulty_waveforms(mv0: int, sv0: int, mv1: int, sv1: int, mv2: int, sv2: int) -> str:
    """
    Two arbitrary WaveformStream notifications for one real-time sample array (any versions: in order, swapped, duplicates of
    each other, stale). Besides the per-state obligations, the consumer's waveform buffer - the data the application reads -
    holds the samples of exactly the notifications that were applied, once each and in the order of application.
    pre: mv0 >= 0
    pre: sv0 >= 0
    pre: mv1 >= 0
    pre: sv1 >= 0
    pre: mv2 >= 0
    pre: sv2 >= 0
    post: __return__ == 'ok'
    """
    orc = Oracle()
    try:
        if not _functional_vs_snapshot(mv0, sv0, mv1, sv1) or sv1 == sv0:
            return 'ok'
        if not _functional_vs_snapshot(mv0, sv0, mv2, sv2) or sv2 == sv0:
            return 'ok'
        if not _functional(mv1, sv1, mv2, sv2):
            return 'ok'
        from decimal import Decimal
        from sdc11073.mdib import descriptorcontainers as dc
        rtd = dc.RealTimeSampleArrayMetricDescriptorContainer('rt0', 'ch0')
        rtd.Resolution = Decimal('0.1')
        rtd.SamplePeriod = 0.01
        cm = k.mk_consumer(mv0, containers=[*_small_containers(False), rtd])
        st0 = cm.states.descriptor_handle.get_one('rt0')
        st0.StateVersion = sv0
        _watch(cm)
        expected = []
        for tag, mv, sv in (('w1', mv1, sv1), ('w2', mv2, sv2)):
            samples = [Decimal(1), Decimal(2)] if sv == sv1 else [Decimal(3), Decimal(4)]      # content = f(StateVersion)
            st = cm.data_model.get_state_class_for_descriptor(rtd)(rtd)
            st.StateVersion = sv
            st.mk_metric_value()
            st.MetricValue.Samples = samples
            st.MetricValue.DeterminationTime = 1700000000.0
            pre_mv = cm.mdib_version
            held = cm.states.descriptor_handle.get_one('rt0')
            pre = (held.StateVersion, None if held.MetricValue is None else list(held.MetricValue.Samples))
            del cm._verif_signalled[:]
            cm.process_incoming_waveform_states(MdibVersionGroup(mv, k.SEQ, 1), [st])
            held = cm.states.descriptor_handle.get_one('rt0')
            post = (held.StateVersion, None if held.MetricValue is None else list(held.MetricValue.Samples))
            orc.check(cm.mdib_version >= pre_mv and post[0] >= pre[0], tag + ':version-decreased')
            if mv < pre_mv or sv <= pre[0]:
                orc.check(post == pre, tag + ':stale-or-duplicate-waveform-applied')
                orc.check('rt0' not in cm._verif_signalled, tag + ':stale-or-duplicate-waveform-signalled-as-updated')
            else:
                orc.check(post == (sv, samples), tag + ':new-waveform-not-applied')
                expected.extend(samples)
            buf = cm.rt_buffers.get('rt0')
            got = [] if buf is None else [c.value for c in buf.rt_data]
            orc.check(got == expected, tag + ':waveform-buffer-differs-from-applied-notifications')
        orc.check(_indices_ok(cm), 'index!=scan')
    except Exception as ex:  # noqa: BLE001
        return exc_result(orc, ex)
    return orc.result()


class _GetService2:
    """GetMdib stub for reload_with_description_reports: delivers the in-flight notifications, answers with the small MDIB
    (+ m9 when the answer already contains the created metric)."""

    def __init__(self, cm, mv, with_m9, during):
        self.cm, self.mv, self.with_m9, self.during = cm, mv, with_m9, during

    def get_mdib(self):
        from sdc11073.mdib import descriptorcontainers as dc
        for fn in self.during:
            fn()
        ds = _small_containers(False)
        if self.with_m9:
            ds.append(dc.StringMetricDescriptorContainer('m9', 'ch0'))
        k.set_source_mds(ds)
        sts = k.mk_states(self.cm, ds)
        ctx = _ctx_state(self.cm, 0, 'getmdib', descr=[d for d in ds if d.Handle == 'pc0'][0])
        return types.SimpleNamespace(result=(ds, sts + [ctx]), mdib_version_group=MdibVersionGroup(self.mv, k.SEQ, 1))


def reload_with_description_reports(mvg: int, mv1: int, copies: int, state_first: bool, other_instance: bool, in_answer: bool) -> str:
    """
    reload_all / initial load while the DescriptionModificationReport that CREATES metric m9 (+ state) arrives during GetMdib:
    once or twice (copies), optionally preceded by the EpisodicMetricReport of the same transaction (the state report overtook
    the description report), optionally stemming from ANOTHER InstanceId of the provider; the GetMdib answer does or does not
    contain m9 already. The load ends initialized with the buffer drained, m9 is present iff it is in the answer or a report
    of this provider instance newer than the answer created it; no state without descriptor; indices consistent.
    pre: mvg >= 0
    pre: mv1 >= 0
    pre: 1 <= copies <= 2
    post: __return__ == 'ok'
    """
    orc = Oracle()
    try:
        from sdc11073.mdib import descriptorcontainers as dc
        if in_answer and mv1 > mvg:
            return 'ok'      # functional provider: an answer that already contains m9 is not older than its creation
        cm = k.mk_consumer(0, containers=_small_containers(False))
        cm._state = ConsumerMdibState.invalid
        vg = MdibVersionGroup(mv1, k.SEQ, 2 if other_instance else 1)
        dmt = msg_types.DescriptionModificationType

        def mk_descr_report():
            rep = msg_types.DescriptionModificationReport()
            rep.set_mdib_version_group(vg)
            part = rep.add_report_part()
            part.SourceMds, part.ParentDescriptor, part.ModificationType = 'mds0', 'ch0', dmt.CREATE
            d = dc.StringMetricDescriptorContainer('m9', 'ch0')
            d.set_source_mds('mds0')
            st = cm.data_model.get_state_class_for_descriptor(d)(d)
            part.Descriptor.append(d)
            part.State.append(st)
            return rep

        def mk_state_report():
            rep = msg_types.EpisodicMetricReport()
            rep.set_mdib_version_group(vg)
            part = rep.add_report_part()
            part.SourceMds = 'mds0'
            d = dc.StringMetricDescriptorContainer('m9', 'ch0')
            part.values_list.append(cm.data_model.get_state_class_for_descriptor(d)(d))
            return rep
        during = []
        if state_first:
            during.append(lambda: cm.process_incoming_metric_states_report(vg, mk_state_report()))
        for _ in range(pick(copies, (1, 2))):
            during.append(lambda: cm.process_incoming_description_modifications(vg, mk_descr_report()))
        svc = _GetService2(cm, mvg, in_answer, during)
        cm._sdc_client = types.SimpleNamespace(client=lambda name: svc, sdc_definitions=k.StubClient.sdc_definitions)
        try:
            cm.reload_all()
        except Exception as ex:  # noqa: BLE001
            orc.fail('reload_all-fails-on-buffered-report:' + type(ex).__name__)
        orc.check(cm._state == ConsumerMdibState.initialized, 'not-initialized-after-reload')
        orc.check(len(cm._buffered_notifications) == 0, 'buffer-not-drained')
        applied = (not other_instance) and mv1 > mvg
        with untraced():
            has_d = cm.descriptions.handle.get_one('m9', allow_none=True) is not None
            has_s = cm.states.descriptor_handle.get_one('m9', allow_none=True) is not None
        orc.check(has_d == (in_answer or applied), 'created-descriptor-presence-wrong-after-reload')
        orc.check(has_s == has_d, 'state-without-descriptor-or-descriptor-without-state')
        orc.check(cm.instance_id == 1 and cm.sequence_id == k.SEQ, 'identity-of-another-provider-instance-taken-over')
        orc.check(cm.mdib_version == (mv1 if applied else mvg), 'mdib-version-after-reload-wrong')
        orc.check(_indices_ok(cm), 'index!=scan')
    except Exception as ex:  # noqa: BLE001
        return exc_result(orc, ex)
    return orc.result()

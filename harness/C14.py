"""C14 harnesses: WS-Discovery matching (match_scope / matches_filter / filter_services), Probe / Resolve answers,
remote-service table arbitration and duplicate suppression (CrossHair, E1).

Scope URIs are COMPOSED from components chosen by symbolic selectors (scheme / authority with case variants, path segments
from an atom pool with hand-written decodings, query / fragment suffixes), so that the expected answer is computed from the
components without parsing anything.  Message histories are datagrams produced with the library's own message factory and
pushed through the real `NetworkingThread._run_q_read` -> `WSDiscovery.handle_received_message` of objects built without
sockets or threads.  Metadata versions in the table obligation are unconstrained symbolic ints.
"""
import collections
import queue
import threading

from vf.hutil import Oracle, exc_result, pick, quiet, untraced

quiet()
from lxml import etree  # noqa: E402
from sdc11073.namespaces import default_ns_helper as nsh  # noqa: E402
from sdc11073.wsdiscovery import networkingthread, wsdimpl  # noqa: E402
from sdc11073.wsdiscovery.common import message_reader  # noqa: E402
from sdc11073.wsdiscovery.service import Service  # noqa: E402
from sdc11073.wsdiscovery.wsdimpl import (  # noqa: E402
    MatchBy,
    WSDiscovery,
    filter_services,
    match_scope,
    matches_filter,
)
from sdc11073.xml_types import wsd_types  # noqa: E402
from sdc11073.xml_types.addressing_types import HeaderInformationBlock  # noqa: E402

URI_RULE = MatchBy.uri.value
STRCMP_RULE = MatchBy.strcmp.value
UNKNOWN_RULE = 'urn:verif:no-such-matching-rule'


# ------------------------------------------------------------------------------------------------ (a) match_scope
# path segment atoms with their percent-decoded value written out by hand (the reference never calls unquote)
ATOMS = ('a', 'A', '%41', 'a%2Fb', '', 'ab', 'b', '%2F', '%2f', '%61')
DECODED = {'a': 'a', 'A': 'A', '%41': 'A', 'a%2Fb': 'a/b', '': '', 'ab': 'ab', 'b': 'b', '%2F': '/', '%2f': '/', '%61': 'a'}
# (text, equivalence class under case-insensitive comparison)
SCHEMES = (('ab', 0), ('AB', 0), ('aB', 0), ('ac', 1), ('a', 2))
AUTHS = (('', 0), ('//h', 1), ('//H', 1), ('//hx', 2), ('//h:1', 3), ('//H:1', 3))
SCHEMES2 = (('ab', 0), ('Ab', 0), ('ac', 1))
AUTHS2 = (('', 0), ('//h', 1), ('//hx', 2), ('//H:1', 3))
SUFFIXES = ('', '?q', '?q=a/b', '#f', '#f/g', '?a/b#c/d')
HEADS = ('ab://h', 'ab:')   # fixed scheme/authority for the path obligations: with and without authority


def compose(scheme, auth, segs, suffix=''):
    return scheme + ':' + auth + ''.join('/' + s for s in segs) + suffix


def ambiguous_text(auth, segs):
    """No authority and a path starting with an empty segment followed by more: the text '//x' IS an authority (RFC 3986 3.3)."""
    return auth == '' and len(segs) >= 2 and segs[0] == ''


def ref_prefix(segs1, segs2):
    """(strict, lenient): decoded segments of scope 1 are a prefix of scope 2's; lenient ignores ONE trailing slash of scope 1."""
    d1 = [DECODED[s] for s in segs1]
    d2 = [DECODED[s] for s in segs2]
    strict = len(d1) <= len(d2) and d2[:len(d1)] == d1
    l1 = d1[:-1] if d1 and d1[-1] == '' else d1
    lenient = len(l1) <= len(d2) and d2[:len(l1)] == l1
    return strict, lenient


def classify_urlsplit(ex):
    """One label for the one failure condition 'urllib.parse.urlsplit rejects the text' (several messages, same cause)."""
    msg = str(ex)
    if isinstance(ex, ValueError) and ('IPv6' in msg or 'IPv4' in msg or 'netloc' in msg or 'IPvFuture' in msg
                                       or 'address' in msg):
        return 'raises:ValueError@match_scope(urlsplit-rejects-uri)'
    return None


def _check_uri_match(orc, u1, u2, rule, strict, lenient, tag):
    try:
        got = match_scope(u1, u2, rule)
    except Exception as ex:  # noqa: BLE001
        lab = classify_urlsplit(ex)
        if lab is None:
            raise
        orc.fail(lab)
        return
    orc.check(got is True or got is False, tag + ':result-not-bool')
    if strict == lenient:
        if strict:
            orc.check(got, tag + ':prefix-scope-not-matched')
        else:
            orc.check(not got, tag + ':non-prefix-scope-matched')
    # strict != lenient: only a trailing slash of the probe scope decides -> outside the claim, either answer accepted


def scope_path(head: int, na: int, n1: int, a1: int, a2: int, a3: int, n2: int, maxn2: int, b1: int, b2: int, b3: int) -> str:
    """
    Same scheme/authority, path segments of both scopes chosen from the atom pool.
    pre: 0 <= head < 2
    pre: 0 <= n1 <= 3
    pre: 0 <= n2 <= maxn2
    pre: 0 <= a1 < na
    pre: 0 <= a2 < na
    pre: 0 <= a3 < na
    pre: 0 <= b1 < na
    pre: 0 <= b2 < na
    pre: 0 <= b3 < na
    post: __return__ == 'ok'
    """
    pool = ATOMS[:na]
    r4 = (0, 1, 2, 3)
    h = pick(head, HEADS)
    n1, n2 = pick(n1, r4), pick(n2, r4[:maxn2 + 1])
    sel1, sel2 = (a1, a2, a3), (b1, b2, b3)
    segs1 = [pick(sel1[i], pool) for i in range(n1)]
    segs2 = [pick(sel2[i], pool) for i in range(n2)]
    with untraced():
        orc = Oracle()
        try:
            auth = '//h' if h == 'ab://h' else ''
            if ambiguous_text(auth, segs1) or ambiguous_text(auth, segs2):
                return 'ok'
            u1 = h + ''.join('/' + s for s in segs1)
            u2 = h + ''.join('/' + s for s in segs2)
            strict, lenient = ref_prefix(segs1, segs2)
            _check_uri_match(orc, u1, u2, URI_RULE, strict, lenient, 'path')
        except Exception as ex:  # noqa: BLE001
            return exc_result(orc, ex, 'match_scope')
        return orc.result()


HEAD_SEGS1 = ((), ('a',))
HEAD_SEGS2 = ((), ('a',), ('b',), ('a', 'b'))


def scope_head(s1: int, h1: int, s2: int, h2: int, p1: int, p2: int) -> str:
    """
    Scheme and authority of both scopes from pools with case variants; short fixed paths.
    pre: 0 <= s1 < 5
    pre: 0 <= h1 < 6
    pre: 0 <= s2 < 3
    pre: 0 <= h2 < 4
    pre: 0 <= p1 < 2
    pre: 0 <= p2 < 4
    post: __return__ == 'ok'
    """
    (st1, sc1), (at1, ac1) = pick(s1, SCHEMES), pick(h1, AUTHS)
    (st2, sc2), (at2, ac2) = pick(s2, SCHEMES2), pick(h2, AUTHS2)
    segs1, segs2 = pick(p1, HEAD_SEGS1), pick(p2, HEAD_SEGS2)
    with untraced():
        orc = Oracle()
        try:
            u1, u2 = compose(st1, at1, segs1), compose(st2, at2, segs2)
            if sc1 == sc2 and ac1 == ac2:
                strict, lenient = ref_prefix(segs1, segs2)
                _check_uri_match(orc, u1, u2, URI_RULE, strict, lenient, 'head-equal')
            else:
                got = match_scope(u1, u2, URI_RULE)
                orc.check(not got, 'different-scheme-matched' if sc1 != sc2 else 'different-authority-matched')
        except Exception as ex:  # noqa: BLE001
            return exc_result(orc, ex, 'match_scope')
        return orc.result()


SUF_SEGS = ((), ('a',), ('b',), ('a', 'a'), ('a', 'b'), ('b', 'a'), ('b', 'b'))


def scope_suffix(head: int, q1: int, q2: int, p1: int, p2: int) -> str:
    """
    Query and fragment (also containing slashes) must not take part in the comparison.
    pre: 0 <= head < 2
    pre: 0 <= q1 < 6
    pre: 0 <= q2 < 6
    pre: 0 <= p1 < 7
    pre: 0 <= p2 < 7
    post: __return__ == 'ok'
    """
    h = pick(head, HEADS)
    x1, x2 = pick(q1, SUFFIXES), pick(q2, SUFFIXES)
    segs1, segs2 = pick(p1, SUF_SEGS), pick(p2, SUF_SEGS)
    with untraced():
        orc = Oracle()
        try:
            u1 = h + ''.join('/' + s for s in segs1) + x1
            u2 = h + ''.join('/' + s for s in segs2) + x2
            strict, lenient = ref_prefix(segs1, segs2)
            _check_uri_match(orc, u1, u2, URI_RULE, strict, lenient, 'suffix')
        except Exception as ex:  # noqa: BLE001
            return exc_result(orc, ex, 'match_scope')
        return orc.result()


# (probe scope, service scope, rfc3986 answer) — answers written by hand
RULE_PAIRS = (('x:/a', 'x:/a', True), ('x:/a', 'X:/a/b', True), ('x:/a/b', 'x:/a', False), ('x:/a', 'x:/a%2Fb', False),
              ('x:/%41', 'x:/A/c', True), ('x:/a', 'y:/a', False), ('x://h/a', 'x://H/a/b?q', True))
RULES = (MatchBy.uri, URI_RULE, None, '', MatchBy.strcmp, STRCMP_RULE, UNKNOWN_RULE, 'rfc3986', 'strcmp0')


def scope_rules(pair: int, rule: int) -> str:
    """
    The matching rule selects the algorithm: rfc3986 (also the default when no rule is given), strcmp0 = exact, unknown = no match.
    pre: 0 <= pair < 7
    pre: 0 <= rule < 9
    post: __return__ == 'ok'
    """
    u1, u2, uri_answer = pick(pair, RULE_PAIRS)
    r = pick(rule, tuple(range(9)))
    with untraced():
        orc = Oracle()
        try:
            got = match_scope(u1, u2, RULES[r])
            if r < 4:
                orc.check(got == uri_answer, 'rfc3986-or-default-rule-wrong-answer')
            elif r < 6:
                orc.check(got == (u1 == u2), 'strcmp0-not-exact')
            else:
                orc.check(not got, 'unknown-rule-matched')
        except Exception as ex:  # noqa: BLE001
            return exc_result(orc, ex, 'match_scope')
        return orc.result()


def scope_strcmp(a: str, b: str, maxlen: int) -> str:
    """
    strcmp0 is exact string equality (hence symmetric, reflexive) on unconstrained strings.
    pre: len(a) <= maxlen
    pre: len(b) <= maxlen
    post: __return__ == 'ok'
    """
    orc = Oracle()
    try:
        got = match_scope(a, b, MatchBy.strcmp)
        orc.check(got == (a == b), 'strcmp0-not-exact')
        orc.check(match_scope(b, a, STRCMP_RULE) == got, 'strcmp0-not-symmetric')
        orc.check(match_scope(a, a, MatchBy.strcmp), 'strcmp0-not-reflexive')
    except Exception as ex:  # noqa: BLE001
        return exc_result(orc, ex, 'match_scope')
    return orc.result()


def scope_unknown_rule(a: str, b: str, rule: str, maxlen: int) -> str:
    """
    Any non-empty rule text that is not one of the defined rule URIs: no match, no exception, whatever the scopes are.
    pre: len(a) <= maxlen
    pre: len(b) <= maxlen
    pre: 1 <= len(rule) <= 3
    post: __return__ == 'ok'
    """
    orc = Oracle()
    try:
        orc.check(not match_scope(a, b, rule), 'unknown-rule-matched')
    except Exception as ex:  # noqa: BLE001
        return exc_result(orc, ex, 'match_scope')
    return orc.result()


def _plain(text):
    """Reflexivity is demanded for ASCII texts without brackets (everything else may be no URI at all: IPv6 literal syntax,
    NFKC-unstable host characters), totality for every text."""
    return text.isascii() and '[' not in text and ']' not in text


PARTNERS = ('ab://h/a', 'ab:/a/b', 'a', '//h?q')


def scope_laws_sym(a: str, partner: int, maxlen: int, ascii_only: bool = False) -> str:
    """
    Unconstrained symbolic scope text (optionally ASCII only): rfc3986 matching is total (never raises) and reflexive.
    pre: len(a) <= maxlen
    pre: a.isascii() or not ascii_only
    pre: 0 <= partner < 4
    post: __return__ == 'ok'
    """
    orc = Oracle()
    p = pick(partner, PARTNERS)
    try:
        try:
            r = match_scope(a, a, MatchBy.uri)
            orc.check(r or not _plain(a), 'rfc3986-not-reflexive')
            match_scope(a, p, MatchBy.uri)
            match_scope(p, a, MatchBy.uri)
        except ValueError as ex:
            lab = classify_urlsplit(ex)
            if lab is None:
                raise
            orc.fail(lab)
    except Exception as ex:  # noqa: BLE001
        return exc_result(orc, ex, 'match_scope')
    return orc.result()


HOSTILE = ('/', ':', '%', '[', ']', '?', '#', '@', 'a', 'A', '2', 'F', '.', '')


def scope_total_sel(c0: int, c1: int, c2: int, c3: int, n: int, partner: int) -> str:
    """
    Scope text of up to n characters from a hostile alphabet, chosen per character: matching is total and reflexive.
    pre: 0 <= c0 < 14
    pre: 0 <= c1 < 14
    pre: 0 <= c2 < 14
    pre: 0 <= c3 < 14
    pre: 0 <= partner < 4
    post: __return__ == 'ok'
    """
    sels = (c0, c1, c2, c3)
    a = ''.join([pick(sels[i], HOSTILE) for i in range(n)])
    p = pick(partner, PARTNERS)
    with untraced():
        orc = Oracle()
        try:
            try:
                orc.check(match_scope(a, a, MatchBy.uri) or not _plain(a), 'rfc3986-not-reflexive')
                match_scope(a, p, MatchBy.uri)
                match_scope(p, a, MatchBy.uri)
            except ValueError as ex:
                lab = classify_urlsplit(ex)
                if lab is None:
                    raise
                orc.fail(lab)
        except Exception as ex:  # noqa: BLE001
            return exc_result(orc, ex, 'match_scope')
        return orc.result()


# ------------------------------------------------------------------------------------------------ (b) matches_filter
T1, T2, T3 = etree.QName('urn:n1', 'T1'), etree.QName('urn:n1', 'T2'), etree.QName('urn:n1', 'T3')
T1B = etree.QName('urn:n2', 'T1')          # same local name, other namespace
SVC_TYPES = (None, (), (T1,), (T2,), (T1, T2), (T1B,))
PROBE_TYPES = (None, (), (T1,), (T2,), (T1, T2), (T2, T1), (T3,), (T1B,), (T1, T3))
F_URIS = ('x:/a', 'X:/a/b', 'x:/a%2Fb', 'y:/a')
# URI_M[i][j]: probe scope i matches service scope j under rfc3986 (written by hand)
URI_M = ((True, True, False, False), (False, True, False, False), (False, False, True, False), (False, False, False, True))
F_RULES = (None, URI_RULE, STRCMP_RULE, UNKNOWN_RULE)


def _scope_ok(rule, i, j):
    if rule in (None, URI_RULE):
        return URI_M[i][j]
    if rule == STRCMP_RULE:
        return i == j
    return False


def _mk_scopes(idx, rule=None):
    """idx: None -> no Scopes element; tuple of pool indices -> ScopesType with these URIs."""
    if idx is None:
        return None
    sc = wsd_types.ScopesType(match_by=rule)
    sc.text.extend(F_URIS[i] for i in idx)
    return sc


def ref_filter(svc_types, svc_scopes, probe_types, probe_scopes, rule):
    """True / False / None (None: service without Types meets a typed probe -> only 'does not raise' is demanded)."""
    verdict = True
    if probe_types:
        if svc_types is None:
            verdict = None
        elif not all(any(t.namespace == s.namespace and t.localname == s.localname for s in svc_types) for t in probe_types):
            return False
    if probe_scopes:
        offered = svc_scopes or ()
        if not all(any(_scope_ok(rule, i, j) for j in offered) for i in probe_scopes):
            return False
    return verdict


def _idx_opt(kind, i, j):
    """kind 0: None, 1: empty, 2: one entry, 3: two entries."""
    if kind == 0:
        return None
    if kind == 1:
        return ()
    if kind == 2:
        return (i,)
    return (i, j)


def _call_matches(orc, svc, ptypes, pscopes, where='matches_filter'):
    """Returns the real answer or None if the call raised (violation recorded)."""
    try:
        return matches_filter(svc, ptypes, pscopes)
    except TypeError:
        if svc.types is None and ptypes:
            orc.fail('raises:TypeError@matches_filter(service-without-types,typed-probe)')
            return None
        raise


def filter_types(st: int, pt: int, sc: int) -> str:
    """
    Types side of matches_filter: every requested type (namespace + local name) must be offered.
    pre: 0 <= st < 6
    pre: 0 <= pt < 9
    pre: 0 <= sc < 3
    post: __return__ == 'ok'
    """
    svc_types, probe_types = pick(st, SVC_TYPES), pick(pt, PROBE_TYPES)
    sc = pick(sc, (0, 1, 2))
    with untraced():
        orc = Oracle()
        try:
            svc_scopes = (0,)
            probe_scopes = (None, (0,), (3,))[sc]
            svc = Service(None if svc_types is None else list(svc_types), _mk_scopes(svc_scopes), ['http://h/x'], 'urn:e1', '7')
            ptypes = None if probe_types is None else list(probe_types)
            got = _call_matches(orc, svc, ptypes, _mk_scopes(probe_scopes, URI_RULE))
            exp = ref_filter(svc_types, svc_scopes, probe_types, probe_scopes, URI_RULE)
            if got is not None and exp is not None:
                orc.check(got or not exp, 'service-offering-all-types-and-scopes-rejected')
                orc.check(exp or not got, 'service-lacking-type-or-scope-accepted')
        except Exception as ex:  # noqa: BLE001
            return exc_result(orc, ex, 'matches_filter')
        return orc.result()


def filter_scopes(sk: int, si: int, sj: int, pk: int, pi: int, pj: int, rule: int) -> str:
    """
    Scopes side of matches_filter: every requested scope must be matched by some scope of the service under the probe's rule.
    pre: 0 <= sk < 4
    pre: 0 <= si < 4
    pre: 0 <= sj < 4
    pre: 0 <= pk < 4
    pre: 0 <= pi < 4
    pre: 0 <= pj < 4
    pre: 0 <= rule < 4
    post: __return__ == 'ok'
    """
    r4 = (0, 1, 2, 3)
    sk, pk, rule = pick(sk, r4), pick(pk, r4), pick(rule, r4)
    si = pick(si, r4) if sk >= 2 else 0
    sj = pick(sj, r4) if sk == 3 else 0
    pi = pick(pi, r4) if pk >= 2 else 0
    pj = pick(pj, r4) if pk == 3 else 0
    with untraced():
        orc = Oracle()
        try:
            svc_scopes, probe_scopes = _idx_opt(sk, si, sj), _idx_opt(pk, pi, pj)
            r = F_RULES[rule]
            svc = Service([T1], _mk_scopes(svc_scopes), ['http://h/x'], 'urn:e1', '7')
            got = matches_filter(svc, [T1], _mk_scopes(probe_scopes, r))
            exp = ref_filter((T1,), svc_scopes, (T1,), probe_scopes, r)
            orc.check(got or not exp, 'service-offering-all-types-and-scopes-rejected')
            orc.check(exp or not got, 'service-lacking-type-or-scope-accepted')
        except Exception as ex:  # noqa: BLE001
            return exc_result(orc, ex, 'matches_filter')
        return orc.result()


# prepared services for filter_services / Probe: (types, scope indices)
SVC_KINDS = (((T1,), (0,)), ((T1, T2), (1, 3)), ((T2,), (2,)), ((), None), (None, ()))
PROBES = ((None, None), ((), None), ((T1,), None), ((T2,), (0,)), ((T1,), (0,)), ((T1, T2), (0, 3)), (None, (2,)), ((T3,), None),
          ((T1,), (1,)))


def filter_list(ka: int, kb: int, kc: int, nk: int, p: int, rule: int) -> str:
    """
    filter_services returns exactly the matching services, in order (nk = number of service kinds used; the 5th has Types=None).
    pre: 0 <= ka < nk
    pre: 0 <= kb < nk
    pre: 0 <= kc < nk
    pre: 0 <= p < 9
    pre: 0 <= rule < 4
    post: __return__ == 'ok'
    """
    r5 = (0, 1, 2, 3, 4)[:nk]
    kinds = [pick(ka, r5), pick(kb, r5), pick(kc, r5)]
    p, rule = pick(p, tuple(range(9))), pick(rule, (0, 1, 2, 3))
    with untraced():
        orc = Oracle()
        try:
            r = F_RULES[rule]
            probe_types, probe_scopes = PROBES[p]
            svcs, exp = [], []
            for n, k in enumerate(kinds):
                types, scopes = SVC_KINDS[k]
                svcs.append(Service(None if types is None else list(types), _mk_scopes(scopes), [], f'urn:e{n}', '7'))
                exp.append(ref_filter(types, scopes, probe_types, probe_scopes, r))
            ptypes = None if probe_types is None else list(probe_types)
            try:
                got = filter_services(svcs, ptypes, _mk_scopes(probe_scopes, r))
            except TypeError:
                if any(s.types is None for s in svcs) and ptypes:
                    orc.fail('raises:TypeError@matches_filter(service-without-types,typed-probe)')
                    return orc.result()
                raise
            got_eprs = [s.epr for s in got]
            must = [s.epr for s, e in zip(svcs, exp) if e is True]
            may = [s.epr for s, e in zip(svcs, exp) if e is not False]
            orc.check(all(e in got_eprs for e in must), 'matching-service-missing-from-result')
            orc.check(all(e in may for e in got_eprs), 'non-matching-service-in-result')
            orc.check(got_eprs == [e for e in (s.epr for s in svcs) if e in got_eprs], 'result-order-or-duplicates')
        except Exception as ex:  # noqa: BLE001
            return exc_result(orc, ex, 'filter_services')
        return orc.result()


# ------------------------------------------------------------------------------------------------ socket-less WSDiscovery
class FakeStopEvent:
    """Stands in for NetworkingThread._quit_recv_event: 'stop' as soon as the read queue has been drained."""

    def __init__(self, q):
        self._q = q

    def is_set(self):
        return self._q.empty()


class Node:
    """A real WSDiscovery + real NetworkingThread object (made with __new__: no sockets, no threads)."""

    def __init__(self, maxlen=200):
        self.wsd = WSDiscovery('127.0.0.1')
        nt = networkingthread.NetworkingThread.__new__(networkingthread.NetworkingThread)
        nt._my_ip_address = '127.0.0.1'
        nt._wsd = self.wsd
        nt._logger = self.wsd._logger
        nt.multicast_port = 3702
        nt._quit_send_event = threading.Event()
        nt._send_queue = queue.PriorityQueue(10000)
        nt._read_queue = queue.Queue(10000)
        nt._quit_recv_event = FakeStopEvent(nt._read_queue)
        nt._known_message_ids = collections.deque(maxlen=maxlen)
        nt._own_message_ids = collections.deque()
        self.nt = nt
        self.wsd._networking_thread = nt
        self.wsd._server_started = True
        # spy: count dispatches, remember handler exceptions (the read loop swallows and logs them)
        self.handled = 0
        self.handler_errors = []
        real = self.wsd.handle_received_message

        def spy(received_message, addr_from):
            self.handled += 1
            try:
                return real(received_message, addr_from)
            except Exception as ex:  # noqa: BLE001
                self.handler_errors.append(ex)
                raise

        self.wsd.handle_received_message = spy

    def receive(self, data, addr=('192.0.2.7', 4711)):
        """One datagram through the real queue-reader loop body. Returns True iff it was dispatched to a handler."""
        before = self.handled
        self.nt._read_queue.put((addr, data))
        self.nt._run_q_read()
        return self.handled > before

    def outbound(self):
        """Distinct outbound messages currently queued (each is queued 1 + repeat times), in creation order."""
        seen, out = set(), []
        for item in sorted(self.nt._send_queue.queue, key=lambda e: (e.repeat, e.send_time)):
            if id(item.msg) not in seen:
                seen.add(id(item.msg))
                out.append(item.msg)
        return out

    def drain(self):
        while not self.nt._send_queue.empty():
            self.nt._send_queue.get()

    def table(self):
        return {epr: s.metadata_version for epr, s in self.wsd._remote_services.items()}


_DGRAMS = {}
D_TYPES = [T1]
D_XADDRS = ['http://192.0.2.7:1/x']
KINDS = ('hello', 'probematches', 'resolvematches', 'bye')


def dgram(kind, epr, version, mid, bare=False):
    """Datagram bytes built with the library's own message factory (cached; concrete arguments only)."""
    key = (kind, epr, version, mid, bare)
    if key in _DGRAMS:
        return _DGRAMS[key]
    if kind == 'hello':
        p = wsd_types.HelloType()
        p.EndpointReference.Address = epr
        p.MetadataVersion = version
        if not bare:
            p.Types, p.Scopes, p.XAddrs = list(D_TYPES), wsd_types.ScopesType('x:/a'), list(D_XADDRS)
    elif kind == 'bye':
        p = wsd_types.ByeType()
        p.EndpointReference.Address = epr
    elif kind == 'probematches':
        p = wsd_types.ProbeMatchesType()
        m = wsd_types.ProbeMatchType()
        m.EndpointReference.Address = epr
        m.MetadataVersion = version
        if not bare:
            m.Types, m.Scopes = list(D_TYPES), wsd_types.ScopesType('x:/a')
            m.XAddrs.extend(D_XADDRS)
        p.ProbeMatch.append(m)
    elif kind == 'resolvematches':
        p = wsd_types.ResolveMatchesType()
        m = wsd_types.ResolveMatchType()
        m.EndpointReference.Address = epr
        m.MetadataVersion = version
        if not bare:
            m.Types, m.Scopes = list(D_TYPES), wsd_types.ScopesType('x:/a')
            m.XAddrs.extend(D_XADDRS)
        p.ResolveMatch = m
    elif kind == 'resolve':
        p = wsd_types.ResolveType()
        p.EndpointReference.Address = epr
    else:
        raise ValueError(kind)
    data = _serialize(p, mid, app_sequence=kind not in ('resolve',))
    _DGRAMS[key] = data
    return data


def _serialize(payload, mid, app_sequence=True):
    inf = HeaderInformationBlock(action=payload.action, addr_to=wsdimpl.ADDRESS_ALL, message_id=mid)
    cm = wsdimpl._mk_wsd_soap_message(inf, payload)
    if app_sequence:
        aps = wsd_types.AppSequenceType()
        aps.InstanceId = 7
        aps.MessageNumber = 1
        cm.p_msg.add_header_element(aps.as_etree_node(nsh.WSD.tag('AppSequence'), ns_map=nsh.partial_map(nsh.WSD)))
    return cm.serialize()


def probe_dgram(types, scope_idx, rule, mid):
    key = ('probe', types, scope_idx, rule, mid)
    if key not in _DGRAMS:
        p = wsd_types.ProbeType()
        if types is not None:
            p.Types = list(types)
        if scope_idx is not None:
            p.Scopes = _mk_scopes(scope_idx, rule)
        _DGRAMS[key] = _serialize(p, mid, app_sequence=False)
    return _DGRAMS[key]


def read_back(out_msg):
    """Parse an outbound message with the library's reader (what a peer would see)."""
    return message_reader.read_received_message(out_msg.created_message.serialize(), validate=True)


# ------------------------------------------------------------------------------------------------ (c) remote table
EPRS3 = ('urn:e1', 'urn:e2', '')


def remote_versions(bye1: bool, e1: int, v1: int, bye2: bool, e2: int, v2: int, bye3: bool, e3: int, v3: int) -> str:
    """
    Three announcements / Byes over 2 endpoint references (+ one without EPR) with UNCONSTRAINED symbolic metadata versions,
    directly into the real _add_remote_service / _remove_remote_service.
    pre: 0 <= e1 < 3
    pre: 0 <= e2 < 3
    pre: 0 <= e3 < 3
    post: __return__ == 'ok'
    """
    orc = Oracle()
    try:
        wsd = WSDiscovery('127.0.0.1')
        best = {}      # epr -> (max version since last Bye, [announcements carrying that version])
        for n, (bye, e, v) in enumerate(((bye1, e1, v1), (bye2, e2, v2), (bye3, e3, v3))):
            epr = pick(e, EPRS3)
            if bye:
                wsd._remove_remote_service(epr)
                best.pop(epr, None)
            else:
                svc = Service(list(D_TYPES), wsd_types.ScopesType('x:/a'), [f'http://h/{n}'], epr, '7', metadata_version=v)
                wsd._add_remote_service(svc)
                if epr:
                    if epr not in best or v > best[epr][0]:
                        best[epr] = (v, [svc])
                    elif v == best[epr][0]:
                        best[epr][1].append(svc)
            table = wsd._remote_services
            orc.check('' not in table and None not in table, 'announcement-without-epr-stored')
            for known in ('urn:e1', 'urn:e2'):
                if known in best:
                    if not orc.check(known in table, 'announced-service-not-in-table'):
                        continue
                    stored = table[known]
                    orc.check(stored.epr == known, 'table-key-differs-from-stored-epr')
                    orc.check(not stored.metadata_version < best[known][0], 'stored-version-below-highest-seen-since-bye')
                    orc.check(not stored.metadata_version > best[known][0], 'stored-version-above-highest-seen-since-bye')
                    orc.check(any(stored is s for s in best[known][1]), 'stored-announcement-is-not-one-with-highest-version')
                else:
                    orc.check(known not in table, 'entry-survived-bye-or-appeared-unannounced')
    except Exception as ex:  # noqa: BLE001
        return exc_result(orc, ex, 'remote-table')
    return orc.result()


MIDS = ('urn:uuid:00000000-0000-0000-0000-00000000000a', 'urn:uuid:00000000-0000-0000-0000-00000000000b',
        'urn:uuid:00000000-0000-0000-0000-00000000000c')
EPRS2 = ('urn:e1', 'urn:e2')
VERSIONS = (1, 2, 3)


class TableModel:
    """Reference: per EPR the highest version since its last Bye; a message id is acted on once while remembered."""

    def __init__(self, maxlen):
        self.best = {}
        self.remembered = collections.deque(maxlen=maxlen)

    def expect_handled(self, mid):
        return mid not in self.remembered

    def apply(self, kind, epr, version, mid, own_messages=0):
        self.remembered.appendleft(mid)
        if kind == 'bye':
            self.best.pop(epr, None)
        else:
            self.best[epr] = max(self.best.get(epr, version), version)
        del own_messages     # ids of the node's own outbound messages are remembered separately (by age): they no longer
        #                      take room in the memory for received ids


def _step(node, model, orc, kind, epr, version, mid, bare, tag):
    before_table = node.table()
    before_out = len(node.outbound())
    expect = model.expect_handled(mid)
    handled = node.receive(dgram(kind, epr, version, mid, bare))
    orc.check(not node.handler_errors, tag + ':handler-raised')
    if expect:
        if orc.check(handled, tag + ':fresh-message-id-not-acted-on'):
            model.apply(kind, epr, version, mid, own_messages=len(node.outbound()) - before_out)
            # remembered afterwards - unless the node's own outbound ids (sent while handling it) already pushed it out
            orc.check((mid in node.nt._known_message_ids) or (mid not in model.remembered), tag + ':acted-on-id-not-remembered')
    else:
        orc.check(not handled, tag + ':remembered-message-id-acted-on-again')
        orc.check(node.table() == before_table, tag + ':duplicate-changed-table')
        orc.check(len(node.outbound()) == before_out, tag + ':duplicate-caused-send')
    got = node.table()
    for e in EPRS2:
        if e in model.best:
            if orc.check(e in got, tag + ':announced-service-not-in-table'):
                orc.check(not got[e] < model.best[e], tag + ':stored-version-below-highest-seen-since-bye')
                orc.check(not got[e] > model.best[e], tag + ':stored-version-above-highest-seen-since-bye')
        else:
            orc.check(e not in got, tag + ':entry-survived-bye-or-appeared-unannounced')
    orc.check(set(got) <= set(EPRS2), tag + ':unknown-epr-in-table')


def dgram_seq(k1: int, k2: int, k3: int, e2: int, e3: int, v1: int, v2: int, v3: int, m2: int, m3: int) -> str:
    """
    Three datagrams (kinds fixed per case) through _run_q_read -> handle_received_message: versions from {1,2,3}, the
    first names EPR e1 with message id A, the later ones any of 2 EPRs and any equality pattern of message ids.
    pre: 0 <= k1 < 4
    pre: 0 <= k2 < 4
    pre: 0 <= k3 < 4
    pre: 0 <= e2 < 2
    pre: 0 <= e3 < 2
    pre: 0 <= v1 < 3
    pre: 0 <= v2 < 3
    pre: 0 <= v3 < 3
    pre: 0 <= m2 < 2
    pre: 0 <= m3 < 3
    post: __return__ == 'ok'
    """
    r3 = (0, 1, 2)
    ks = [pick(k1, KINDS), pick(k2, KINDS), pick(k3, KINDS)]
    es = ['urn:e1', pick(e2, EPRS2), pick(e3, EPRS2)]
    vs = [pick(v1, VERSIONS) if ks[0] != 'bye' else 1, pick(v2, VERSIONS) if ks[1] != 'bye' else 1,
          pick(v3, VERSIONS) if ks[2] != 'bye' else 1]
    ms = [MIDS[0], pick(m2, MIDS[:2]), MIDS[pick(m3, r3)]]
    with untraced():
        orc = Oracle()
        try:
            node, model = Node(), TableModel(200)
            for n in range(3):
                _step(node, model, orc, ks[n], es[n], vs[n], ms[n], False, f'msg{n + 1}')
        except Exception as ex:  # noqa: BLE001
            return exc_result(orc, ex, 'dgram-seq')
        return orc.result()


ANNOUNCE = ('hello', 'probematches', 'resolvematches')


def dgram_bare(k1: int, k2: int, b1: bool, b2: bool, v1: int, v2: int, same: bool) -> str:
    """
    Two announcements, each possibly without Types / Scopes / XAddrs (the optional parts): table arbitration is unaffected.
    pre: 0 <= k1 < 3
    pre: 0 <= k2 < 3
    pre: 0 <= v1 < 3
    pre: 0 <= v2 < 3
    post: __return__ == 'ok'
    """
    ks = [pick(k1, ANNOUNCE), pick(k2, ANNOUNCE)]
    bs = [bool(b1), bool(b2)]
    vs = [pick(v1, VERSIONS), pick(v2, VERSIONS)]
    same = bool(same)
    with untraced():
        orc = Oracle()
        try:
            node, model = Node(), TableModel(200)
            _step(node, model, orc, ks[0], 'urn:e1', vs[0], MIDS[0], bs[0], 'msg1')
            _step(node, model, orc, ks[1], 'urn:e1' if same else 'urn:e2', vs[1], MIDS[1], bs[1], 'msg2')
        except Exception as ex:  # noqa: BLE001
            return exc_result(orc, ex, 'dgram-bare')
        return orc.result()


def dup_evict(m1: int, m2: int, m3: int, m4: int, m5: int, maxlen: int) -> str:
    """
    Five Hellos (versions 1..5, one EPR) whose message ids come from a pool of 3, on a node that remembers `maxlen` ids:
    an id is acted on iff it is not among the last `maxlen` ids acted on.
    pre: 0 <= m1 < 3
    pre: 0 <= m2 < 3
    pre: 0 <= m3 < 3
    pre: 0 <= m4 < 3
    pre: 0 <= m5 < 3
    post: __return__ == 'ok'
    """
    ms = [pick(m, MIDS) for m in (m1, m2, m3, m4, m5)]
    with untraced():
        orc = Oracle()
        try:
            node, model = Node(maxlen), TableModel(maxlen)
            for n, mid in enumerate(ms):
                _step(node, model, orc, 'hello', 'urn:e1', n + 1, mid, False, f'msg{n + 1}')
        except Exception as ex:  # noqa: BLE001
            return exc_result(orc, ex, 'dup-evict')
        return orc.result()


def dup_evict_outbound(m1: int, m2: int, m3: int, m4: int, b1: bool, b2: bool, b3: bool, b4: bool, maxlen: int) -> str:
    """
    Four Hellos (versions 1..4, one EPR, message ids from a pool of 3) on a node that remembers `maxlen` ids; a Hello may lack
    XAddrs (b*), which makes the node SEND a Resolve (own ids have a memory of their own): a received id must still be acted on
    iff it is not among the last `maxlen` ids the node received.
    pre: 0 <= m1 < 3
    pre: 0 <= m2 < 3
    pre: 0 <= m3 < 3
    pre: 0 <= m4 < 3
    post: __return__ == 'ok'
    """
    ms = [pick(m, MIDS) for m in (m1, m2, m3, m4)]
    bs = [bool(b1), bool(b2), bool(b3), bool(b4)]
    with untraced():
        orc = Oracle()
        try:
            node, model = Node(maxlen), TableModel(maxlen)
            for n, mid in enumerate(ms):
                _step(node, model, orc, 'hello', 'urn:e1', n + 1, mid, bs[n], f'msg{n + 1}')
        except Exception as ex:  # noqa: BLE001
            return exc_result(orc, ex, 'dup-evict-outbound')
        return orc.result()


GARBAGE = (b'', b'<', b'<a/>', b'\xff\xfe', b'<s:Envelope xmlns:s="http://www.w3.org/2003/05/soap-envelope"><s:Body/></s:Envelope>',
           b'not xml http://schemas.xmlsoap.org/ws/2005/04/discovery')


def dgram_garbage(g: int, pos: int, v1: int, v2: int) -> str:
    """
    A datagram that is not a valid discovery message (or is of the 2005/04 discovery version) between two Hellos is ignored:
    no exception leaves the reader, the table is what the two Hellos alone produce.
    pre: 0 <= g < 7
    pre: 0 <= pos < 3
    pre: 0 <= v1 < 3
    pre: 0 <= v2 < 3
    post: __return__ == 'ok'
    """
    g, pos = pick(g, tuple(range(7))), pick(pos, (0, 1, 2))
    vs = [pick(v1, VERSIONS), pick(v2, VERSIONS)]
    with untraced():
        orc = Oracle()
        try:
            node, model = Node(), TableModel(200)
            if g < 6:
                junk = GARBAGE[g]
            else:   # a well-formed Hello of the old discovery namespace
                junk = dgram('hello', 'urn:e2', 3, MIDS[2]).replace(b'http://docs.oasis-open.org/ws-dd/ns/discovery/2009/01',
                                                                   b'http://schemas.xmlsoap.org/ws/2005/04/discovery')
            n = 0
            for slot in range(3):
                if slot == pos:
                    before = node.table()
                    try:
                        handled = node.receive(junk)
                    except Exception as ex:  # noqa: BLE001
                        return exc_result(orc, ex, 'reader(invalid-datagram)')
                    orc.check(not handled, 'invalid-datagram-dispatched')
                    orc.check(node.table() == before, 'invalid-datagram-changed-table')
                if n < 2:
                    _step(node, model, orc, 'hello', 'urn:e1', vs[n], MIDS[n], False, f'msg{n + 1}')
                    n += 1
        except Exception as ex:  # noqa: BLE001
            return exc_result(orc, ex, 'dgram-garbage')
        return orc.result()


# ------------------------------------------------------------------------------------------------ (d) Probe / Resolve
PUB_KINDS = (((T1,), (0,)), ((T1, T2), (1, 3)), ((T2,), (2,)), ((), ()))
PROBE_T = ((), (T1,), (T2,), (T1, T2), (T3,))
SENDER = ('192.0.2.9', 5555)


OLD_NS_DECL = b' xmlns:wsd2005="http://schemas.xmlsoap.org/ws/2005/04/discovery"'


def probe_answer(ka: int, pt: int, pk: int, pi: int, pj: int, rule: int, decl: bool = False, race: bool = False) -> str:
    """
    Two services published through publish_service (A: kind by selector, B: types T1,T2 / scopes X:/a/b y:/a); one Probe
    datagram through the reader: ProbeMatches are queued for exactly the matching services, related to the Probe, to its sender.
    decl: the (valid 2009/01) Probe carries an unused namespace declaration that names the 2005/04 discovery namespace;
    race: while the Probe is matched, the application publishes a third service (the answer must name at least the services
    published before).
    pre: 0 <= ka < 4
    pre: 0 <= pt < 5
    pre: 0 <= pk < 4
    pre: 0 <= pi < 4
    pre: 0 <= pj < 4
    pre: 0 <= rule < 4
    post: __return__ == 'ok'
    """
    r4 = (0, 1, 2, 3)
    ka, pt, pk, rule = pick(ka, r4), pick(pt, (0, 1, 2, 3, 4)), pick(pk, r4), pick(rule, r4)
    pi = pick(pi, r4) if pk >= 2 else 0
    pj = pick(pj, r4) if pk == 3 else 0
    with untraced():
        orc = Oracle()
        try:
            node = Node()
            published = {'urn:pa': PUB_KINDS[ka], 'urn:pb': PUB_KINDS[1]}
            for epr, (types, scopes) in published.items():
                node.wsd.publish_service(epr, list(types), _mk_scopes(scopes), ['http://192.0.2.1/x'])
            node.drain()
            probe_types, probe_scopes, r = PROBE_T[pt], _idx_opt(pk, pi, pj), F_RULES[rule]
            data = probe_dgram(probe_types, probe_scopes, r, MIDS[0])
            if decl:
                i = data.index(b'Envelope') + len(b'Envelope')
                data = data[:i] + OLD_NS_DECL + data[i:]
            real_matches = wsdimpl.matches_filter
            if race:
                fired = []

                def racing(*a, **k):
                    if not fired:
                        fired.append(1)
                        node.wsd.publish_service('urn:pc', list(PUB_KINDS[1][0]), _mk_scopes(PUB_KINDS[1][1]), ['http://192.0.2.1/z'])
                    return real_matches(*a, **k)
                wsdimpl.matches_filter = racing
            try:
                handled = node.receive(data, SENDER)
            finally:
                wsdimpl.matches_filter = real_matches
            orc.check(handled and not node.handler_errors, 'probe-handler-raised-or-not-dispatched')
            expected = sorted(e for e, (t, s) in published.items() if ref_filter(t, s, probe_types, probe_scopes, r))
            answered = []
            for out in node.outbound():
                rm = read_back(out)
                if race and rm.action == wsd_types.HelloType.action:
                    continue        # the Hello of the service published meanwhile
                orc.check(rm.action == wsd_types.ProbeMatchesType.action, 'probe-caused-other-message-than-probematches')
                orc.check((out.addr, out.port) == SENDER, 'probematches-not-sent-to-prober')
                rel = rm.p_msg.header_info_block.RelatesTo
                orc.check(rel is not None and rel.text == MIDS[0], 'probematches-not-related-to-probe')
                for m in wsd_types.ProbeMatchesType.from_node(rm.p_msg.msg_node).ProbeMatch:
                    answered.append(m.EndpointReference.Address)
            orc.check(all(e in answered for e in expected), 'matching-published-service-not-in-probe-answer')
            orc.check(all(e in expected or (race and e == 'urn:pc') for e in answered), 'non-matching-service-in-probe-answer')
            orc.check(len(answered) == len(set(answered)), 'service-answered-twice')
        except Exception as ex:  # noqa: BLE001
            return exc_result(orc, ex, 'probe')
        return orc.result()


def resolve_answer(o1: int, o2: int, o3: int, r: int) -> str:
    """
    Three publish / clear operations on 2 EPRs, then a Resolve datagram for one of 3 EPRs: answered iff that EPR is published now.
    pre: 0 <= o1 < 5
    pre: 0 <= o2 < 5
    pre: 0 <= o3 < 5
    pre: 0 <= r < 3
    post: __return__ == 'ok'
    """
    r5 = (0, 1, 2, 3, 4)
    ops = [pick(o1, r5), pick(o2, r5), pick(o3, r5)]
    r = pick(r, (0, 1, 2))
    with untraced():
        orc = Oracle()
        try:
            node = Node()
            eprs = ('urn:pa', 'urn:pb', 'urn:pc')
            published = {}
            for op in ops:      # 0: nothing, 1/2: publish pa/pb, 3/4: clear pa/pb (only if published: precondition of clear_service)
                if op in (1, 2):
                    e = eprs[op - 1]
                    node.wsd.publish_service(e, [T1], _mk_scopes((0,)), ['http://192.0.2.1/x'])
                    published[e] = published.get(e, 0) + 1
                elif op in (3, 4) and eprs[op - 3] in published:
                    node.wsd.clear_service(eprs[op - 3])
                    del published[eprs[op - 3]]
            node.drain()
            target = eprs[r]
            handled = node.receive(dgram('resolve', target, 0, MIDS[0]), SENDER)
            orc.check(handled and not node.handler_errors, 'resolve-handler-raised-or-not-dispatched')
            outs = node.outbound()
            if target in published:
                if orc.check(len(outs) == 1, 'resolve-for-published-epr-not-answered-once'):
                    rm = read_back(outs[0])
                    orc.check(rm.action == wsd_types.ResolveMatchesType.action, 'resolve-answer-is-not-resolvematches')
                    match = wsd_types.ResolveMatchesType.from_node(rm.p_msg.msg_node).ResolveMatch
                    orc.check(match.EndpointReference.Address == target, 'resolvematches-for-other-epr')
                    rel = rm.p_msg.header_info_block.RelatesTo
                    orc.check(rel is not None and rel.text == MIDS[0], 'resolvematches-not-related-to-resolve')
                    orc.check((outs[0].addr, outs[0].port) == SENDER, 'resolvematches-not-sent-to-resolver')
            else:
                orc.check(len(outs) == 0, 'resolve-for-unpublished-epr-answered')
        except Exception as ex:  # noqa: BLE001
            return exc_result(orc, ex, 'resolve')
        return orc.result()


# percent-encoded path segments: equal iff the decoded OCTETS are equal (not: iff they decode to the same replacement characters)
OCTET_SEGS = ('%E4', '%F6', '%FF', '%FE', '%C3%A4', '\u00e4', '%80%81', '%C0%AF', 'a', '%61')


def scope_octets(i: int, j: int, deeper: bool) -> str:
    """
    match_scope(x:/p/<seg i>, x:/p/<seg j>[/q]) under the default rule for percent-encoded segments whose octets are not utf-8
    (latin-1 umlauts, 0xFF ...): match iff the decoded octets are equal.
    pre: 0 <= i < 10
    pre: 0 <= j < 10
    post: __return__ == 'ok'
    """
    from urllib.parse import unquote_to_bytes
    r10 = tuple(range(10))
    i, j, deeper = pick(i, r10), pick(j, r10), bool(deeper)
    with untraced():
        orc = Oracle()
        try:
            a, b = OCTET_SEGS[i], OCTET_SEGS[j]
            got = wsdimpl.match_scope('x:/p/' + a, 'x:/p/' + b + ('/q' if deeper else ''), None)
            want = unquote_to_bytes(a) == unquote_to_bytes(b)
            orc.check(got == want, 'different-octets-match' if got else 'equal-octets-do-not-match')
        except Exception as ex:  # noqa: BLE001
            return exc_result(orc, ex, 'octets')
        return orc.result()


def same_version_partial(k2: int, mode: int) -> str:
    """
    Hello(v1, Types + Scopes + XAddrs) followed by a ProbeMatches / ResolveMatches of the SAME metadata version that omits
    Types (mode 0), carries an empty Scopes element (1) or omits both (2): the recorded announcement still has what version 1
    announced, the service is still found by type and by scope.
    pre: 1 <= k2 <= 2
    pre: 0 <= mode <= 2
    post: __return__ == 'ok'
    """
    k2, mode = pick(k2, (1, 2)), pick(mode, (0, 1, 2))
    with untraced():
        orc = Oracle()
        try:
            node = Node()
            node.receive(dgram('hello', 'urn:e1', 1, MIDS[0]))
            kind = KINDS[k2]
            p = wsd_types.ProbeMatchesType() if kind == 'probematches' else wsd_types.ResolveMatchesType()
            m = wsd_types.ProbeMatchType() if kind == 'probematches' else wsd_types.ResolveMatchType()
            m.EndpointReference.Address = 'urn:e1'
            m.MetadataVersion = 1
            m.XAddrs.extend(D_XADDRS)
            if mode == 1:
                m.Types = list(D_TYPES)
            if mode in (1, 2):
                m.Scopes = wsd_types.ScopesType('')
            if mode == 0:
                m.Scopes = wsd_types.ScopesType('x:/a')
            if kind == 'probematches':
                p.ProbeMatch.append(m)
            else:
                p.ResolveMatch = m
            node.receive(_serialize(p, MIDS[1]))
            svc = node.wsd._remote_services.get('urn:e1')
            if not orc.check(svc is not None, 'service-lost'):
                return orc.result()
            orc.check(list(svc.types or []) == list(D_TYPES), 'recorded-types-erased-by-same-version-message')
            orc.check(svc.scopes is not None and list(svc.scopes.text) == ['x:/a'], 'recorded-scopes-erased-by-same-version-message')
        except Exception as ex:  # noqa: BLE001
            return exc_result(orc, ex, 'partial')
        return orc.result()

"""C17 harnesses: chunked framing is lossless and valid HTTP/1.1; content-coding negotiation honours q-values and local enablement.

  * mk_chunks (io.BytesIO replaced by the list-backed PyBytesIO) -> strict chunk-grammar recogniser -> HTTPReader._read_dechunk over
    FakeStream, body content SYMBOLIC (length and chunk size fixed per case, chunk size also symbolic above the body length),
  * _read_dechunk against an independent tolerant reference parser on structure-aware mutations of valid messages,
  * CompressionHandler.parse_header against an independent Accept-Encoding reference on headers composed by selectors,
  * DispatchingRequestHandler._compress_if_supported, SoapClient._send_soap_request and SoapClientAsync.async_post_message_to (coding
    choice, framing headers), each followed by the REAL decoding path (read_request_body / read_response_body).
zlib / lz4 run only on concrete payloads (codecs are C code: their losslessness is outside the solver's reach).
"""
import asyncio
from types import SimpleNamespace

from vf.hutil import Oracle, exc_result, pick, quiet, untraced

quiet()
from harness import httpstubs as hs  # noqa: E402
from harness.C13 import RecHandler, body_outcome, dechunk_outcome, mk_server, mut_case  # noqa: E402
from sdc11073.httpserver.compression import CompressionHandler  # noqa: E402
from sdc11073.httpserver.httpreader import HTTPReader, mk_chunks  # noqa: E402
from sdc11073.pysoap.soapclient import SoapClient  # noqa: E402
from sdc11073.pysoap.soapclient_async import SoapClientAsync  # noqa: E402

hs.install_pybytesio()


# ================================================================================================ chunk writer -> reader

def chunks_roundtrip(body: bytes, n: int, cs: int, lo: int) -> str:
    """
    mk_chunks(body, cs) is valid chunked framing whose data chunks are body cut into pieces of cs bytes, and _read_dechunk
    returns body from it, consuming the message exactly.
    pre: len(body) == n
    pre: 0 <= n <= 12
    pre: cs >= lo
    pre: lo >= 1
    post: __return__ == 'ok'
    """
    orc = Oracle()
    try:
        wire = mk_chunks(body, cs)
        ok, segs, end = hs.parse_chunked_strict(wire)
        orc.check(ok, 'mk_chunks:invalid-chunked-framing')
        orc.check(end == len(wire), 'mk_chunks:bytes-after-last-chunk')
        want = []
        pos = 0
        while pos < n:
            step = cs if cs < n - pos else n - pos
            want.append(step)
            pos += step
        orc.check([b - a for a, b in segs] == want, 'mk_chunks:wrong-chunk-sizes')
        orc.check(hs.payload_of(wire, segs) == body, 'mk_chunks:payload-differs')
        kind, got, st = dechunk_outcome(wire)
        if orc.check(kind == 'returned', 'roundtrip:dechunk-failed'):
            orc.check(got == body, 'roundtrip:decoded-differs')
            orc.check(st.pos == len(wire), 'roundtrip:message-not-consumed-exactly')
    except Exception as ex:  # noqa: BLE001
        return exc_result(orc, ex, 'roundtrip')
    return orc.result()


def dechunk_agrees(shape: int, kind: int, j: int, v: int, cut: int, nshape: int, combo: bool) -> str:
    """
    On structure-aware mutations of valid chunked messages _read_dechunk returns a body iff the tolerant reference parser does
    (same payload, same number of bytes consumed); every message the strict HTTP/1.1 recogniser accepts is accepted. A corrupt
    framing is never decoded to something else.
    pre: 0 <= shape < nshape
    pre: 0 <= nshape <= 13
    pre: 0 <= kind < 9
    pre: 0 <= j < 4
    pre: 0 <= v < 17
    pre: 0 <= cut < 60
    post: __return__ == 'ok'
    """
    wire, _ = mut_case(shape, kind, j, v, 2, cut, combo)
    with untraced():
        orc = Oracle()
        try:
            out, res, st = dechunk_outcome(wire)
            r_ok, r_payload, r_end = hs.ref_dechunk_lenient(wire)
            s_ok, s_segs, s_end = hs.parse_chunked_strict(wire)
            if s_ok:
                orc.check(out == 'returned', 'dechunk:valid-message-not-accepted')
            if out == 'returned':
                if orc.check(r_ok, 'dechunk:corrupt-framing-accepted'):
                    orc.check(res == r_payload, 'dechunk:payload-differs-from-reference')
                    orc.check(st.pos == r_end, 'dechunk:consumed-beyond-or-short-of-message')
            elif out == 'rejected':
                orc.check(not r_ok, 'dechunk:acceptable-message-rejected')
            # spin / unexpected exceptions are C13's subject: not judged here
        except Exception as ex:  # noqa: BLE001
            return exc_result(orc, ex, 'harness')
        return orc.result()


# ================================================================================================ Accept-Encoding parsing

NAMES = ('gzip', 'x-lz4', 'lz4', '*', 'identity', 'br')
WEIGHTS = ('', ';q=0', ';q=0.5', ';q=1', ';q=0.0', '; q=0', ';q=0.000', ' ;q=0.001', ';Q=0', ';q=1.0', ';q=0.9')
SEPS = (',', ', ', ' , ')


def ref_accept_encoding(header):
    """Independent reference (RFC 9110 12.5.3 / 12.4.2): -> list of (name, q) in header order; q = 1 without weight."""
    out = []
    if not header:
        return out
    for element in header.split(','):
        parts = [p.strip() for p in element.split(';')]
        name = parts[0]
        if not name:
            continue
        q = 1.0
        for p in parts[1:]:
            if p[:2].lower() == 'q=':
                q = float(p[2:])
        out.append((name, q))
    return out


def refused(ref, name):
    return any(n == name for n, q in ref) and all(q == 0 for n, q in ref if n == name)


def check_parsed(orc, header, parsed):
    ref = ref_accept_encoding(header)
    names = [n for n in parsed if n]
    orc.check(len(set(names)) == len(names), 'parse_header:duplicate-name')
    for n in names:
        if not orc.check(any(n == r for r, _ in ref), 'parse_header:name-not-in-header'):
            return
        orc.check(not refused(ref, n), 'parse_header:q0-coding-returned')
    for r, _ in ref:
        if all(q > 0 for n, q in ref if n == r):       # (a name listed both with q = 0 and q > 0 is ambiguous: not judged)
            orc.check(r in names, 'parse_header:acceptable-coding-dropped')
    uniq = {r: q for r, q in ref if sum(1 for x, _ in ref if x == r) == 1}
    qs = [uniq[n] for n in names if n in uniq]
    orc.check(all(qs[i] >= qs[i + 1] for i in range(len(qs) - 1)), 'parse_header:not-sorted-by-descending-q')


def mk_header(n0, w0, n1, w1, n2, w2, sep, count):
    items = [pick(n0, NAMES) + pick(w0, WEIGHTS)]
    if count > 1:
        items.append(pick(n1, NAMES) + pick(w1, WEIGHTS))
    if count > 2:
        items.append(pick(n2, NAMES) + pick(w2, WEIGHTS))
    return pick(sep, SEPS).join(items)


def parse_header_items(n0: int, w0: int, n1: int, w1: int, n2: int, w2: int, sep: int, count: int, nn: int, nw: int) -> str:
    """
    CompressionHandler.parse_header on `count` <= 3 comma separated codings, each a name with an optional weight (valid and sloppy
    spellings): no coding whose only weight is 0 is returned, every coding with non-zero weight is, order is by descending weight.
    pre: 0 <= n0 < nn
    pre: 0 <= n1 < nn
    pre: 0 <= n2 < nn
    pre: 0 <= w0 < nw
    pre: 0 <= w1 < nw
    pre: 0 <= w2 < nw
    pre: 0 <= sep < 3
    pre: 1 <= count <= 3
    pre: 1 <= nn <= 6
    pre: 1 <= nw <= 11
    post: __return__ == 'ok'
    """
    count = pick(count - 1, (1, 2, 3))
    header = mk_header(n0, w0, n1, w1, n2, w2, sep, count)
    with untraced():
        orc = Oracle()
        try:
            check_parsed(orc, header, CompressionHandler.parse_header(header))
        except Exception as ex:  # noqa: BLE001
            return exc_result(orc, ex, 'parse_header')
        return orc.result()


def parse_header_total(header: str, maxlen: int) -> str:
    """
    parse_header never raises and returns a list of str for ANY header text (symbolic str).
    pre: len(header) <= maxlen
    pre: 0 <= maxlen <= 6
    post: __return__ == 'ok'
    """
    orc = Oracle()
    try:
        res = CompressionHandler.parse_header(header)
        orc.check(isinstance(res, list), 'parse_header:result-not-list')
    except Exception as ex:  # noqa: BLE001
        return exc_result(orc, ex, 'parse_header')
    return orc.result()


# ================================================================================================ negotiation

PAYLOAD = b'<s12:Envelope>utf-8 ' + bytes(range(256)) + b'</s12:Envelope>'
SUPPORTED = ((), ('gzip',), ('x-lz4', 'lz4'), ('gzip', 'x-lz4', 'lz4'), ('lz4', 'gzip'))


def check_choice(orc, tag, chosen, ref, enabled):
    """the coding put into Content-Encoding: declared acceptable (q > 0), enabled locally, and no enabled+acceptable coding has a
    strictly higher (unambiguous) weight."""
    if chosen is None:
        return
    orc.check(chosen in enabled, tag + ':coding-not-enabled-locally')
    if not orc.check(any(chosen == r for r, _ in ref), tag + ':coding-never-offered'):
        return
    orc.check(not refused(ref, chosen), tag + ':q0-coding-used')
    uniq = {r: q for r, q in ref if sum(1 for x, _ in ref if x == r) == 1}
    if chosen in uniq:
        better = [r for r, q in uniq.items() if r in enabled and q > uniq[chosen]]
        orc.check(not better, tag + ':lower-weight-coding-preferred')


def negotiate_server(n0: int, w0: int, n1: int, w1: int, sep: int, count: int, sup: int, nn: int, nw: int) -> str:
    """
    _compress_if_supported: Content-Encoding is sent at most once, names a coding that the request's Accept-Encoding declared with
    q > 0 and that is in server.supported_encodings; the bytes returned decode to the response under that coding; with no such
    coding the response is sent unchanged.
    pre: 0 <= n0 < nn
    pre: 0 <= n1 < nn
    pre: 0 <= w0 < nw
    pre: 0 <= w1 < nw
    pre: 0 <= sep < 3
    pre: 0 <= count <= 2
    pre: 0 <= sup < 5
    pre: 1 <= nn <= 6
    pre: 1 <= nw <= 11
    post: __return__ == 'ok'
    """
    count = pick(count, (0, 1, 2))
    header = mk_header(n0, w0, n1, w1, 0, 0, sep, count) if count else None
    enabled = pick(sup, SUPPORTED)
    with untraced():
        orc = Oracle()
        try:
            pairs = [] if header is None else [('Accept-Encoding', header)]
            h = RecHandler('/k', hs.CIHeaders(pairs), hs.FakeStream(b''), mk_server(None, 0, enabled))
            out = h._compress_if_supported(PAYLOAD)
            ces = [r[2] for r in h.out if r[0] == 'header' and r[1] == 'content-encoding']
            orc.check(len(ces) <= 1, 'server:several-content-encodings')
            chosen = ces[0] if ces else None
            check_choice(orc, 'server', chosen, ref_accept_encoding(header), enabled)
            if chosen is None:
                orc.check(out == PAYLOAD, 'server:body-changed-without-content-encoding')
            elif chosen in CompressionHandler.available_encodings:
                orc.check(CompressionHandler.decompress_payload(chosen, out) == PAYLOAD, 'server:body-not-in-announced-coding')
        except Exception as ex:  # noqa: BLE001
            return exc_result(orc, ex, '_compress_if_supported')
        return orc.result()


class FakeConn:
    """http.client.HTTPConnection stand-in: records request(), getresponse() answers 200 with a 4-byte body."""

    def __init__(self):
        self.requests = []

    def request(self, method, path, body=None, headers=None):
        self.requests.append((method, path, body, dict(headers or {})))

    def getresponse(self):
        return hs.FakeResponse(hs.CIHeaders([('Content-Length', '4')]), hs.FakeStream(b'<r/>'))


class _AsyncResp:
    status, reason = 200, 'OK'

    async def text(self):
        return ''

    async def __aenter__(self):
        return self

    async def __aexit__(self, *a):
        return False


def _in_loop():
    try:
        asyncio.get_running_loop()
    except RuntimeError:
        return False
    return True


def _run_nested(coro):
    # post() is called from inside the client's coroutine: drive the (never really suspending) collector by hand
    try:
        while True:
            coro.send(None)
    except StopIteration:
        return


class FakeSession:
    """aiohttp.ClientSession stand-in: records post()."""

    def __init__(self):
        self.requests = []

    def post(self, path, data=None, headers=None, **_kw):
        # what aiohttp puts on the wire (documented behaviour): bytes are sent as one block with a Content-Length header that
        # aiohttp ADDS when the caller gave none; an async iterable is sent with chunked transfer encoding, one chunk per piece
        headers = dict(headers or {})
        low = {k.lower() for k in headers}
        if hasattr(data, '__aiter__'):
            pieces = []

            async def _collect():
                async for piece in data:
                    pieces.append(bytes(piece))
            asyncio.run(_collect()) if not _in_loop() else _run_nested(_collect())
            body = b''.join(b'%x\r\n' % len(x) + x + b'\r\n' for x in pieces if x) + b'0\r\n\r\n'
            if 'transfer-encoding' not in low:
                headers['Transfer-Encoding'] = 'chunked'
        else:
            body = data
            if 'content-length' not in low:
                headers['Content-Length'] = str(len(body))
        self.requests.append(('POST', path, body, headers))
        return _AsyncResp()


REQUEST_ENCODINGS = ((), ('gzip',), ('x-lz4',), ('lz4', 'gzip'), ('gzip', 'x-lz4'), ('bogus', 'gzip'), ('*', 'identity'), None)
CLIENT_SUPPORTED = (None, (), ('gzip',), ('x-lz4', 'lz4'), ('lz4', 'gzip'))
CHUNKS = (0, 1, 7, 512)


def send_request(use_async, supported, req_enc, chunk):
    """Build the REAL client (real __init__), plant a recording connection, send PAYLOAD. -> (client, request record)."""
    sup = None if supported is None else list(supported)
    renc = None if req_enc is None else list(req_enc)
    if use_async:
        cl = SoapClientAsync('h:1', 1.0, hs.NullLogger(), None, None, None, supported_encodings=sup, request_encodings=renc,
                             chunk_size=chunk)
        conn = FakeSession()
        cl._http_connection = conn
        msg = SimpleNamespace(p_msg=None, serialize=lambda request_manipulator=None: PAYLOAD)
        asyncio.run(cl.async_post_message_to('/p', msg))
    else:
        cl = SoapClient('h:1', 1.0, hs.NullLogger(), None, None, None, supported_encodings=sup, request_encodings=renc,
                        chunk_size=chunk)
        conn = FakeConn()
        cl._http_connection = conn
        cl._send_soap_request('/p', PAYLOAD, 'msg')
    return cl, conn.requests


def check_sent(orc, tag, requests, enabled, offered_ref, chunk):
    """one request; coding choice; framing headers; the REAL server-side reader recovers PAYLOAD from what was sent."""
    if not orc.check(len(requests) == 1, tag + ':not-exactly-one-request'):
        return
    _, _, body, headers = requests[0]
    low = {k.lower(): v for k, v in headers.items()}
    orc.check(len(low) == len(headers), tag + ':duplicate-header')
    chosen = low.get('content-encoding')
    check_choice(orc, tag, chosen, offered_ref, enabled)
    if chunk > 0:
        orc.check(low.get('transfer-encoding') == 'chunked' and 'content-length' not in low, tag + ':chunked-not-announced')
        ok, segs, end = hs.parse_chunked_strict(body)
        orc.check(ok and end == len(body), tag + ':invalid-chunked-framing')
        orc.check(all(b - a <= chunk for a, b in segs), tag + ':chunk-larger-than-chunk-size')
    else:
        orc.check(low.get('content-length') == str(len(body)) and 'transfer-encoding' not in low, tag + ':content-length-mismatch')
    st = hs.FakeStream(body)
    kind, got = body_outcome(HTTPReader.read_request_body, hs.FakeMessage(hs.CIHeaders(list(headers.items())), st), st, None)
    orc.check(kind == 'returned' and got == PAYLOAD, tag + ':receiver-does-not-recover-payload')
    orc.check(st.pos == len(body), tag + ':receiver-leaves-bytes-unread')


def negotiate_client(use_async: bool, renc: int, sup: int, chunk: int) -> str:
    """
    SoapClient._send_soap_request / SoapClientAsync.async_post_message_to: the request is coded with the first of request_encodings
    (what the peer accepts) that is enabled locally (supported_encodings), else sent plain; Accept-Encoding lists exactly the enabled
    codings; Content-Length xor chunked framing matches the body; read_request_body recovers the payload.
    pre: 0 <= renc < 8
    pre: 0 <= sup < 5
    pre: 0 <= chunk < 4
    post: __return__ == 'ok'
    """
    use_async = bool(use_async)
    req_enc, supported, chunk = pick(renc, REQUEST_ENCODINGS), pick(sup, CLIENT_SUPPORTED), pick(chunk, CHUNKS)
    with untraced():
        orc = Oracle()
        tag = 'async-client' if use_async else 'client'
        try:
            cl, requests = send_request(use_async, supported, req_enc, chunk)
            enabled = list(CompressionHandler.available_encodings) if supported is None else list(supported)
            offered = [(n, 1.0) for n in (req_enc or ())]
            check_sent(orc, tag, requests, enabled, offered, chunk)
            if requests:
                headers = {k.lower(): v for k, v in requests[0][3].items()}
                chosen = headers.get('content-encoding')
                first = [n for n in (req_enc or ()) if n in enabled]
                orc.check(chosen == (first[0] if first else None), tag + ':not-first-acceptable-enabled-coding')
                ae = headers.get('accept-encoding')
                got = [] if ae is None else [x.strip() for x in ae.split(',')]
                if use_async:   # the async client reads the response through aiohttp, which decodes gzip / deflate only
                    orc.check(got == [e for e in enabled if e.lower() in ('gzip', 'deflate')], tag + ':accept-encoding-offers-a-coding-it-cannot-decode')
                else:
                    orc.check(got == enabled, tag + ':accept-encoding-differs-from-enabled')
        except Exception as ex:  # noqa: BLE001
            return exc_result(orc, ex, tag)
        return orc.result()


def negotiate_notify(n0: int, w0: int, n1: int, w1: int, sep: int, count: int, sup: int, chunk: int, nn: int, nw: int) -> str:
    """
    Provider notification path: Accept-Encoding of the Subscribe request -> CompressionHandler.parse_header (as in
    SubscriptionsManager) -> request_encodings of the notifying SoapClient -> _send_soap_request: the notification is only coded
    with a coding the subscriber declared with q > 0 and that is enabled locally.
    pre: 0 <= n0 < nn
    pre: 0 <= n1 < nn
    pre: 0 <= w0 < nw
    pre: 0 <= w1 < nw
    pre: 0 <= sep < 3
    pre: 0 <= count <= 2
    pre: 0 <= sup < 5
    pre: 0 <= chunk < 4
    pre: 1 <= nn <= 6
    pre: 1 <= nw <= 11
    post: __return__ == 'ok'
    """
    count = pick(count, (0, 1, 2))
    header = mk_header(n0, w0, n1, w1, 0, 0, sep, count) if count else None
    supported, chunk = pick(sup, CLIENT_SUPPORTED), pick(chunk, CHUNKS)
    with untraced():
        orc = Oracle()
        try:
            accepted = CompressionHandler.parse_header(header)
            cl, requests = send_request(False, supported, accepted, chunk)
            enabled = list(CompressionHandler.available_encodings) if supported is None else list(supported)
            check_sent(orc, 'notify', requests, enabled, ref_accept_encoding(header), chunk)
        except Exception as ex:  # noqa: BLE001
            return exc_result(orc, ex, 'notify')
        return orc.result()


# ================================================================================================ coded bodies: request / response path

CODINGS = (None, 'gzip', 'x-lz4', 'lz4')
CE_VARIANTS = ('GZIP', 'Gzip', 'gzip ', 'identity', 'deflate', 'br', 'x-gzip', 'gzip, gzip', 'bogus')
SE = (None, (), ('gzip',), ('x-lz4', 'lz4'), ('gzip', 'x-lz4', 'lz4'))


def _coded(coding, payload, corrupt):
    data = payload if coding is None else CompressionHandler.compress_payload(coding, payload)
    if corrupt == 1:
        data = data[:-1] if data else b'x'
    elif corrupt == 2:
        data = data[:3] + bytes([data[3] ^ 0x55]) + data[4:] if len(data) > 4 else b'x' + data
    return data


def coded_body(response: bool, coding: int, variant: int, se: int, framing: int, corrupt: int) -> str:
    """
    read_request_body / read_response_body on a body in a registered coding (intact or corrupted), or announced with an
    unsupported / misspelled Content-Encoding: intact + supported -> the original bytes; unsupported or corrupt -> rejected by
    an exception; whatever is returned equals the original bytes.
    pre: 0 <= coding < 5
    pre: 0 <= variant < 9
    pre: 0 <= se < 5
    pre: 0 <= framing < 3
    pre: 0 <= corrupt < 3
    post: __return__ == 'ok'
    """
    response = bool(response)
    coding = pick(coding, CODINGS + ('other',))
    ce = pick(variant, CE_VARIANTS) if coding == 'other' else coding
    se = pick(se, SE)
    framing = pick(framing, (0, 1, 2) if response else (0, 1))    # a request without length and chunking has no body
    corrupt = pick(corrupt, (0, 1, 2)) if coding not in (None, 'other') else 0
    with untraced():
        orc = Oracle()
        try:
            data = _coded(None if coding == 'other' else coding, PAYLOAD, corrupt)
            pairs = [] if ce is None else [('Content-Encoding', ce)]
            wire = data
            if framing == 0:
                pairs.append(('Content-Length', str(len(data))))
            elif framing == 1:
                pairs.append(('Transfer-Encoding', 'chunked'))
                if not response:        # (a response has already been de-chunked by the http client)
                    wire = mk_chunks(data, 7)
            st = hs.FakeStream(wire)
            if response:
                kind, got = body_outcome(HTTPReader.read_response_body, hs.FakeResponse(hs.CIHeaders(pairs), st), st, se)
            else:
                kind, got = body_outcome(HTTPReader.read_request_body, hs.FakeMessage(hs.CIHeaders(pairs), st), st, se)
            tag = 'response' if response else 'request'
            registered = ce in CompressionHandler.available_encodings
            must_accept = ce is None or (registered and corrupt == 0 and (se is None or ce in se))
            if kind == 'returned':
                orc.check(got == PAYLOAD, tag + ':misinterpreted')
                orc.check(ce is None or registered, tag + ':unsupported-coding-accepted')
                orc.check(corrupt == 0, tag + ':corrupt-coding-accepted')
            elif kind in ('rejected', 'codec-rejected'):
                orc.check(not must_accept, tag + ':intact-supported-body-rejected')
            # spin / unexpected exception types are C13's subject
        except Exception as ex:  # noqa: BLE001
            return exc_result(orc, ex, 'harness')
        return orc.result()


def response_roundtrip(coding: int, sup: int, chunk: int, method: int) -> str:
    """
    do_POST / do_GET response as written to the socket (status recorder, real _compress_if_supported + mk_chunks), de-chunked the
    way an HTTP client does (strict recogniser), then the REAL read_response_body: the consumer recovers the response bytes.
    pre: 0 <= coding < 4
    pre: 0 <= sup < 5
    pre: 0 <= chunk < 4
    pre: 0 <= method < 2
    post: __return__ == 'ok'
    """
    from harness.C13 import KEY, RESP, PathElementRegistry, mk_component
    ae = pick(coding, (None, 'gzip', 'x-lz4;q=0.5, gzip;q=0.1', 'lz4;q=0.3, gzip'))
    enabled = pick(sup, SUPPORTED)
    chunk = pick(chunk, CHUNKS)
    method = pick(method, ('POST', 'GET'))
    with untraced():
        orc = Oracle()
        try:
            comp = mk_component(0, True, 0, 0, False)[0]
            registry = PathElementRegistry()
            registry.register_instance(KEY, comp)
            pairs = [('Content-Length', '4')]
            if ae is not None:
                pairs.append(('Accept-Encoding', ae))
            h = RecHandler('/k/?wsdl', hs.CIHeaders(pairs), hs.FakeStream(b'<x/>'), mk_server(registry, chunk, enabled))
            (h.do_POST if method == 'POST' else h.do_GET)()
            hdrs = [(r[1], r[2]) for r in h.out if r[0] == 'header']
            body = h.wfile.value()
            low = dict(hdrs)
            if low.get('transfer-encoding') == 'chunked':
                ok, segs, end = hs.parse_chunked_strict(body)
                if not orc.check(ok and end == len(body), 'response:invalid-chunked-framing'):
                    return orc.result()
                orc.check(all(b - a <= chunk for a, b in segs), 'response:chunk-larger-than-chunk-size')
                body = hs.payload_of(body, segs)
            else:
                orc.check(low.get('content-length') == str(len(body)), 'response:content-length-mismatch')
            check_choice(orc, 'response', low.get('content-encoding'), ref_accept_encoding(ae), enabled)
            st = hs.FakeStream(body)
            kind, got = body_outcome(HTTPReader.read_response_body, hs.FakeResponse(hs.CIHeaders(hdrs), st), st, None)
            orc.check(kind == 'returned' and got == RESP, 'response:consumer-does-not-recover-payload')
        except Exception as ex:  # noqa: BLE001
            return exc_result(orc, ex, 'harness')
        return orc.result()


AE_POOL = (None, 'gzip', 'gzip;q=0', 'identity', 'x-lz4;q=0.5, gzip;q=0.1', 'bogus')


def keepalive_negotiation(ae1: int, ae2: int, sup: int, chunk: int, m1: int, m2: int) -> str:
    """
    Two requests served by ONE handler instance (http.server uses one instance for all requests of a keep-alive connection;
    parse_request replaces self.headers / self.path per request): the coding of the second response is negotiated from the
    SECOND request's Accept-Encoding, whatever the first request said; each response is recoverable by the real reader.
    pre: 0 <= ae1 < 6
    pre: 0 <= ae2 < 6
    pre: 0 <= sup < 5
    pre: 0 <= chunk < 4
    pre: 0 <= m1 < 2
    pre: 0 <= m2 < 2
    post: __return__ == 'ok'
    """
    from harness.C13 import KEY, RESP, PathElementRegistry, mk_component
    a1, a2 = pick(ae1, AE_POOL), pick(ae2, AE_POOL)
    enabled = pick(sup, SUPPORTED)
    chunk = pick(chunk, CHUNKS)
    methods = (pick(m1, ('POST', 'GET')), pick(m2, ('POST', 'GET')))
    with untraced():
        orc = Oracle()
        try:
            comp = mk_component(0, True, 0, 0, False)[0]
            registry = PathElementRegistry()
            registry.register_instance(KEY, comp)
            h = RecHandler('/k/?wsdl', hs.CIHeaders([]), hs.FakeStream(b''), mk_server(registry, chunk, enabled))
            for tag, ae, method in (('first', a1, methods[0]), ('second', a2, methods[1])):
                pairs = [('Content-Length', '4')]
                if ae is not None:
                    pairs.append(('Accept-Encoding', ae))
                # what handle_one_request / parse_request do for the next request on the connection
                h.headers, h.path, h.rfile = hs.CIHeaders(pairs), '/k/?wsdl', hs.FakeStream(b'<x/>')
                h.out, h.wfile = [], hs.ListWriter()
                (h.do_POST if method == 'POST' else h.do_GET)()
                hdrs = [(r[1], r[2]) for r in h.out if r[0] == 'header']
                body = h.wfile.value()
                low = dict(hdrs)
                if low.get('transfer-encoding') == 'chunked':
                    ok, segs, end = hs.parse_chunked_strict(body)
                    if not orc.check(ok and end == len(body), tag + ':invalid-chunked-framing'):
                        return orc.result()
                    body = hs.payload_of(body, segs)
                check_choice(orc, tag, low.get('content-encoding'), ref_accept_encoding(ae), enabled)
                st = hs.FakeStream(body)
                kind, got = body_outcome(HTTPReader.read_response_body, hs.FakeResponse(hs.CIHeaders(hdrs), st), st, None)
                orc.check(kind == 'returned' and got == RESP, tag + ':consumer-does-not-recover-payload')
        except Exception as ex:  # noqa: BLE001
            return exc_result(orc, ex, 'harness')
        return orc.result()


# ================================================================================================ concatenated / trailing data

def codec_concatenation(codec: int, case: int, n1: int, n2: int) -> str:
    """
    decompress_payload of the registered codings (0 gzip, 1 x-lz4) on data that is MORE than one compressed unit:
    case 0 two members / frames (valid: RFC 1952 2.2 allows several gzip members) -> the concatenation of both payloads;
    1 one unit followed by garbage -> rejected; 2 one unit followed by a truncated second unit -> rejected;
    3 one unit alone (control). Payload sizes by selector. A decoder that silently stops after the first unit misinterprets
    the message instead of rejecting it.
    pre: 0 <= codec < 2
    pre: 0 <= case < 4
    pre: 0 <= n1 < 3
    pre: 0 <= n2 < 3
    post: __return__ == 'ok'
    """
    codec, case = pick(codec, (0, 1)), pick(case, (0, 1, 2, 3))
    n1, n2 = pick(n1, (0, 1, 300)), pick(n2, (0, 1, 300))
    with untraced():
        orc = Oracle()
        try:
            name = ('gzip', 'x-lz4')[codec]
            if name not in CompressionHandler.available_encodings:
                return 'ok'
            a, b = b'<a>' + b'x' * n1 + b'</a>', b'<b>' + b'y' * n2 + b'</b>'
            ca, cb = CompressionHandler.compress_payload(name, a), CompressionHandler.compress_payload(name, b)
            data, want = {0: (ca + cb, a + b), 1: (ca + b'\x00garbage', None), 2: (ca + cb[:len(cb) // 2], None), 3: (ca, a)}[case]
            try:
                got = CompressionHandler.decompress_payload(name, data)
            except Exception:  # noqa: BLE001
                orc.check(want is None, 'valid_coded_body_rejected:' + name)
                return orc.result()
            if want is None:
                orc.fail('corrupt_coded_body_accepted:' + name)
            else:
                orc.check(got == want, 'decoded_body_differs_from_original:' + name)
        except Exception as ex:  # noqa: BLE001
            return exc_result(orc, ex, 'codec')
        return orc.result()

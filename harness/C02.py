"""C02 harnesses: MDIB version counters are monotonic, gap-free (MdibVersion) and referentially consistent (CrossHair, E1).

One provider transaction (1-2 operations on related objects, classic or entity interface) from a pre-state whose version
counters are symbolic naturals; the oracle compares before/after version maps and content snapshots of the REAL ProviderMdib.
"""
from vf.hutil import Oracle, exc_result, pick, quiet, untraced

quiet()

from sdc11073.mdib import descriptorcontainers as dc  # noqa: E402
from sdc11073.xml_types import pm_types  # noqa: E402

from harness import mdibkit as k  # noqa: E402

CA = pm_types.ContextAssociation


def _versions(pm):
    """{('d'|'s'|'c', handle): version counter}"""
    out = {}
    for d in k.descrs(pm):
        out[('d', d.Handle)] = d.DescriptorVersion
    for s in k.single_states(pm):
        out[('s', s.DescriptorHandle)] = s.StateVersion
    for s in k.ctx_states(pm):
        out[('c', s.Handle)] = s.StateVersion
    return out


_VERSION_PROPS = ('DescriptorVersion', 'StateVersion')


def _content(pm):
    """{key: canonical content WITHOUT the object's own version counter and the referenced DescriptorVersion}"""
    def strip(c):
        return tuple(x for x in k.canon_container(c) if not (isinstance(x, tuple) and len(x) == 2 and x[0] in _VERSION_PROPS))
    out = {}
    for d in k.descrs(pm):
        out[('d', d.Handle)] = strip(d)
    for s in k.single_states(pm):
        out[('s', s.DescriptorHandle)] = strip(s)
    for s in k.ctx_states(pm):
        out[('c', s.Handle)] = strip(s)
    return out


def _mk(dv, sv, mv, pdv, target='m0', parent='ch0'):
    pm, cap = k.mk_provider(mv)
    d = pm.descriptions.handle.get_one(target)
    d.DescriptorVersion = dv
    st = pm.states.descriptor_handle.get_one(target)
    st.DescriptorVersion = dv
    st.StateVersion = sv
    p = pm.descriptions.handle.get_one(parent)
    p.DescriptorVersion = pdv
    ps = pm.states.descriptor_handle.get_one(parent)
    ps.DescriptorVersion = pdv
    lc = pm.descriptions.handle.get_one('lc0')
    pm.add_state_containers([k.mk_context_state(pm, lc, 'lcs0', CA.ASSOCIATED, binding=0, sv=sv),
                             k.mk_context_state(pm, lc, 'lcs1', CA.DISASSOCIATED, binding=0, unbinding=0, sv=sv)])
    return pm, cap


def _new_metric(pm, handle, parent='ch0'):
    nd = dc.StringMetricDescriptorContainer(handle, parent)
    nd.Unit = pm_types.CodedValue('u')
    nd.MetricCategory = pm_types.MetricCategory.MEASUREMENT
    nd.MetricAvailability = pm_types.MetricAvailability.CONTINUOUS
    ns = pm.data_model.get_state_class_for_descriptor(nd)(nd)
    return nd, ns


def _judge(pm, orc, mv, pre_v, pre_c, expect_change, touched=None):
    """Common oracle. touched: keys the transaction may legitimately change (None = any)."""
    post_v, post_c = _versions(pm), _content(pm)
    if expect_change:
        orc.check(pm.mdib_version == mv + 1, 'mdib-version-not-incremented-by-one')
    else:
        orc.check(pm.mdib_version == mv, 'mdib-version-changed-without-change')
    for key, old in pre_v.items():
        if key in post_v:
            new = post_v[key]
            orc.check(new >= old, 'version-decreased:' + key[0])
            changed = post_c[key] != pre_c[key]
            if changed:
                orc.check(new > old, 'content-changed-without-version-increase:' + key[0])
            if touched is not None and key not in touched:
                orc.check(new == old and not changed, 'untouched-object-changed:' + key[0])
    with untraced():
        idx_ok = k.index_snapshot(pm) == k.index_scan(pm)
    orc.check(idx_ok, 'index!=scan')
    for lab in k.referential_integrity(pm):
        orc.fail(lab)


def state_tx(kind: int, n: int, dv: int, sv: int, mv: int, val: str) -> str:
    """
    State transactions (0 metric, 1 alert, 2 component, 3 context get, 4 context new, 5 metric via entity interface,
    6 context via entity interface) with n in {0 empty, 1 one state, 2 aborted by an exception after the modification}.
    pre: 0 <= kind <= 6
    pre: 0 <= n <= 2
    pre: dv >= 0
    pre: sv >= 0
    pre: mv >= 0
    pre: len(val) <= 2
    post: __return__ == 'ok'
    """
    orc = Oracle()
    try:
        target = {0: 'm0', 1: 'ac0', 2: 'vmd0', 5: 'm0'}.get(kind, 'm0')
        pm, cap = _mk(dv, sv, mv, 0, target=target, parent='mds0')
        pre_v, pre_c = _versions(pm), _content(pm)
        touched = set()

        class Abort(Exception):
            pass
        try:
            if kind == 0:
                with pm.metric_state_transaction(set_determination_time=False) as tr:
                    if n:
                        st = tr.get_state('m0')
                        st.mk_metric_value()
                        st.MetricValue.Value = val
                        touched.add(('s', 'm0'))
                    if n == 2:
                        raise Abort
            elif kind == 1:
                with pm.alert_state_transaction(set_determination_time=False) as tr:
                    if n:
                        st = tr.get_state('ac0')
                        st.Presence = True
                        touched.add(('s', 'ac0'))
                    if n == 2:
                        raise Abort
            elif kind == 2:
                with pm.component_state_transaction() as tr:
                    if n:
                        st = tr.get_state('vmd0')
                        st.OperatingCycles = 3
                        touched.add(('s', 'vmd0'))
                    if n == 2:
                        raise Abort
            elif kind == 3:
                with pm.context_state_transaction() as tr:
                    if n:
                        st = tr.get_context_state('lcs0')
                        st.LocationDetail = pm_types.LocationDetail(bed=val)   # nested in-place writes are C03's subject
                        touched.add(('c', 'lcs0'))
                    if n == 2:
                        raise Abort
            elif kind == 4:
                with pm.context_state_transaction() as tr:
                    if n:
                        st = tr.mk_context_state('lc0', 'lcs9')
                        st.LocationDetail.Bed = val
                    if n == 2:
                        raise Abort
            elif kind == 5:
                ent = pm.entities.by_handle('m0')
                ent.state.mk_metric_value()
                ent.state.MetricValue.Value = val
                with pm.metric_state_transaction(set_determination_time=False) as tr:
                    if n:
                        tr.write_entity(ent)
                        touched.add(('s', 'm0'))
                    if n == 2:
                        raise Abort
            else:
                ent = pm.entities.by_handle('lc0')
                ent.states['lcs0'].LocationDetail.Bed = val
                with pm.context_state_transaction() as tr:
                    if n:
                        tr.write_entity(ent, ['lcs0'])
                        touched.add(('c', 'lcs0'))
                    if n == 2:
                        raise Abort
        except Abort:
            pass
        committed = n == 1
        _judge(pm, orc, mv, pre_v, pre_c, committed, touched if committed else set())
        if committed:
            for key in touched:
                orc.check(_versions(pm)[key] == pre_v[key] + 1, 'state-version-not-incremented-by-one')
            orc.check(len(cap.sent) >= 1, 'no-report-for-committed-transaction')
        else:
            orc.check(len(cap.sent) == 0, 'report-sent-without-commit')
    except Exception as ex:  # noqa: BLE001
        return exc_result(orc, ex)
    return orc.result()


def descr_tx(iface: int, op1: int, op2: int, dv: int, sv: int, mv: int, pdv: int, op3: int = 0) -> str:
    """
    Descriptor transaction with two operations on related objects (m0, its parent ch0, sibling m1, new child m9), through the
    classic (iface 0) or the entity interface (iface 1).
    op: 0 none, 1 update descriptor m0, 2 update state of m0 (classic: needs op1 == 1 before), 3 update parent ch0,
        4 create m9 (+state) under ch0, 5 remove m1, 6 remove m0, 7 remove the parent ch0 (with its subtree),
        8 remove the context descriptor lc0 (it owns TWO context states), 9 create a second child m8 (+state) under ch0.
    An optional third operation op3 (thorough tier; 0 = none).
    pre: 0 <= iface <= 1
    pre: 0 <= op1 <= 9
    pre: 0 <= op2 <= 9
    pre: 0 <= op3 <= 9
    pre: dv >= 0
    pre: sv >= 0
    pre: mv >= 0
    pre: pdv >= 0
    post: __return__ == 'ok'
    """
    orc = Oracle()
    try:
        pm, cap = _mk(dv, sv, mv, pdv)
        pre_v, pre_c = _versions(pm), _content(pm)
        rejected = False
        did = []
        try:
            with pm.descriptor_transaction() as tr:
                for op in (op1, op2, op3):
                    if op == 0:
                        continue
                    if op == 1:
                        if iface == 0:
                            d = tr.get_descriptor('m0')
                            d.SafetyClassification = pm_types.SafetyClassification.MED_A
                        else:
                            ent = pm.entities.by_handle('m0')
                            ent.descriptor.SafetyClassification = pm_types.SafetyClassification.MED_A
                            tr.write_entity(ent)
                    elif op == 2:
                        if iface == 0:
                            st = tr.get_state('m0')
                            st.mk_metric_value()
                            st.MetricValue.Value = 'x'
                        else:
                            ent = pm.entities.by_handle('m0')
                            ent.state.mk_metric_value()
                            ent.state.MetricValue.Value = 'x'
                            tr.write_entity(ent)
                    elif op == 3:
                        if iface == 0:
                            d = tr.get_descriptor('ch0')
                            d.SafetyClassification = pm_types.SafetyClassification.MED_B
                        else:
                            ent = pm.entities.by_handle('ch0')
                            ent.descriptor.SafetyClassification = pm_types.SafetyClassification.MED_B
                            tr.write_entity(ent)
                    elif op in (4, 9):
                        nh = 'm9' if op == 4 else 'm8'
                        if iface == 0:
                            nd, ns = _new_metric(pm, nh)
                            tr.add_descriptor(nd, state_container=ns)
                        else:
                            ent = pm.entities.new_entity(pm.data_model.pm_names.StringMetricDescriptor, nh, 'ch0')
                            ent.descriptor.Unit = pm_types.CodedValue('u')
                            ent.descriptor.MetricCategory = pm_types.MetricCategory.MEASUREMENT
                            ent.descriptor.MetricAvailability = pm_types.MetricAvailability.CONTINUOUS
                            tr.write_entity(ent)
                    elif op == 5:
                        if iface == 0:
                            tr.remove_descriptor('m1')
                        else:
                            tr.remove_entity(pm.entities.by_handle('m1'))
                    elif op == 6:
                        if iface == 0:
                            tr.remove_descriptor('m0')
                        else:
                            tr.remove_entity(pm.entities.by_handle('m0'))
                    elif op == 7:
                        if iface == 0:
                            tr.remove_descriptor('ch0')
                        else:
                            tr.remove_entity(pm.entities.by_handle('ch0'))
                    else:
                        if iface == 0:
                            tr.remove_descriptor('lc0')
                        else:
                            tr.remove_entity(pm.entities.by_handle('lc0'))
                    did.append(op)
        except Exception:  # noqa: BLE001 - the API rejected a call: whatever it raised, the transaction must have no effect
            rejected = True
        if rejected or not did:
            _judge(pm, orc, mv, pre_v, pre_c, False, set())
            orc.check(len(cap.sent) == 0, 'report-sent-without-commit')
        else:
            _judge(pm, orc, mv, pre_v, pre_c, True, None)
            post_v = _versions(pm)
            if 4 in did and 7 not in did:
                orc.check(('d', 'm9') in post_v and ('s', 'm9') in post_v, 'created-entity-missing')
            if 5 in did:
                orc.check(('d', 'm1') not in post_v and ('s', 'm1') not in post_v, 'removed-entity-still-present')
            if 6 in did:
                orc.check(('d', 'm0') not in post_v and ('s', 'm0') not in post_v, 'removed-entity-still-present')
            if (4 in did or 5 in did or 6 in did or 9 in did) and 7 not in did:
                orc.check(('d', 'ch0') in post_v and post_v[('d', 'ch0')] > pdv, 'parent-version-not-increased-on-child-add-remove')
            # what the transaction PUBLISHES: per descriptor a strictly increasing sequence of versions that ends at the MDIB's
            published = {}
            for d in list(pm.transaction.descr_created) + list(pm.transaction.descr_updated):
                published.setdefault(d.Handle, []).append(d.DescriptorVersion)
            for h in sorted(published):
                vs = published[h]
                for a_, b_ in zip(vs, vs[1:]):
                    orc.check(b_ > a_, 'published-descriptor-versions-not-increasing')
                if ('d', h) in post_v:
                    orc.check(vs[-1] == post_v[('d', h)], 'last-published-descriptor-version!=mdib')
                if ('d', h) in pre_v:
                    orc.check(vs[0] > pre_v[('d', h)], 'published-descriptor-version-not-new')
            if 7 in did:
                for h in ('ch0', 'm0', 'm1', 'm9', 'm8'):
                    orc.check(('d', h) not in post_v and ('s', h) not in post_v, 'removed-subtree-still-present')
                orc.check(post_v[('d', 'vmd0')] > pre_v[('d', 'vmd0')], 'parent-version-not-increased-on-child-add-remove')
            # objects the transaction did not name and that are not the parent keep version and content
            if 8 in did:
                orc.check(('d', 'lc0') not in post_v and ('c', 'lcs0') not in post_v and ('c', 'lcs1') not in post_v,
                          'removed-context-descriptor-or-its-states-still-present')
            named = {('d', 'm0'), ('s', 'm0'), ('d', 'ch0'), ('s', 'ch0'), ('d', 'm1'), ('s', 'm1'), ('d', 'm9'), ('s', 'm9'), ('d', 'm8'), ('s', 'm8'),
                     ('d', 'vmd0'), ('s', 'vmd0'), ('d', 'lc0'), ('c', 'lcs0'), ('c', 'lcs1'), ('d', 'sc0'), ('s', 'sc0')}
            post_c = _content(pm)
            for key, old in pre_v.items():
                if key not in named:
                    orc.check(key in post_v and post_v[key] == old and post_c[key] == pre_c[key], 'unnamed-object-changed:' + key[0])
    except Exception as ex:  # noqa: BLE001
        return exc_result(orc, ex)
    return orc.result()


def recreate(iface: int, has_saved: bool, saved_d: int, saved_s: int, ndv: int, nsv: int, mv: int, ctx: bool) -> str:
    """
    A handle that existed before (its last versions are remembered by the MDIB: saved_d / saved_s) is created again with
    application-chosen initial counters ndv / nsv: the published counters must be greater than the remembered ones.
    ctx: the same for a context state handle created again through a context transaction.
    pre: 0 <= iface <= 1
    pre: saved_d >= 0
    pre: saved_s >= 0
    pre: ndv >= 0
    pre: nsv >= 0
    pre: mv >= 0
    post: __return__ == 'ok'
    """
    orc = Oracle()
    try:
        pm, cap = k.mk_provider(mv)
        if ctx:
            if has_saved:
                pm.context_states.handle_version_lookup['lcs9'] = saved_s
            if iface == 0:
                with pm.context_state_transaction() as tr:
                    tr.mk_context_state('lc0', 'lcs9')
            else:
                ent = pm.entities.by_handle('lc0')
                st = ent.new_state('lcs9')
                st.StateVersion = nsv
                with pm.context_state_transaction() as tr:
                    tr.write_entity(ent, ['lcs9'])
            st = pm.context_states.handle.get_one('lcs9')
            if has_saved:
                orc.check(st.StateVersion > saved_s, 'recreated-context-state-version-not-greater')
        else:
            if has_saved:
                pm.descriptions.handle_version_lookup['m9'] = saved_d
                pm.states.handle_version_lookup['m9'] = saved_s
            with pm.descriptor_transaction() as tr:
                if iface == 0:
                    nd, ns = _new_metric(pm, 'm9')
                    nd.DescriptorVersion = ndv
                    ns.StateVersion = nsv
                    tr.add_descriptor(nd, state_container=ns)
                else:
                    ent = pm.entities.new_entity(pm.data_model.pm_names.StringMetricDescriptor, 'm9', 'ch0')
                    ent.descriptor.Unit = pm_types.CodedValue('u')
                    ent.descriptor.MetricCategory = pm_types.MetricCategory.MEASUREMENT
                    ent.descriptor.MetricAvailability = pm_types.MetricAvailability.CONTINUOUS
                    ent.descriptor.DescriptorVersion = ndv
                    ent.state.StateVersion = nsv
                    tr.write_entity(ent)
            d = pm.descriptions.handle.get_one('m9')
            s = pm.states.descriptor_handle.get_one('m9')
            if has_saved:
                orc.check(d.DescriptorVersion > saved_d, 'recreated-descriptor-version-not-greater')
                orc.check(s.StateVersion > saved_s, 'recreated-state-version-not-greater')
            orc.check(s.DescriptorVersion == d.DescriptorVersion, 'state-descriptor-version-mismatch')
        orc.check(pm.mdib_version == mv + 1, 'mdib-version-not-incremented-by-one')
        for lab in k.referential_integrity(pm):
            orc.fail(lab)
    except Exception as ex:  # noqa: BLE001
        return exc_result(orc, ex)
    return orc.result()


def delete_saves_version(iface: int, dv: int, sv: int, mv: int, aborted_attempt: bool) -> str:
    """
    Deleting a descriptor (and its state) remembers the last versions, so that delete -> create in two transactions yields
    greater counters (the two-step history, both interfaces). aborted_attempt: between the two, a transaction that re-creates
    the handle is ABORTED (it must not use up the remembered versions).
    pre: 0 <= iface <= 1
    pre: dv >= 0
    pre: sv >= 0
    pre: mv >= 0
    post: __return__ == 'ok'
    """
    orc = Oracle()
    try:
        pm, cap = _mk(dv, sv, mv, 0)
        with pm.descriptor_transaction() as tr:
            if iface == 0:
                tr.remove_descriptor('m0')
            else:
                tr.remove_entity(pm.entities.by_handle('m0'))
        orc.check(pm.mdib_version == mv + 1, 'mdib-version-not-incremented-by-one')
        if aborted_attempt:
            class _Abort(Exception):
                pass
            try:
                with pm.descriptor_transaction() as tr:
                    if iface == 0:
                        nd, ns = _new_metric(pm, 'm0')
                        tr.add_descriptor(nd, state_container=ns)
                    else:
                        ent = pm.entities.new_entity(pm.data_model.pm_names.StringMetricDescriptor, 'm0', 'ch0')
                        tr.write_entity(ent)
                    raise _Abort
            except _Abort:
                pass
            orc.check(pm.mdib_version == mv + 1, 'mdib-version-changed-without-change')
        with pm.descriptor_transaction() as tr:
            if iface == 0:
                nd, ns = _new_metric(pm, 'm0')
                tr.add_descriptor(nd, state_container=ns)
            else:
                ent = pm.entities.new_entity(pm.data_model.pm_names.StringMetricDescriptor, 'm0', 'ch0')
                ent.descriptor.Unit = pm_types.CodedValue('u')
                ent.descriptor.MetricCategory = pm_types.MetricCategory.MEASUREMENT
                ent.descriptor.MetricAvailability = pm_types.MetricAvailability.CONTINUOUS
                tr.write_entity(ent)
        d = pm.descriptions.handle.get_one('m0')
        s = pm.states.descriptor_handle.get_one('m0')
        orc.check(d.DescriptorVersion > dv, 'recreated-descriptor-version-not-greater')
        orc.check(s.StateVersion > sv, 'recreated-state-version-not-greater')
        orc.check(pm.mdib_version == mv + 2, 'mdib-version-not-incremented-by-one')
        for lab in k.referential_integrity(pm):
            orc.fail(lab)
    except Exception as ex:  # noqa: BLE001
        return exc_result(orc, ex)
    return orc.result()


def stale_entity_write(kind: int, dv: int, sv: int, ev: int, esv: int, mv: int) -> str:
    """
    An entity copy that is OUTDATED (obtained earlier: its own counters ev / esv are lower than or equal to the MDIB's dv / sv)
    is written back with changed content: the published counters must still exceed the ones the MDIB held before.
    kind 0: descriptor transaction, single-state entity m0; 1: metric state transaction; 2: context transaction (multi-state
    entity lc0, state lcs0); 3: descriptor transaction, multi-state entity lc0.
    pre: 0 <= kind <= 3
    pre: dv >= 0
    pre: sv >= 0
    pre: 0 <= ev <= dv
    pre: 0 <= esv <= sv
    pre: mv >= 0
    post: __return__ == 'ok'
    """
    orc = Oracle()
    try:
        target = 'm0' if kind in (0, 1) else 'lc0'
        pm, cap = _mk(dv, sv, mv, 0, target='m0', parent='ch0')
        if kind in (2, 3):
            d = pm.descriptions.handle.get_one('lc0')
            d.DescriptorVersion = dv
            for st in k.ctx_states(pm):
                if st.DescriptorHandle == 'lc0':
                    st.DescriptorVersion = dv
        ent = pm.entities.by_handle(target)
        # make the copy look as it looked when it was read earlier
        ent.descriptor.DescriptorVersion = ev
        if kind in (0, 1):
            ent.state.StateVersion = esv
            ent.state.DescriptorVersion = ev
            ent.state.mk_metric_value()
            ent.state.MetricValue.Value = 'new'
        else:
            ent.states['lcs0'].StateVersion = esv
            ent.states['lcs0'].DescriptorVersion = ev
            ent.states['lcs0'].LocationDetail = pm_types.LocationDetail(bed='new')
        pre_v = _versions(pm)
        if kind == 0:
            ent.descriptor.SafetyClassification = pm_types.SafetyClassification.MED_A
            with pm.descriptor_transaction() as tr:
                tr.write_entity(ent)
        elif kind == 1:
            with pm.metric_state_transaction(set_determination_time=False) as tr:
                tr.write_entity(ent)
        elif kind == 2:
            with pm.context_state_transaction() as tr:
                tr.write_entity(ent, ['lcs0'])
        else:
            ent.descriptor.SafetyClassification = pm_types.SafetyClassification.MED_A
            with pm.descriptor_transaction() as tr:
                tr.write_entity(ent)
        post_v = _versions(pm)
        orc.check(pm.mdib_version == mv + 1, 'mdib-version-not-incremented-by-one')
        for key, old in pre_v.items():
            if key in post_v:
                orc.check(post_v[key] >= old, 'version-decreased:' + key[0])
        if kind in (0, 3):
            orc.check(post_v[('d', target)] > pre_v[('d', target)], 'content-changed-without-version-increase:d')
        if kind in (0, 1):
            orc.check(post_v[('s', 'm0')] > pre_v[('s', 'm0')], 'content-changed-without-version-increase:s')
        else:
            orc.check(post_v[('c', 'lcs0')] > pre_v[('c', 'lcs0')], 'content-changed-without-version-increase:c')
        for lab in k.referential_integrity(pm):
            orc.fail(lab)
    except Exception as ex:  # noqa: BLE001
        return exc_result(orc, ex)
    return orc.result()


def stale_object_after_removal(kind: int, dv: int, sv: int, mv: int, pdv: int) -> str:
    """
    An object obtained BEFORE a transaction removed what it depends on is written afterwards - whatever the library does
    (reject the call / the commit, or accept it), the MDIB stays referentially consistent and counters never go back:
    0 entity of m0 obtained, then ch0 (its parent) removed, then write_entity(entity) in a descriptor transaction;
    1 new_entity('m9' below ch0) made, ch0 removed, write_entity; 2 descriptor copy + state of m0 taken, ch0 removed,
    add_descriptor(copy, state); 3 context state for lc0 built with mk_state_container, lc0 UPDATED, add_state in a context
    transaction (the state must carry the descriptor's current version); 4 the same with lc0 REMOVED in between;
    5 ONE descriptor transaction removes lc0 and creates a context descriptor lc9 whose state re-uses the handle lcs0
    (entity interface); 6 the same through add_descriptor / add_state.
    pre: 0 <= kind <= 6
    pre: dv >= 0
    pre: sv >= 0
    pre: mv >= 0
    pre: pdv >= 0
    post: __return__ == 'ok'
    """
    orc = Oracle()
    try:
        pm, cap = _mk(dv, sv, mv, pdv)
        pmn = pm.data_model.pm_names
        held_ent = held_d = held_s = None
        if kind == 0:
            held_ent = pm.entities.by_handle('m0')
        elif kind == 1:
            held_ent = pm.entities.new_entity(pmn.StringMetricDescriptor, 'm9', 'ch0')
            held_ent.descriptor.Unit = pm_types.CodedValue('u')
            held_ent.descriptor.MetricCategory = pm_types.MetricCategory.MEASUREMENT
            held_ent.descriptor.MetricAvailability = pm_types.MetricAvailability.CONTINUOUS
        elif kind == 2:
            held_d = pm.descriptions.handle.get_one('m0').mk_copy()
            held_s = pm.states.descriptor_handle.get_one('m0').mk_copy()
        elif kind in (3, 4):
            lc = pm.descriptions.handle.get_one('lc0')
            held_s = pm.data_model.mk_state_container(lc)
            held_s.Handle = 'lcs9'
        # ---- first transaction: what the held object depends on goes away / changes
        if kind in (0, 1, 2):
            with pm.descriptor_transaction() as tr:
                tr.remove_descriptor('ch0')
        elif kind == 3:
            with pm.descriptor_transaction() as tr:
                tr.get_descriptor('lc0').SafetyClassification = pm_types.SafetyClassification.MED_A
        elif kind == 4:
            with pm.descriptor_transaction() as tr:
                tr.remove_descriptor('lc0')
        first = 0 if kind in (5, 6) else 1
        orc.check(pm.mdib_version == mv + first, 'mdib-version-not-incremented-by-one')
        pre_v = _versions(pm)
        mid_version = pm.mdib_version
        # ---- second transaction: the held object is written
        rejected = False
        try:
            if kind in (0, 1):
                with pm.descriptor_transaction() as tr:
                    tr.write_entity(held_ent)
            elif kind == 2:
                with pm.descriptor_transaction() as tr:
                    tr.add_descriptor(held_d, state_container=held_s)
            elif kind in (3, 4):
                with pm.context_state_transaction() as tr:
                    tr.add_state(held_s)
            elif kind == 5:
                ent = pm.entities.new_entity(pmn.LocationContextDescriptor, 'lc9', 'sc0')
                ent.new_state('lcs0')
                with pm.descriptor_transaction() as tr:
                    tr.remove_entity(pm.entities.by_handle('lc0'))
                    tr.write_entity(ent)
            else:
                nd = dc.LocationContextDescriptorContainer('lc9', 'sc0')
                ns = pm.data_model.mk_state_container(nd)
                ns.Handle = 'lcs0'
                with pm.descriptor_transaction() as tr:
                    tr.remove_descriptor('lc0')
                    tr.add_descriptor(nd)
                    tr.add_state(ns)
        except Exception:  # noqa: BLE001 - rejected by the API or by the commit: then nothing may have changed
            rejected = True
        if rejected:
            orc.check(pm.mdib_version == mid_version, 'rejected-transaction-changed-mdib-version')
            orc.check(_versions(pm) == pre_v, 'rejected-transaction-changed-version-counters')
        else:
            orc.check(pm.mdib_version == mid_version + 1, 'mdib-version-not-incremented-by-one')
        post_v = _versions(pm)
        for key, old in pre_v.items():
            if key in post_v:
                orc.check(post_v[key] >= old, 'version-decreased:' + key[0])
        if kind in (5, 6) and not rejected:
            orc.check(('c', 'lcs0') in post_v and post_v[('c', 'lcs0')] > sv, 'recreated-state-version-not-greater')
        with untraced():
            idx_ok = k.index_snapshot(pm) == k.index_scan(pm)
        orc.check(idx_ok, 'index!=scan')
        for lab in k.referential_integrity(pm):
            orc.fail(lab)
    except Exception as ex:  # noqa: BLE001
        return exc_result(orc, ex)
    return orc.result()

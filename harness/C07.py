"""C07 harness (E1 part): state objects stored in the MDIB tables are never modified in place by a committing transaction.

GetMdState / GetContextStates collect references to the table objects inside mdib_lock and serialise them after releasing it;
that is a consistent snapshot only if committed state containers are immutable (transactions REPLACE them). This obligation
justifies the event abstraction of the E3 obligations (checks/C07.py), which cannot see object-content writes.
"""
from vf.hutil import Oracle, exc_result, pick, quiet, untraced

quiet()

from sdc11073.location import SdcLocation  # noqa: E402
from sdc11073.mdib import descriptorcontainers as dc  # noqa: E402
from sdc11073.xml_types import pm_types  # noqa: E402

from harness import mdibkit as k  # noqa: E402

CA = pm_types.ContextAssociation


def _handlers_serialise_after_unlock():
    """Concrete probe (at import, outside CrossHair): do GetMdState / GetContextStates build their reply message after leaving
    mdib_lock? Only then does the snapshot property depend on committed state objects being immutable. If the probe cannot
    run, the dependence is assumed."""
    try:
        from checks.C07 import _build, _reader
        from vf import sched
        rec, dev = _build()
        orig = dev.msg_factory.mk_reply_soap_message

        def wrapped(*a, **kw):
            rec.event('ser', 'reply')
            return orig(*a, **kw)
        dev.msg_factory.mk_reply_soap_message = wrapped
        for h in ('GetMdState', 'GetContextStates'):
            tpl = rec.record(_reader(dev, h))
            secs = sched.sections(tpl, 'mdib_lock')
            for i in sched.idx_of(tpl, 'ser'):
                if not any(a < i < b for a, b in secs):
                    return True
        return False
    except Exception:  # noqa: BLE001
        return True


LAZY_SERIALISATION = _handlers_serialise_after_unlock()


def table_state_objects_immutable(kind: int, dv: int, sv: int, mv: int, val: str) -> str:
    """
    kind: 0 metric state, 1 alert state, 2 component state, 3 context update, 4 context new, 5 set_location,
    6 descriptor update WITHOUT get_state (state bumped implicitly), 7 descriptor update + get_state, 8 create child (parent's
    state bumped implicitly), 9 delete child, 10 entity-interface descriptor update, 11 context descriptor update (its states
    are re-versioned), 12 operational state.
    pre: 0 <= kind <= 12
    pre: dv >= 0
    pre: sv >= 0
    pre: mv >= 0
    pre: len(val) <= 2
    post: __return__ == 'ok'
    """
    orc = Oracle()
    try:
        pm, cap = k.mk_provider(mv, operations=True)
        for h in ('m0', 'ch0'):
            d = pm.descriptions.handle.get_one(h)
            d.DescriptorVersion = dv
            st = pm.states.descriptor_handle.get_one(h)
            st.DescriptorVersion = dv
            st.StateVersion = sv
        lc = pm.descriptions.handle.get_one('lc0')
        pm.add_state_containers([k.mk_context_state(pm, lc, 'lcs0', CA.ASSOCIATED, binding=0, sv=sv),
                                 k.mk_context_state(pm, lc, 'lcs1', CA.DISASSOCIATED, binding=0, unbinding=0, sv=sv)])
        before = [(o, k.canon_container(o)) for o in k.single_states(pm) + k.ctx_states(pm)]
        if kind == 0:
            with pm.metric_state_transaction(set_determination_time=False) as tr:
                st = tr.get_state('m0')
                st.mk_metric_value()
                st.MetricValue.Value = val
                st.BodySite.append(pm_types.CodedValue(val or 'c'))      # in-place write into a list that is EMPTY in the MDIB
        elif kind == 1:
            with pm.alert_state_transaction(set_determination_time=False) as tr:
                tr.get_state('ac0').Presence = True
        elif kind == 2:
            with pm.component_state_transaction() as tr:
                tr.get_state('vmd0').OperatingCycles = 5
        elif kind == 3:
            with pm.context_state_transaction() as tr:
                st = tr.get_context_state('lcs0')
                st.LocationDetail.Bed = val
                st.Validator.append(pm_types.InstanceIdentifier(val or 'r'))      # (empty list in the MDIB)
                st.Identification.append(pm_types.InstanceIdentifier('root2'))
        elif kind == 4:
            with pm.context_state_transaction() as tr:
                tr.mk_context_state('lc0', 'lcs9', set_associated=True)
                tr.disassociate_all('lc0', ignored_handle='lcs9')
        elif kind == 5:
            pm.xtra.set_location(SdcLocation(fac='f', poc='p', bed='b'))
        elif kind == 6:
            with pm.descriptor_transaction() as tr:
                tr.get_descriptor('m0').SafetyClassification = pm_types.SafetyClassification.MED_A
        elif kind == 7:
            with pm.descriptor_transaction() as tr:
                tr.get_descriptor('m0').SafetyClassification = pm_types.SafetyClassification.MED_A
                st = tr.get_state('m0')
                st.mk_metric_value()
                st.MetricValue.Value = val
        elif kind == 8:
            with pm.descriptor_transaction() as tr:
                nd = dc.StringMetricDescriptorContainer('m9', 'ch0')
                nd.Unit = pm_types.CodedValue('u')
                nd.MetricCategory = pm_types.MetricCategory.MEASUREMENT
                nd.MetricAvailability = pm_types.MetricAvailability.CONTINUOUS
                tr.add_descriptor(nd, state_container=pm.data_model.get_state_class_for_descriptor(nd)(nd))
        elif kind == 9:
            with pm.descriptor_transaction() as tr:
                tr.remove_descriptor('m1')
        elif kind == 10:
            ent = pm.entities.by_handle('ch0')
            ent.descriptor.SafetyClassification = pm_types.SafetyClassification.MED_B
            with pm.descriptor_transaction() as tr:
                tr.write_entity(ent)
        elif kind == 11:
            with pm.descriptor_transaction() as tr:
                tr.get_descriptor('lc0').SafetyClassification = pm_types.SafetyClassification.MED_A
        else:
            with pm.operational_state_transaction() as tr:
                tr.get_state('op0').OperatingMode = pm_types.OperatingMode.DISABLED
        orc.check(pm.mdib_version == mv + 1, 'transaction-did-not-commit')
        changed = 0
        for obj, snap in before:
            if LAZY_SERIALISATION:   # otherwise in-place updates cannot reach a response: nothing to demand
                orc.check(k.canon_container(obj) == snap, 'committed-state-object-modified-in-place')
            with untraced():
                still = obj in pm.states.objects or obj in pm.context_states.objects
            if not still:
                changed += 1
        orc.check(changed >= 1 or kind == 4, 'no-state-object-was-replaced')
    except Exception as ex:  # noqa: BLE001
        return exc_result(orc, ex)
    return orc.result()

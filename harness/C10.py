"""C10 harnesses: context association invariants hold after set_location / SetContextState (CrossHair, E1).

Inductive step: a REAL ProviderMdib with one location and one patient context descriptor and two context states each, whose
association (selector), Binding/UnbindingMdibVersion (presence + value), StateVersion and the MdibVersion are symbolic; the
pre-state is ASSUMED to satisfy the invariant; one step (set_location, or the tutorial's SetContextState handler with 1-2
proposed states by selector); the invariant and the transition obligations are asserted on the post-state.
"""
import types

from vf.hutil import Oracle, exc_result, pick, quiet, untraced

quiet()

from sdc11073.location import SdcLocation  # noqa: E402
from sdc11073.mdib import statecontainers as sc_mod  # noqa: E402
from sdc11073.mdib import transactions as tr_mod  # noqa: E402
from sdc11073.xml_types import pm_types  # noqa: E402

from harness import mdibkit as k  # noqa: E402

import tutorial.productandroles.contextprovider as cp_mod  # noqa: E402

CA = pm_types.ContextAssociation
ASSOC = (CA.ASSOCIATED, CA.DISASSOCIATED, CA.NO_ASSOCIATION, CA.PRE_ASSOCIATION)


class _Uuid:
    """uuid4 stub: a counter (uniqueness of real UUIDs is assumed, listed in Ob.stubs)."""

    def __init__(self):
        self.n = 0

    def uuid4(self):
        self.n += 1
        n = self.n
        return types.SimpleNamespace(hex=f'gen{n}', urn=f'urn:uuid:gen{n}')


def _install_stubs():
    u = _Uuid()
    for m in (tr_mod, cp_mod, sc_mod):
        m.uuid = u
    cp_mod.time = k.FROZEN_TIME


def _ctx(pm, descr_handle, handle, assoc_sel, has_unb, unb, bind, sv):
    d = pm.descriptions.handle.get_one(descr_handle)
    assoc = pick(assoc_sel, ASSOC)
    if assoc != CA.DISASSOCIATED:
        has_unb = False      # reachability: only a state that stopped being associated (-> Dis) carries an unbinding version
    st = k.mk_context_state(pm, d, handle, assoc, binding=bind, unbinding=(unb if has_unb else None), sv=sv)
    if assoc == CA.ASSOCIATED:
        st.BindingStartTime = 1.0
    if has_unb:
        st.BindingEndTime = 2.0
    return st


def _invariant(pm):
    """Labels of violated invariants of the property (empty = holds)."""
    bad = []
    per_descr = {}
    handles = []
    for st in k.ctx_states(pm):
        handles.append(st.Handle)
        if st.ContextAssociation == CA.ASSOCIATED:
            per_descr[st.DescriptorHandle] = per_descr.get(st.DescriptorHandle, 0) + 1
        if st.ContextAssociation == CA.ASSOCIATED and st.UnbindingMdibVersion is not None:
            bad.append('associated-state-with-unbinding-version')
    if any(n > 1 for n in per_descr.values()):
        bad.append('more-than-one-associated-state-per-descriptor')
    if len(set(handles)) != len(handles):
        bad.append('duplicate-context-state-handle')
    # handles are unique across the whole MDIB
    dh = [d.Handle for d in k.descrs(pm)]
    if any(h in dh for h in handles):
        bad.append('context-state-handle-equals-a-descriptor-handle')
    return bad


def _view(pm):
    out = {}
    for st in k.ctx_states(pm):
        out[st.Handle] = (st.DescriptorHandle, st.ContextAssociation, st.BindingMdibVersion, st.UnbindingMdibVersion,
                          st.BindingStartTime, st.BindingEndTime, st.StateVersion)
    return out


def _transitions(pm, orc, pre, mv):
    """Per-state transition obligations between the pre view and the MDIB now (committed at version mv + 1)."""
    post = _view(pm)
    new_v = mv + 1
    for h, (dh, assoc, bind, unb, t0, t1, sv) in post.items():
        old = pre.get(h)
        was_assoc = old is not None and old[1] == CA.ASSOCIATED
        if was_assoc and assoc != CA.ASSOCIATED:
            orc.check(assoc == CA.DISASSOCIATED, 'stopped-being-associated-but-not-marked-disassociated')
            orc.check(unb == new_v, 'unbinding-version!=commit-version')
            orc.check(t1 is not None, 'binding-end-time-not-set')
        if old is not None and old[1] == CA.DISASSOCIATED and assoc != CA.ASSOCIATED:
            orc.check(assoc == CA.DISASSOCIATED, 'disassociated-state-no-longer-marked-disassociated')
        if assoc == CA.ASSOCIATED and not was_assoc:
            orc.check(bind == new_v, 'binding-version!=commit-version')
            orc.check(t0 is not None, 'binding-start-time-not-set')
        if old is not None:
            orc.check(sv >= old[6], 'context-state-version-decreased')
    for h in pre:
        orc.check(h in post, 'context-state-vanished')


def _pre_state(mv, a0, a1, hu0, u0, hu1, u1, sv, descr='lc0', other='pc0'):
    _install_stubs()
    from sdc11073.mdib import descriptorcontainers as dc
    pm, cap = k.mk_provider(mv, containers=[dc.MdsDescriptorContainer('mds0', None), dc.SystemContextDescriptorContainer('sc0', 'mds0'),
                                            dc.PatientContextDescriptorContainer('pc0', 'sc0'),
                                            dc.LocationContextDescriptorContainer('lc0', 'sc0')])
    s0 = _ctx(pm, descr, 'cs0', a0, hu0, u0, 0, sv)
    s1 = _ctx(pm, descr, 'cs1', a1, hu1, u1, 0, sv)
    o0 = _ctx(pm, other, 'os0', 0, False, 0, 0, sv)          # the other context descriptor: one associated state
    pm.add_state_containers([s0, s1, o0])
    return pm, cap


def _snap(pm):
    return k.snapshot(pm, with_indices=False)


def set_location_step(mv: int, a0: int, a1: int, hu0: bool, u0: int, hu1: bool, u1: int, sv: int, twice: bool) -> str:
    """
    ProviderMdibMethods.set_location from an arbitrary valid pre-state of the location context states (twice: two consecutive
    location changes).
    pre: mv >= 0
    pre: 0 <= a0 < 4
    pre: 0 <= a1 < 4
    pre: u0 >= 0
    pre: u1 >= 0
    pre: sv >= 0
    post: __return__ == 'ok'
    """
    orc = Oracle()
    try:
        pm, cap = _pre_state(mv, a0, a1, hu0, u0, hu1, u1, sv)
        if _invariant(pm):
            return 'ok'          # assumed: the pre-state satisfies the invariant
        pre = _view(pm)
        pm.xtra.set_location(SdcLocation(fac='f', poc='p', bed='b1'))
        for lab in _invariant(pm):
            orc.fail(lab)
        _transitions(pm, orc, pre, mv)
        assoc_loc = [st for st in k.ctx_states(pm) if st.DescriptorHandle == 'lc0' and st.ContextAssociation == CA.ASSOCIATED]
        orc.check(len(assoc_loc) == 1 and assoc_loc[0].Handle not in pre, 'new-location-state-not-the-associated-one')
        orc.check(pm.context_states.handle.get_one('os0').ContextAssociation == CA.ASSOCIATED, 'other-context-descriptor-touched')
        if twice:
            pre2 = _view(pm)
            pm.xtra.set_location(SdcLocation(fac='f', poc='p', bed='b2'))
            for lab in _invariant(pm):
                orc.fail(lab)
            _transitions(pm, orc, pre2, mv + 1)
    except Exception as ex:  # noqa: BLE001
        return exc_result(orc, ex)
    return orc.result()


PROPOSAL_WITH_UNBINDING = [False]


def _proposal(pm, descr, which, assoc_sel):
    """which: 0 new state (Handle == DescriptorHandle by BICEPS convention), 1 update of cs0, 2 update of cs1, 3 unknown handle."""
    d = pm.descriptions.handle.get_one(descr)
    st = pm.data_model.get_state_class_for_descriptor(d)(d)
    st.Handle = (descr, 'cs0', 'cs1', 'nope')[which] if descr == 'lc0' else (descr, 'os0', 'os0', 'nope')[which]
    st.ContextAssociation = pick(assoc_sel, (CA.ASSOCIATED, CA.DISASSOCIATED, CA.NO_ASSOCIATION, CA.PRE_ASSOCIATION))
    if PROPOSAL_WITH_UNBINDING[0]:
        # schema-valid members a client can send along (e.g. it re-submits the copy of an old state)
        st.UnbindingMdibVersion = 0
        st.BindingEndTime = 1600000000.0
    return st


def set_context_state_step(mv: int, a0: int, a1: int, hu0: bool, u0: int, hu1: bool, u1: int, sv: int,
                           n: int, w1: int, p1: int, d2: int, w2: int, p2: int, pu: bool = False) -> str:
    """
    The tutorial's SetContextState handler with n in {1, 2} proposed states: proposal i targets descriptor lc0 (d2 == 0) or
    the other descriptor pc0 (d2 == 1, second proposal only), is new / update of cs0 / update of cs1 / unknown handle (w),
    proposes ASSOCIATED, DISASSOCIATED, NO_ASSOCIATION (= attribute absent) or PRE_ASSOCIATION (p).
    pre: mv >= 0
    pre: 0 <= a0 < 4
    pre: 0 <= a1 < 4
    pre: u0 >= 0
    pre: u1 >= 0
    pre: sv >= 0
    pre: 1 <= n <= 2
    pre: 0 <= w1 < 4
    pre: 0 <= p1 < 4
    pre: 0 <= d2 < 2
    pre: 0 <= w2 < 4
    pre: 0 <= p2 < 4
    post: __return__ == 'ok'
    """
    orc = Oracle()
    try:
        PROPOSAL_WITH_UNBINDING[0] = bool(pu)
        pm, cap = _pre_state(mv, a0, a1, hu0, u0, hu1, u1, sv)
        if _invariant(pm):
            return 'ok'          # assumed: the pre-state satisfies the invariant
        pre = _view(pm)
        if n == 2 and d2 == 0 and w1 == w2 and w1 in (1, 2):
            return 'ok'          # outside the claim: one request naming the same existing state twice
        before = _snap(pm)
        prov = cp_mod.GenericContextProvider(pm, op_target_descr_types=None)
        props = [_proposal(pm, 'lc0', w1, p1)]
        if n == 2:
            props.append(_proposal(pm, 'pc0' if d2 else 'lc0', w2, p2))
        params = types.SimpleNamespace(operation_request=types.SimpleNamespace(argument=props),
                                       operation_instance=types.SimpleNamespace(operation_target_handle='lc0'), soap_message=None)
        rejected = False
        try:
            prov._set_context_state(params)
        except Exception:  # noqa: BLE001 - the handler rejects the request (reported as Fail by the SCO)
            rejected = True
        if rejected:
            now = _snap(pm)
            orc.check(now['version'] == before['version'], 'rejected-request-changed-mdib-version')
            orc.check(now['context_states'] == before['context_states'], 'rejected-request-changed-context-states')
            orc.check(len(cap.sent) == 0, 'report-sent-for-rejected-request')
        else:
            two_assoc_same = n == 2 and d2 == 0 and p1 == 0 and p2 == 0
            orc.check(not two_assoc_same, 'two-associated-proposals-for-one-descriptor-accepted')
            for lab in _invariant(pm):
                orc.fail(lab)
            _transitions(pm, orc, pre, mv)
    except Exception as ex:  # noqa: BLE001
        return exc_result(orc, ex)
    return orc.result()

from vf.main import Ob

META = {
    'explanation': 'WS-Discovery matching and bookkeeping. (a) match_scope against a component-level reference: both scope URIs are '
                   'composed from scheme / authority variants (case), path segments from an atom pool (a A %41 a%2Fb "" ab b ...) '
                   'with hand-written decodings and query / fragment suffixes, all chosen by symbolic selectors, so the expected '
                   'answer (schemes, authorities equal ignoring case; decoded segments of the probe scope are a segment-wise prefix '
                   'of the service scope; query and fragment ignored) is known without parsing; strcmp0 == string equality and '
                   'unknown rule == no match on unconstrained symbolic strings; totality / reflexivity on unconstrained short '
                   'strings and on texts spelled from a hostile alphabet. (b) matches_filter / filter_services over services and '
                   'probes with Types / Scopes None, empty or populated, against "all requested types offered and every requested '
                   'scope matched by some service scope". (c) _add_remote_service / _remove_remote_service with unconstrained '
                   'symbolic metadata versions: stored version == max seen since the last Bye, stored object is an announcement '
                   'carrying it. (d)/(e) real datagrams (library message factory) through the real NetworkingThread._run_q_read '
                   'and WSDiscovery.handle_received_message of objects built without sockets: Hello / ProbeMatches / '
                   'ResolveMatches / Bye sequences with duplicate message ids and missing optional parts, Probe answered for '
                   'exactly the matching published services, Resolve answered iff the EPR is published, id acted on once while '
                   'remembered (eviction shown on a node whose id memory is shortened to 2).',
    'outside': ['a trailing slash on the PROBE scope (last segment empty, or path "/" vs empty path) where strict segment-wise prefix and '
                '"trailing slash ignored" disagree: either answer accepted (RFC 3986 / WS-Discovery do not settle it; the tests do not '
                'cover it)',
                'URI texts "scheme://x" composed from no authority + empty first segment (the text denotes an authority)',
                'rootless paths (scheme:a/b), userinfo (case-sensitive per RFC 3986 while the property says authority is compared '
                'case-insensitively), dot segments, non-UTF-8 percent escapes (%FF and %FE both decode to U+FFFD and compare equal), '
                'leading whitespace / embedded tab-newline stripped by urlsplit',
                'ldap and uuid matching rules (the code treats them like rfc3986; the property does not define them)',
                'a service whose Types is None meeting a typed probe: only "does not raise" is demanded, not which answer',
                'merging of Types / Scopes / XAddrs between two announcements of EQUAL metadata version',
                'messages without AppSequence (ignored by documented configuration flag allow_missing_app_sequence)',
                'sockets, multicast, retransmission timing (C15), the real id memory length of 200 (deque semantics trusted; eviction '
                'is exercised with the length set to 2 by the harness)',
                'histories longer than 3 datagrams (5 for duplicate eviction); EPR / message-id names are interchangeable, so the '
                'first datagram of a sequence is fixed to EPR e1 / id A (symmetry argument, not a solver result)'],
    'assumptions': ['datagrams are produced by the library\'s own MessageFactory from wsd_types objects (well-formed, schema-valid)'],
}

F_SCOPE = ['sdc11073.wsdiscovery.wsdimpl.match_scope']
F_FILTER = ['sdc11073.wsdiscovery.wsdimpl.matches_filter', 'sdc11073.wsdiscovery.wsdimpl.filter_services',
            'sdc11073.wsdiscovery.wsdimpl._is_scope_in_list', 'sdc11073.wsdiscovery.wsdimpl._is_type_in_list',
            'sdc11073.wsdiscovery.wsdimpl.match_type', 'sdc11073.wsdiscovery.wsdimpl.match_scope']
F_TABLE = ['sdc11073.wsdiscovery.wsdimpl.WSDiscovery._add_remote_service',
           'sdc11073.wsdiscovery.wsdimpl.WSDiscovery._remove_remote_service', 'sdc11073.wsdiscovery.service.Service']
F_DGRAM = F_TABLE + ['sdc11073.wsdiscovery.networkingthread.NetworkingThread._run_q_read',
                     'sdc11073.wsdiscovery.networkingthread.NetworkingThread.add_outbound_message',
                     'sdc11073.wsdiscovery.wsdimpl.WSDiscovery.handle_received_message',
                     'sdc11073.wsdiscovery.wsdimpl.WSDiscovery._handle_received_hello',
                     'sdc11073.wsdiscovery.wsdimpl.WSDiscovery._handle_received_probe_matches',
                     'sdc11073.wsdiscovery.wsdimpl.WSDiscovery._handle_received_resolve_matches',
                     'sdc11073.wsdiscovery.wsdimpl.WSDiscovery._handle_received_bye',
                     'sdc11073.xml_types.wsd_types.HelloType', 'sdc11073.xml_types.wsd_types.ScopesType']
F_PROBE = F_FILTER + ['sdc11073.wsdiscovery.wsdimpl.WSDiscovery._handle_received_probe',
                      'sdc11073.wsdiscovery.wsdimpl.WSDiscovery._send_probe_match',
                      'sdc11073.wsdiscovery.wsdimpl.WSDiscovery.publish_service',
                      'sdc11073.wsdiscovery.wsdimpl.WSDiscovery.handle_received_message',
                      'sdc11073.wsdiscovery.networkingthread.NetworkingThread._run_q_read']
F_RESOLVE = ['sdc11073.wsdiscovery.wsdimpl.WSDiscovery._handle_received_resolve',
             'sdc11073.wsdiscovery.wsdimpl.WSDiscovery._send_resolve_match', 'sdc11073.wsdiscovery.wsdimpl.WSDiscovery.publish_service',
             'sdc11073.wsdiscovery.wsdimpl.WSDiscovery.clear_service',
             'sdc11073.wsdiscovery.wsdimpl.WSDiscovery.handle_received_message',
             'sdc11073.wsdiscovery.networkingthread.NetworkingThread._run_q_read']

S_NODE = ['Node: real WSDiscovery + real NetworkingThread made with __new__ (no sockets / threads); _quit_recv_event replaced by '
          'FakeStopEvent (set as soon as the read queue is drained); real queue.Queue / PriorityQueue / deque',
          'handle_received_message wrapped by a counting spy that calls the real method (the read loop swallows handler exceptions)',
          'logging disabled']
ATOMS_TXT = 'a A %41 a%2Fb "" ab b %2F %2f %61'

KIND = ('hello', 'probematches', 'resolvematches', 'bye')
QUICK_TRIPLES = ((0, 0, 0), (0, 3, 0), (1, 0, 3), (2, 1, 0), (0, 2, 1), (3, 0, 1))


def obligations(tier):
    quick = tier == 'quick'
    t = 90 if quick else 600
    obs = []

    # ---- (a) match_scope, composed URIs
    na = 7 if quick else 10
    if quick:
        path_cases = [({'head': h, 'na': na, 'n1': n1, 'maxn2': 3 if n1 == 0 else 2}, f'h{h}.n{n1}') for h in (0, 1) for n1 in (0, 1, 2)]
    else:
        path_cases = []
        for h in (0, 1):
            path_cases.append(({'head': h, 'na': na, 'n1': 0, 'maxn2': 3}, f'h{h}.n0'))
            for a1 in range(na):        # 1 or 2 probe segments over all 10 atoms, split on the first probe atom
                path_cases.append(({'head': h, 'na': na, 'n1': 1, 'maxn2': 3, 'a1': a1}, f'h{h}.n1.a{a1}'))
                path_cases.append(({'head': h, 'na': na, 'n1': 2, 'maxn2': 2, 'a1': a1}, f'h{h}.n2.a{a1}'))
            # 2 probe segments against exactly 3 service segments on the 7-atom pool
            path_cases += [({'head': h, 'na': 7, 'n1': 2, 'maxn2': 3, 'n2': 3, 'a1': a1}, f'h{h}.n2.m3.a{a1}') for a1 in range(7)]
        # 3 probe segments against up to 3 service segments on the first 5 atoms
        path_cases += [({'head': 0, 'na': 5, 'n1': 3, 'maxn2': 3, 'a1': a1}, f'h0.n3.a{a1}') for a1 in range(5)]
    for bind, name in path_cases:
        obs.append(Ob(f'C14.scope.path.{name}', 'harness.C14', 'scope_path', bind=bind, timeout=t, functions=F_SCOPE,
                      twin=quick or bind['n1'] == 0,
                      bounds=f'head {"ab://h" if bind["head"] == 0 else "ab:"} on both scopes; probe scope {bind["n1"]} segments, service '
                             f'scope 0..{bind["maxn2"]} segments, each from the first {bind["na"]} atoms of [{ATOMS_TXT}]'
                             + (f'; fixed by case split: { {k: v for k, v in bind.items() if k in ("a1", "n2")} }' if not quick else ''),
                      claim='match_scope(rfc3986) is True iff the percent-decoded segments of the probe scope are a segment-wise '
                            'prefix of the service scope\'s (%41==A, a%2Fb is ONE segment, a is not a prefix of ab, case-sensitive)'))
    for p1 in (0, 1):
        obs.append(Ob(f'C14.scope.head.p{p1}', 'harness.C14', 'scope_head', bind={'p1': p1}, timeout=t, functions=F_SCOPE,
                      bounds='probe scope: scheme in {ab AB aB ac a} x authority in {none //h //H //hx //h:1 //H:1}; service scope: scheme in '
                             f'{{ab Ab ac}} x authority in {{none //h //hx //H:1}}; probe path {"/a" if p1 else "empty"}, service path in '
                             '{empty /a /b /a/b}',
                      claim='schemes and authorities compared case-insensitively; any other difference => no match; equal => path rule'))
    for h in (0, 1):
        obs.append(Ob(f'C14.scope.suffix.h{h}', 'harness.C14', 'scope_suffix', bind={'head': h}, timeout=t, functions=F_SCOPE,
                      bounds='query / fragment suffix of each scope in {none ?q ?q=a/b #f #f/g ?a/b#c/d}; paths of <= 2 segments over {a b}',
                      claim='query and fragment (even with slashes) take no part in matching'))
    obs.append(Ob('C14.scope.rules', 'harness.C14', 'scope_rules', timeout=t, functions=F_SCOPE,
                  bounds='7 scope pairs with hand-written answers x rule in {MatchBy.uri, its URI text, None, "", MatchBy.strcmp, its URI '
                         'text, an unknown URI, "rfc3986", "strcmp0"}',
                  claim='rfc3986 is the default rule; strcmp0 is exact; anything else matches nothing'))
    ml = 4 if quick else 7
    obs.append(Ob('C14.scope.strcmp0', 'harness.C14', 'scope_strcmp', bind={'maxlen': ml}, timeout=t, functions=F_SCOPE,
                  bounds=f'two unconstrained symbolic unicode strings, each <= {ml} characters',
                  claim='strcmp0 matching == string equality; symmetric; reflexive; never raises'))
    ml = 3 if quick else 5
    obs.append(Ob('C14.scope.unknown-rule', 'harness.C14', 'scope_unknown_rule', bind={'maxlen': ml}, timeout=t, functions=F_SCOPE,
                  bounds=f'two unconstrained symbolic scopes <= {ml} characters; rule: unconstrained symbolic text of 1..3 characters',
                  claim='a rule that is none of the defined rule URIs never matches and never raises'))
    sym_cases = [(p, 2 - (p == 2), p == 2) for p in range(4)]       # partner 'a' (no scheme, no authority) lets the symbolic text
    if not quick:                                                   # reach the segment comparison: one character less there
        # (partner 'a' with 2 symbolic characters does not finish within 900 s since match_scope compares decoded octets: stays at 1)
        sym_cases += [(p, 3, True) for p in (0, 1, 3)]
    for p, ml, asc in sym_cases:
        obs.append(Ob(f'C14.scope.laws.sym.p{p}' + ('.ascii' if asc else '') + (f'.len{ml}' if ml == 3 else ''), 'harness.C14', 'scope_laws_sym',
                      bind={'partner': p, 'maxlen': ml, 'ascii_only': asc}, timeout=t if quick else 900, functions=F_SCOPE,
                      bounds=f'one unconstrained symbolic {"ASCII" if asc else "unicode"} string s, <= {ml} characters; partner scope '
                             f'{("ab://h/a", "ab:/a/b", "a", "//h?q")[p]!r}',
                      claim='rfc3986 matching never raises on (s,s), (s,partner), (partner,s); s matches itself (if ASCII without brackets)'))
    if quick:
        sel_cases = [({'n': 3, 'partner': p}, f'n3.p{p}') for p in (0, 2)]
    else:
        sel_cases = [({'n': 3, 'partner': p}, f'n3.p{p}') for p in (1, 2, 3)] + \
                    [({'n': 4, 'partner': 0, 'c0': c0}, f'n4.p0.c{c0}') for c0 in range(14)]
    for bind, name in sel_cases:
        obs.append(Ob(f'C14.scope.laws.sel.{name}', 'harness.C14', 'scope_total_sel', bind=bind, timeout=t, functions=F_SCOPE,
                      twin=quick,
                      bounds=f'scope text of <= {bind["n"]} characters, each chosen from / : % [ ] ? # @ a A 2 F . (or nothing)'
                             + (f', first character fixed to index {bind["c0"]}' if 'c0' in bind else '')
                             + f'; partner scope index {bind["partner"]}',
                      claim='rfc3986 matching is total (no exception) and reflexive on every such text'))

    # ---- (b) matches_filter / filter_services
    obs.append(Ob('C14.filter.types', 'harness.C14', 'filter_types', timeout=t, functions=F_FILTER,
                  bounds='service Types in {None, [], [T1], [T2], [T1,T2], [T1 in another namespace]}; probe Types in {None, [], [T1], [T2], '
                         '[T1,T2], [T2,T1], [T3], [other-ns T1], [T1,T3]}; probe Scopes in {None, matching, not matching}',
                  claim='matches_filter is True iff every requested type (namespace + local name) is offered and the scopes match'))
    obs.append(Ob('C14.filter.scopes', 'harness.C14', 'filter_scopes', timeout=t, functions=F_FILTER,
                  bounds='service Scopes and probe Scopes each in {None, empty, 1 URI, 2 URIs} over the pool {x:/a X:/a/b x:/a%2Fb y:/a}; '
                         'MatchBy in {absent, rfc3986, strcmp0, unknown}',
                  claim='True iff every requested scope is matched by some scope of the service under the probe\'s rule'))
    for r in range(4):
        nk = 5 if r == 1 else 4
        obs.append(Ob(f'C14.filter.list.r{r}', 'harness.C14', 'filter_list', bind={'rule': r, 'nk': nk}, timeout=t, functions=F_FILTER,
                      bounds=f'3 services, each one of {nk} prepared kinds (T1|x:/a, T1 T2|X:/a/b y:/a, T2|x:/a%2Fb, no types|Scopes=None'
                             + (', Types=None|empty Scopes' if nk == 5 else '') + '); 9 prepared probes; '
                             f'MatchBy {("absent", "rfc3986", "strcmp0", "unknown")[r]}',
                      claim='filter_services returns exactly the matching services, in input order, without duplicates'))

    # ---- (c) remote table, symbolic versions
    for b1 in (False, True):
        for b2 in (False, True):
            obs.append(Ob(f'C14.remote.versions.{"B" if b1 else "A"}{"B" if b2 else "A"}x', 'harness.C14', 'remote_versions',
                          bind={'bye1': b1, 'bye2': b2}, timeout=t, functions=F_TABLE, stubs=['logging disabled'],
                          bounds='3 events (A = announcement, B = Bye; third symbolic) over EPRs {e1, e2, empty}; metadata versions: 3 '
                                 'UNCONSTRAINED symbolic ints',
                          claim='after every event: table has exactly the EPRs announced since their last Bye; stored version == highest '
                                'seen since that Bye; the stored object is an announcement carrying that version; no entry without EPR'))

    # ---- (d)/(e) datagram histories
    triples = QUICK_TRIPLES if quick else [(a, b, c) for a in range(4) for b in range(4) for c in range(4)]
    for k1, k2, k3 in triples:
        obs.append(Ob(f'C14.dgram.seq.{KIND[k1]}.{KIND[k2]}.{KIND[k3]}', 'harness.C14', 'dgram_seq', bind={'k1': k1, 'k2': k2, 'k3': k3},
                      timeout=t, functions=F_DGRAM, stubs=S_NODE, twin=quick,
                      bounds=f'datagrams {KIND[k1]}, {KIND[k2]}, {KIND[k3]}; versions in {{1,2,3}}; first: EPR e1 / id A, second: EPR in '
                             '{e1,e2} / id in {A,B}, third: EPR in {e1,e2} / id in {A,B,C}',
                      claim='a datagram is dispatched iff its message id was not seen before; the table then holds per EPR the highest '
                            'version since its last Bye; duplicates change nothing and cause no send'))
    obs.append(Ob('C14.dgram.optional-parts', 'harness.C14', 'dgram_bare', timeout=t, functions=F_DGRAM, stubs=S_NODE,
                  bounds='2 announcements (each Hello / ProbeMatches / ResolveMatches, with or without Types+Scopes+XAddrs), versions in '
                         '{1,2,3}, same or different EPR',
                  claim='missing optional parts neither raise nor disturb version arbitration (own Resolve requests are accounted for)'))
    obs.append(Ob('C14.dgram.invalid', 'harness.C14', 'dgram_garbage', timeout=t, functions=F_DGRAM, stubs=S_NODE,
                  bounds='one of 7 invalid datagrams (empty, broken XML, non-SOAP, bad bytes, envelope without header, 2005/04 discovery '
                         'text, well-formed 2005/04 Hello) before / between / after 2 Hellos with versions in {1,2,3}',
                  claim='invalid datagrams are ignored without an exception leaving the reader and without touching the table'))
    ml = 2
    obs.append(Ob('C14.dup.evict', 'harness.C14', 'dup_evict', bind={'maxlen': ml}, timeout=t, functions=F_DGRAM,
                  stubs=S_NODE + [f'_known_message_ids = deque(maxlen={ml}) instead of 200 (assigned by the harness)'],
                  bounds='5 Hellos with versions 1..5, message ids from a pool of 3, id memory of 2',
                  claim='an id is acted on iff it is not among the ids the node still remembers; acting on it makes it remembered'))
    for ml2 in ((2, 3) if tier == 'quick' else (1, 2, 3, 4)):
        obs.append(Ob(f'C14.dup.evict.outbound.mem{ml2}', 'harness.C14', 'dup_evict_outbound', bind={'maxlen': ml2}, timeout=t,
                      functions=F_DGRAM + ['sdc11073.wsdiscovery.networkingthread.NetworkingThread.add_outbound_message'],
                      stubs=S_NODE + [f'_known_message_ids = deque(maxlen={ml2}) instead of 200 (assigned by the harness)'],
                      bounds=f'4 Hellos (versions 1..4, ids from a pool of 3, each with or without XAddrs: without, the node sends a '
                             f'Resolve whose id enters the same memory), id memory of {ml2}',
                      claim='an id is acted on iff it is not among the last ids received (own outbound ids are kept apart and do not push '
                            'received ids out)'))
    obs.append(Ob('C14.probe.answer.with_old_namespace_declared', 'harness.C14', 'probe_answer', bind={'decl': True, 'race': False},
                  timeout=t, functions=F_PROBE + ['sdc11073.wsdiscovery.networkingthread.NetworkingThread._run_q_read'], stubs=S_NODE,
                  bounds='as C14.probe.answer; the valid 2009/01 Probe declares (and does not use) a prefix for the 2005/04 discovery namespace',
                  claim='the Probe is answered exactly like the one without that declaration'))
    obs.append(Ob('C14.probe.answer.while_publishing', 'harness.C14', 'probe_answer', bind={'decl': False, 'race': True, 'rule': 0},
                  timeout=t, functions=F_PROBE, stubs=S_NODE + ['the application thread is simulated: the first call of matches_filter '
                                                               'publishes a third service (deterministic interleaving)'],
                  bounds='as C14.probe.answer with MatchBy absent; publish_service runs while the Probe is being matched',
                  claim='the handler does not fail; every matching service published before the Probe is in the answer'))
    obs.append(Ob('C14.scope.octets', 'harness.C14', 'scope_octets', timeout=t, functions=['sdc11073.wsdiscovery.wsdimpl.match_scope'], stubs=[],
                  bounds='10 x 10 percent-encoded segments whose octets are / are not utf-8 (%E4 %F6 %FF %FE %C3%A4 U+00E4 %80%81 %C0%AF a %61), '
                         'equal depth or one segment deeper',
                  claim='segments match iff their decoded octets are equal'))
    obs.append(Ob('C14.remote.same_version_partial', 'harness.C14', 'same_version_partial', timeout=t, functions=F_PROBE[:0] + [
                      'sdc11073.wsdiscovery.wsdimpl.WSDiscovery._add_remote_service'], stubs=S_NODE,
                  bounds='Hello(v1, complete) then ProbeMatches / ResolveMatches(v1) without Types / with empty Scopes / without both',
                  claim='what version 1 announced stays recorded'))
    obs.append(Ob('C14.probe.answer', 'harness.C14', 'probe_answer', bind={'decl': False, 'race': False}, timeout=t, functions=F_PROBE, stubs=S_NODE,
                  bounds='2 services published via publish_service (A: one of 4 kinds; B: T1,T2 / X:/a/b y:/a); Probe with Types in {[], [T1], '
                         '[T2], [T1,T2], [T3]}, Scopes in {None, empty, 1 URI, 2 URIs} over 4 URIs, MatchBy in {absent, rfc3986, strcmp0, unknown}',
                  claim='ProbeMatches are queued for exactly the published services that offer all types and match all scopes, once each, '
                        'related to the Probe and addressed to its sender'))
    obs.append(Ob('C14.resolve.answer', 'harness.C14', 'resolve_answer', timeout=t, functions=F_RESOLVE, stubs=S_NODE,
                  bounds='3 operations from {none, publish pa, publish pb, clear pa, clear pb}; Resolve for pa / pb / never-published pc',
                  claim='a Resolve is answered (one ResolveMatches for that EPR, related, to the sender) iff the EPR is published now'))
    return obs


MANIFEST_ENTRY = {
    'engine': 'crosshair',
    'technique': 'bounded symbolic execution (CrossHair/z3) of the real matching functions and of the real discovery message handlers '
                 'on socket-less objects; component-level reference matcher; reference table model',
    'text': 'Every path is explored to exhaustion ("Confirmed over all paths"): scope URIs composed from symbolic components vs. a '
            'component-level reference; strcmp0 / unknown rule / totality on unconstrained symbolic strings; Types / Scopes None / empty / '
            'populated on both sides of matches_filter; 3-event histories with unconstrained symbolic metadata versions on the remote '
            'table; 3-datagram histories with duplicate message ids through the real reader loop; Probe and Resolve answers.',
    'note': 'Trusted: CrossHair/z3 path exhaustion; the library\'s own message factory as producer of well-formed datagrams. Bounded: '
            '<= 3 path segments from a 7 (quick) / 10 (thorough) atom pool, unconstrained strings <= 2-3 characters, 3 datagrams, 2 EPRs.',
}

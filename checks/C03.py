from vf.main import Ob
from harness.mdibkit import STUBS

META = {
    'explanation': 'REAL ProviderMdib with nested members present (MetricValue, BodySite list, CoreData, LocationDetail, Validator list, '
                   'alert Source list). (a) transaction bodies that write SYMBOLIC strings into nested members of the objects handed '
                   'out and abort at a symbolic crash point; (b) 9 API-rejected calls after a valid modification; (c) commit-time '
                   'failures; (b2) rejected (batch) calls whose exception the body handles itself, against a twin MDIB running the body '
                   'without that call; (d2) entities refreshed with update() after a commit; (d) writes to handed-out objects AFTER a successful commit, and a later transaction writing to the same '
                   'nested member, against the MDIB, the report objects and the copies retained by the real PeriodicReportsHandler. '
                   'Oracle: full canonical snapshot (content at every nesting depth, versions, table sizes, None not in tables, '
                   'indices == scan) before == after; no report captured.',
    'outside': ['exceptions raised inside observers bound to mdib.transaction', 'post_commit_handler failures (the commit has happened)',
                'commit failures other than the three injected ones', 'concurrent readers (C07)'],
}
F = ['sdc11073.mdib.providermdib.ProviderMdib._transaction_manager', 'sdc11073.mdib.containerbase.ContainerBase.mk_copy',
     'sdc11073.mdib.containerbase.ContainerBase._update_from_other',
     'sdc11073.mdib.transactions.StateTransactionBase.get_state', 'sdc11073.mdib.transactions.StateTransactionBase.write_entity',
     'sdc11073.mdib.transactions.ContextStateTransaction.get_context_state',
     'sdc11073.mdib.transactions.ContextStateTransaction.mk_context_state', 'sdc11073.mdib.transactions.ContextStateTransaction.add_state',
     'sdc11073.mdib.transactions.ContextStateTransaction.write_entity',
     'sdc11073.mdib.transactions.ContextStateTransaction.disassociate_all',
     'sdc11073.mdib.transactions.DescriptorTransaction.get_descriptor', 'sdc11073.mdib.transactions.DescriptorTransaction.get_state',
     'sdc11073.mdib.transactions.DescriptorTransaction.remove_descriptor',
     'sdc11073.mdib.transactions.DescriptorTransaction.add_descriptor',
     'sdc11073.mdib.transactions._TransactionBase._handle_state_updates', 'sdc11073.mdib.mdibbase.EntityGetter._mk_entity',
     'sdc11073.provider.periodicreports.PeriodicReportsHandler._store_for_periodic_report',
     'sdc11073.provider.providerimpl.SdcProvider._send_episodic_reports']
AK = ['metric', 'context_patient', 'context_location', 'descriptor', 'metric_entity', 'context_entity', 'recreate_removed_descriptor',
      'recreate_removed_context_state']
RC = ['unknown_state_handle', 'wrong_state_type', 'get_state_twice', 'unknown_descriptor', 'add_existing_descriptor',
      'mk_context_state_existing_handle', 'mk_context_state_non_context_descriptor', 'get_state_without_descriptor',
      'remove_then_get_state']
CF = ['pre_commit_handler_raises', 'add_state_duplicate_handle', 'entity_delete_context_state',
      'entity_delete_context_state_in_descriptor_transaction', 'descriptor_transaction_add_state_existing_key',
      'descriptor_transaction_entity_new_state_foreign_handle']
RCC = ['metric_write_entities_wrong_type', 'metric_write_entities_multi_state', 'alert_write_entities_wrong_type',
       'context_write_entity_unknown_handle', 'descriptor_write_entities_already_written', 'mk_context_state_existing_handle',
       'get_context_state_unknown_handle', 'add_descriptor_with_foreign_state', 'metric_write_entities_unknown_descriptor']
IU = ['single_state_entity', 'multi_state_entity_new_state', 'entity_after_descriptor_change']
IK = ['write_to_transaction_state', 'write_to_entity', 'write_to_transaction_result', 'later_transaction_same_member']


def obligations(tier):
    t = 90 if tier == 'quick' else 600
    obs = []
    for i, n in enumerate(AK):
        obs.append(Ob(f'C03.aborted.{n}', 'harness.C03', 'aborted', bind={'kind': i}, timeout=t, functions=F, stubs=STUBS,
                      bounds='crash point in 0..3 (symbolic), symbolic str <= 3 written to nested members, list members empty or filled '
                             '(symbolic), mv, sv in N',
                      claim='an aborted transaction leaves the full snapshot (all nesting depths), versions, indices and the remembered versions '
                            'of removed objects unchanged; no report'))
    for i, n in enumerate(RC):
        obs.append(Ob(f'C03.rejected.{n}', 'harness.C03', 'rejected', bind={'case': i}, timeout=t, functions=F, stubs=STUBS,
                      bounds='one valid modification, then the rejected call; symbolic mv, sv, str <= 2',
                      claim='the call raises and nothing changes; no report'))
    for i, n in enumerate(CF):
        obs.append(Ob(f'C03.commit_failure.{n}', 'harness.C03', 'commit_failure', bind={'case': i}, timeout=t, functions=F, stubs=STUBS,
                      bounds='symbolic mv, sv', claim='a failing commit changes nothing; a succeeding one is applied completely'))
    for i, n in enumerate(IK):
        obs.append(Ob(f'C03.isolation.{n}', 'harness.C03', 'isolation_after_commit', bind={'kind': i}, timeout=t, functions=F,
                      stubs=STUBS + ['PeriodicReportsHandler is the real class, its thread is never started'],
                      bounds='two distinct symbolic strs <= 2, mv, sv in N',
                      claim='post-commit writes to handed-out objects do not reach the MDIB; earlier report objects and retained '
                            'periodic copies keep the committed value'))
    for i, n in enumerate(RCC):
        obs.append(Ob(f'C03.rejected_caught.{n}', 'harness.C03', 'rejected_call_caught', bind={'case': i}, timeout=t,
                      functions=F + ['sdc11073.mdib.transactions.StateTransactionBase.write_entities',
                                     'sdc11073.mdib.transactions.DescriptorTransaction.write_entities'], stubs=STUBS,
                      bounds='one valid modification + one rejected (batch) call whose exception the body handles itself; twin MDIB runs '
                             'the body without the rejected call; symbolic mv, sv, str <= 2',
                      claim='a call the API rejects contributes nothing to the commit: snapshot, versions and number of reports equal '
                            'those of the same transaction without that call'))
    for i, n in enumerate(IU):
        obs.append(Ob(f'C03.isolation_update.{n}', 'harness.C03', 'isolation_after_update', bind={'kind': i}, timeout=t,
                      functions=F + ['sdc11073.mdib.mdibbase.Entity.update', 'sdc11073.mdib.mdibbase.MultiStateEntity.update',
                                     'sdc11073.mdib.mdibbase._EntityBase.update'], stubs=STUBS,
                      bounds='entity fetched before a commit, update() after it; two distinct symbolic strs <= 2, mv, sv in N',
                      claim='update() shows the committed data (including context states created meanwhile) and the entity stays a '
                            'private copy at every nesting depth'))
    for i, n in enumerate(['write_to_transaction_descriptor', 'write_to_written_entity', 'write_to_result_updated', 'write_to_result_created']):
        obs.append(Ob(f'C03.isolation_descriptor.{n}', 'harness.C03', 'isolation_descriptor', bind={'kind': i}, timeout=t,
                      functions=F + ['sdc11073.mdib.transactions.DescriptorTransaction.process_transaction'], stubs=STUBS,
                      bounds='one committed descriptor update / creation; two distinct symbolic strs <= 2 written into Unit.Code (and an '
                             'append to Unit.Translation) of the object still held; mv, dv in N',
                      claim='the MDIB descriptor shares no member with the handed-out descriptor, the written entity or the published '
                            'result; the published descriptor (exactly one per handle) keeps the committed value'))
    # history independence: aborted transaction, then an ordinary commit, compared with the commit alone on a twin MDIB
    FW = ['metric_update', 'context_new_state', 'descriptor_update', 'descriptor_create', 'context_update']
    pairs = [(k, f) for k in range(8) for f in range(5)] if tier != 'quick' else [(0, 0), (6, 3), (7, 1)]
    for kind, follow in pairs:
        obs.append(Ob(f'C03.aborted_then_commit.{AK[kind]}.{FW[follow]}', 'harness.C03', 'aborted_then_commit',
                      bind={'kind': kind, 'follow': follow}, timeout=max(t, 200), functions=F, stubs=STUBS,
                      bounds='aborted body with symbolic crash point 0..3, then one committed transaction; twin MDIB runs the committed '
                             'transaction alone; symbolic mv, sv, str <= 2, list members empty or filled',
                      claim='snapshot (all nesting depths), version counters, remembered versions of removed objects and number of '
                            'reports after abort + commit equal those of the commit alone'))
    return obs


MANIFEST_ENTRY = {
    'engine': 'crosshair',
    'technique': 'bounded symbolic execution (CrossHair/z3) of the real transaction manager with symbolic crash point, symbolic nested '
                 'values and version counters; full-snapshot equality oracle',
    'text': 'All paths of 34 transaction shapes (8 aborted bodies x 4 crash points, 9 rejected calls, 7 rejected-and-handled calls, 3 commit '
            'failures, 4 post-commit write patterns, 3 update() patterns) are explored for all string values <= 3 chars and all version counters; '
            'thorough adds history independence: each of the 8 aborted bodies x 4 crash points followed by each of 5 committed transactions '
            'equals the committed transaction alone on a twin MDIB (quick: 3 of the 40 pairs).',
    'note': 'Small concrete MDIB (15 descriptors, 2 context states); crash points are between API calls of a 3-step body; observers other '
            'than the provider report hook are outside.',
}

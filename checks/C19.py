from vf.main import Ob

from harness import loopkit

META = {
    'explanation': 'The symbolic inputs are nine configuration booleans (provider has an SSL container; consumer has one; '
                   'force_ssl_connect; provider / consumer use a shared HTTP server; provider / consumer alternative_hostname; the first '
                   'TLS handshake fails with ssl.SSLError although the peer speaks TLS; shutdown by Unsubscribe or by SubscriptionEnd). '
                   'This is a FINITE space of 512 configurations which CrossHair enumerates by path forking - exhaustive configuration '
                   'exploration, not reasoning over an infinite domain. For every configuration a real SdcProvider (SomeDevice) and a '
                   'real SdcConsumer run a complete exchange over an in-process loop-back transport: discovery-less start-up (TransferGet, '
                   'GetMetadata of every hosted service, WSDL GET), event sink start, Subscribe for all reports, one episodic metric '
                   'report, Renew and GetStatus of every subscription, shutdown. Only the socket layer is replaced: the fake HTTP(S) '
                   'connection classes record the arguments the real SoapClient._mk_http_connection passes (TLS with which context / '
                   'plaintext) and follow the TCP/TLS rule for connect(); the real HttpServerThreadBase.run decides base_url and wraps '
                   'the listening socket. The oracle inspects every connection object ever constructed, the context of every server, '
                   'get_xaddrs / base_urls, and every URL pointing to the sender\'s own HTTP server in every serialised message '
                   '(EndpointReference/Address, MetadataSection/Location, SubscriptionManager/Address, NotifyTo/Address, EndTo/Address '
                   '...). certloader: mk_ssl_contexts / mk_ssl_contexts_from_folder on the repository\'s test certificate with the CA '
                   'file present or absent.',
    'outside': ['real sockets and TLS handshakes (certificate verification itself is OpenSSL\'s job; only verify_mode / loaded CA are '
                'inspected)',
                'operation invocation (SetService requests use the same SoapClient as the Get requests, OperationInvokedReport the same '
                'notification path as the episodic report; no role provider / SCO worker threads are started here)',
                'the asynchronous provider components (SoapClientAsync, SubscriptionsManagerPathAsync) - the synchronous components '
                'are used', 'WS-Discovery messages (Hello / ProbeMatches over UDP); get_xaddrs, which feeds them, is checked',
                'a shared HTTP server whose TLS setting contradicts the participant\'s configuration (see assumptions)',
                'SubscriptionBase.send_notification_end_message writes its own address as "<scheme>:<netloc>/<path>" (no "//"): the '
                'scheme is https under TLS, so it is no plaintext advertisement, but the address is malformed (observation, not part of '
                'this property)'],
    'assumptions': ['a shared HTTP server is created by the application with the server context of the participant\'s own SSL container '
                    '(None if it has none), as the test suite does; neither SdcProvider nor SdcConsumer checks this',
                    'optional consumer TLS (container given, force_ssl_connect=False) may fall back to plaintext after an ssl.SSLError, '
                    'as documented; for this mode only the documented policy is checked (first attempt encrypted, plaintext only after '
                    'an SSLError)'],
}

F = ['sdc11073.provider.providerimpl.SdcProvider.__init__', 'sdc11073.provider.providerimpl.SdcProvider._mk_soap_client',
     'sdc11073.provider.providerimpl.SdcProvider.get_xaddrs', 'sdc11073.provider.providerimpl.SdcProvider._start_services',
     'sdc11073.provider.providerimpl.SdcProvider._on_get_metadata', 'sdc11073.provider.providerimpl.SdcProvider.stop_all',
     'sdc11073.provider.dpwshostedservice.DPWSHostedService.mk_dpws_hosted_instance',
     'sdc11073.provider.dpwshostedservice.DPWSHostedService._on_get_metadata',
     'sdc11073.provider.subscriptionmgr_base.SubscriptionsManagerBase._mk_subscribe_response_message',
     'sdc11073.provider.subscriptionmgr_base.SubscriptionsManagerBase.on_subscribe_request',
     'sdc11073.provider.subscriptionmgr_base.SubscriptionBase.send_notification_end_message',
     'sdc11073.provider.subscriptionmgr_base.SubscriptionBase._get_soap_client',
     'sdc11073.provider.subscriptionmgr.BicepsSubscription.send_notification_report',
     'sdc11073.pysoap.soapclientpool.SoapClientPool.get_soap_client',
     'sdc11073.consumer.consumerimpl.SdcConsumer.__init__', 'sdc11073.consumer.consumerimpl.SdcConsumer.start_all',
     'sdc11073.consumer.consumerimpl.SdcConsumer._connect', 'sdc11073.consumer.consumerimpl.SdcConsumer.get_soap_client',
     'sdc11073.consumer.consumerimpl.SdcConsumer._mk_soap_client', 'sdc11073.consumer.consumerimpl.SdcConsumer._start_event_sink',
     'sdc11073.consumer.consumerimpl.SdcConsumer.base_url', 'sdc11073.consumer.consumerimpl.SdcConsumer.stop_all',
     'sdc11073.consumer.subscription.ConsumerSubscriptionManager.mk_subscription',
     'sdc11073.consumer.subscription.ConsumerSubscription.subscribe', 'sdc11073.consumer.subscription.ConsumerSubscription.renew',
     'sdc11073.consumer.subscription.ConsumerSubscription.get_status', 'sdc11073.consumer.subscription.ConsumerSubscription.unsubscribe',
     'sdc11073.pysoap.soapclient.SoapClient.__init__', 'sdc11073.pysoap.soapclient.SoapClient._mk_http_connection',
     'sdc11073.pysoap.soapclient.SoapClient.connect', 'sdc11073.pysoap.soapclient.SoapClient.post_message_to',
     'sdc11073.httpserver.httpserverimpl.HttpServerThreadBase.run', 'sdc11073.certloader.mk_ssl_contexts']
F_CERT = ['sdc11073.certloader.mk_ssl_contexts', 'sdc11073.certloader.mk_ssl_contexts_from_folder']

NAMES = {(False, False, False): 'plain_provider.plain_consumer', (False, True, False): 'plain_provider.optional_consumer',
         (False, True, True): 'plain_provider.enforced_consumer', (True, False, False): 'tls_provider.plain_consumer',
         (True, True, False): 'tls_provider.optional_consumer', (True, True, True): 'tls_provider.enforced_consumer'}


def obligations(tier):
    t = 80 if tier == 'quick' else 600
    obs = []
    for (p_tls, c_cont, c_force), name in NAMES.items():
        obs.append(Ob(f'C19.exchange.{name}', 'harness.C19', 'tls_exchange', bind={'p_tls': p_tls, 'c_cont': c_cont, 'c_force': c_force},
                      timeout=t, functions=F, stubs=loopkit.STUBS,
                      bounds=f'provider SSL container={p_tls}, consumer SSL container={c_cont}, force_ssl_connect={c_force}; all 64 '
                             'combinations of {provider shared/own HTTP server, consumer shared/own, provider alternative hostname, '
                             'consumer alternative hostname, first TLS handshake ok / ssl.SSLError, shutdown by Unsubscribe / '
                             'SubscriptionEnd} x (TLS enforced only) device location spelled with the xaddr\'s scheme / the other one; finite configuration space enumerated by path forking; one exchange per configuration',
                      claim='provider with TLS: get_xaddrs, base_urls and every own URL in every message it sends are https, every '
                            'connection it opens is an HTTPS connection with its client context, its server got its server context; '
                            'consumer with TLS enforced: the same for NotifyTo / EndTo and its connections, and no plaintext connection '
                            'object is ever constructed - also not after an ssl.SSLError; optional consumer: first attempt encrypted, '
                            'plaintext only after an ssl.SSLError'))
    obs.append(Ob('C19.exchange.enforced_without_container', 'harness.C19', 'tls_exchange',
                  bind={'c_cont': False, 'c_force': True, 'p_shared': False, 'c_shared': False, 'p_alt': False, 'c_alt': False,
                        'end_by_provider': False}, timeout=t, functions=F[14:16], stubs=loopkit.STUBS,
                  bounds='force_ssl_connect=True without SSL container; provider with / without TLS; handshake ok / fails',
                  claim='the constructor rejects the configuration (ValueError): no client is ever created'))
    obs.append(Ob('C19.provider.foreign_shared_server', 'harness.C19', 'foreign_shared_server', timeout=t, functions=F,
                  stubs=loopkit.STUBS,
                  bounds='TLS-configured provider started on a shared HTTP server that has NO TLS context (application mistake); '
                         'alternative hostname yes / no; consumer optional / enforced (4 configurations)',
                  claim='the provider still advertises only https addresses (xaddrs, base_urls, every own URL in its messages): the '
                        'scheme follows the provider\'s TLS configuration, never the server it was handed; an enforcing consumer '
                        'constructs no plaintext connection'))
    obs.append(Ob('C19.consumer.foreign_shared_server', 'harness.C19', 'consumer_foreign_shared_server', timeout=t, functions=F,
                  stubs=loopkit.STUBS,
                  bounds='TLS-enforcing consumer started on a shared HTTP server that has NO TLS context (application mistake); alternative '
                         'hostname yes / no',
                  claim='the configuration is rejected, or base_url / NotifyTo / EndTo are https; every connection uses the client context'))
    obs.append(Ob('C19.provider.async_client_redirect', 'harness.C19', 'async_client_redirect', timeout=t,
                  functions=['sdc11073.pysoap.soapclient_async.SoapClientAsync.async_post_message_to'],
                  stubs=['real SoapClientAsync; the aiohttp session is a stub that records the keyword arguments of post() and answers with '
                         'a redirect; aiohttp itself follows redirects unless allow_redirects=False is passed (documented behaviour)'],
                  bounds='status 301 / 302 / 307 / 308 x Location http://other, https://other, relative path',
                  claim='the client tells aiohttp not to follow redirects and reports the answer as a failed delivery: no connection outside '
                        'the configured TLS connection is opened'))
    obs.append(Ob('C19.consumer.enforced_restart', 'harness.C19', 'enforced_restart', timeout=t, functions=F, stubs=loopkit.STUBS,
                  bounds='consumer with force_ssl_connect through 2-3 start_all / stop_all cycles against a provider with / without '
                         'TLS; stop with / without unsubscribe; alternative hostname yes / no (16 configurations)',
                  claim='TLS enforcement survives stop_all / restart: in no cycle a plaintext connection is constructed or an http '
                        'address advertised, and a plaintext provider is never connected'))
    obs.append(Ob('C19.certloader', 'harness.C19', 'cert_contexts', timeout=t, functions=F_CERT,
                  stubs=['repository test certificate tests/certificates/test_certificate.pem (self-signed) also serves as CA file'],
                  bounds='CA file present / absent x mk_ssl_contexts (cipher string given / not) / mk_ssl_contexts_from_folder (8 paths)',
                  claim='with a CA file both contexts have verify_mode == CERT_REQUIRED and the CA loaded (client verifies the server, '
                        'server demands and verifies a client certificate); client context is PROTOCOL_TLS_CLIENT, server context '
                        'PROTOCOL_TLS_SERVER'))
    return obs


MANIFEST_ENTRY = {
    'engine': 'crosshair',
    'technique': 'exhaustive configuration exploration by path forking (CrossHair/z3 over 9 symbolic booleans); per configuration a '
                 'complete real provider/consumer exchange over a loop-back transport with recording connection / server fakes',
    'text': 'All 512 TLS configurations are enumerated; in each, every connection object created, every server context and every own '
            'URL in every message of start-up, subscription, notification, renewal and shutdown is inspected.',
    'note': 'Finite space, enumerated - not an infinite-domain proof. Real sockets / handshakes are replaced by fakes that follow the '
            'TCP/TLS connect rule; shared HTTP servers are assumed to be created with the participant\'s own server context.',
}

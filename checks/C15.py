"""C15 - discovery retransmission envelope (E2 pysym / z3 Real) + own-message rule (E1 CrossHair, harness/C15.py)."""
import random as _random
import types
from fractions import Fraction

from vf.main import Ob

NT = 'sdc11073.wsdiscovery.networkingthread'
F_ENV = [NT + '.NetworkingThread._repeated_enqueue_msg', NT + '._UdpRepeatParams']   # + the two *_REPEAT_PARAMS constants of the module
F_OWN = [NT + '.NetworkingThread.add_outbound_message', NT + '.NetworkingThread._repeated_enqueue_msg',
         NT + '.NetworkingThread._run_q_read']
PARAM_FIELDS = ('max_initial_delay_ms', 'repeat', 'min_delay_ms', 'max_delay_ms', 'upper_delay_ms')
UNROLL = 6
NOW_MAX = 4_000_000_000       # time.time() in [0, 4e9] (year 2096): keeps the float error of the concrete replay < 1e-6 s
TOL = 1e-5                    # tolerance of the concrete (float) replay against the exact rational encoding

# violation labels, in the order in which they are tried
LABELS = ['put_count_wrong', 'initial_delay_out_of_range', 'first_gap_out_of_window', 'gap_exceeds_upper_delay',
          'gap_not_doubled']

STUBS = ['random.randint(a, b) -> any integer in [a, b]', 'random.randrange(a, b) -> any integer in [a, b)',
         'time.time() -> any real in [0, 4e9]', '_send_queue.put(x) -> appended to a trace list (queue never full)',
         '_quit_send_event.is_set() -> False (sending thread running)', 'logger calls skipped',
         'arithmetic over the reals: binary64 rounding of the accumulated send times (<= 1 ulp of an epoch timestamp, '
         '2.4e-7 s) is outside the claim']

META = {
    'explanation': 'NetworkingThread._repeated_enqueue_msg is read from the current source and translated (vf/pysym.py) into z3 '
                   'Int/Real terms: both random draws, time.time() and - in the generic obligation - all five _UdpRepeatParams '
                   'fields are solver variables; the list of queue.put events is the observable. Asserted: 1 + repeat puts, '
                   'initial delay in [0, max_initial/1000], first gap in [min/1000, max/1000], every further gap == '
                   'min(2 * previous, upper/1000). The own-message rule is explored with CrossHair on the real '
                   'add_outbound_message / one iteration of the real _run_q_read with symbolic message ids.',
    'outside': ['binary64 rounding of send times (encoding is over the reals)',
                'the send loop (_run_send): 10 ms polling raster, actual socket transmission times',
                'repeat > 6 (quick) / > 12 (thorough) in the generic obligation (unwinding bound, asserted)',
                'more than 200 other message ids seen between sending and the loop-back (deque maxlen=200)',
                'XML parsing of the looped-back datagram (message_reader stubbed: returns the symbolic MessageID)'],
    'assumptions': STUBS,
}


# ---------------------------------------------------------------------------------------------- encoding

def _mk_stubs():
    from vf.pysym import Record, Unsupported

    def randint(sym, st, args, kw):
        if len(args) != 2 or kw:
            raise Unsupported('random.randint arity')
        v = sym.new('randint', 'int')
        st.assumes += [sym.be.cmp('ge', v, args[0]), sym.be.cmp('le', v, args[1])]
        return v

    def randrange(sym, st, args, kw):
        if len(args) != 2 or kw:
            raise Unsupported('random.randrange arity')
        v = sym.new('randrange', 'int')
        st.assumes += [sym.be.cmp('ge', v, args[0]), sym.be.cmp('lt', v, args[1])]
        return v

    def now(sym, st, args, kw):
        v = sym.new('now', 'real')
        st.assumes += [v >= 0, v <= NOW_MAX]
        prev = [t for n, t in sym.nondet.items() if n.startswith('now_') and t is not v]
        if prev:
            st.assumes.append(v >= prev[-1])
        return v

    def put(sym, st, args, kw):
        st.trace.append(args[0])

    def enq(sym, st, args, kw):
        if len(args) != 3:
            raise Unsupported('_EnqueuedMessage arity')
        return Record('enq', send_time=args[0], msg=args[1], repeat=args[2])

    skip = lambda sym, st, args, kw: None  # noqa: E731
    return {'random.randint': randint, 'random.randrange': randrange, 'time.time': now, 'time.monotonic': now,
            'self._send_queue.put': put, 'self._send_queue.put_nowait': put, 'self._EnqueuedMessage': enq,
            'self._quit_send_event.is_set': lambda sym, st, a, k: False,
            'self._logger.warning': skip, 'self._logger.debug': skip, 'self._logger.info': skip}


def _encode(pset, unroll=UNROLL):
    """-> (be, sym, paths, pvals, passume): translate the current source for a parameter set name."""
    import z3
    from sdc11073.wsdiscovery import networkingthread as nt
    from vf import pysym
    be = pysym.Z3Real()
    if pset == 'generic':
        pv = {f: z3.Int('p_' + f) for f in PARAM_FIELDS}
        passume = [pv['max_initial_delay_ms'] >= 0, pv['min_delay_ms'] >= 0, pv['min_delay_ms'] < pv['max_delay_ms'],
                   pv['max_delay_ms'] <= pv['upper_delay_ms'], pv['repeat'] >= 0, pv['repeat'] <= unroll,
                   pv['upper_delay_ms'] <= 100000, pv['max_initial_delay_ms'] <= 100000]
    else:
        const = {'unicast': nt.UNICAST_REPEAT_PARAMS, 'multicast': nt.MULTICAST_REPEAT_PARAMS}[pset]
        pv = {f: getattr(const, f) for f in PARAM_FIELDS}
        passume = []
    fields = {'delay_params.' + f: v for f, v in pv.items()}
    sym = pysym.Sym(nt.NetworkingThread._repeated_enqueue_msg, be, stubs=_mk_stubs(), fields=fields, unroll=unroll)
    paths = sym.run({'self': pysym.Opaque('self'), 'msg': pysym.Opaque('msg'), 'delay_params': pysym.Opaque('delay_params')})
    return be, sym, paths, pv, passume


def _conditions(be, sym, path, pv):
    """{label: z3 Bool 'holds'} for one path, from the trace of put events."""
    import z3
    from vf.pysym import Record
    R = be.real
    times = []
    for ev in path.trace:
        if not isinstance(ev, Record) or 'send_time' not in ev.fields:
            raise ValueError('unexpected object put on the send queue')
        times.append(R(ev.fields['send_time']))
    nows = [t for n, t in sym.nondet.items() if n.startswith('now_')]
    ms = lambda f: R(pv[f]) / 1000  # noqa: E731
    conds = {lab: [] for lab in LABELS}
    conds['put_count_wrong'].append(be.val(be.cmp('eq', be.arith('add', pv['repeat'], 1), len(times))))
    if times and nows:
        d0 = times[0] - nows[0]
        conds['initial_delay_out_of_range'] += [d0 >= 0, d0 <= ms('max_initial_delay_ms')]
    elif not nows:
        conds['initial_delay_out_of_range'].append(z3.BoolVal(False))
    gaps = [times[i + 1] - times[i] for i in range(len(times) - 1)]
    if gaps:
        conds['first_gap_out_of_window'] += [gaps[0] >= ms('min_delay_ms'), gaps[0] <= ms('max_delay_ms')]
    upper = ms('upper_delay_ms')
    for i in range(1, len(gaps)):
        twice = 2 * gaps[i - 1]
        conds['gap_exceeds_upper_delay'].append(gaps[i] <= upper)
        conds['gap_not_doubled'].append(z3.Or(gaps[i] > upper, gaps[i] == z3.If(twice <= upper, twice, upper)))
    return {lab: z3.And(*c) if c else z3.BoolVal(True) for lab, c in conds.items()}, times, gaps


# ---------------------------------------------------------------------------------------------- the real function, concretely

def _real_schedule(params, initial_ms, gap_ms, now):
    """Run the REAL _repeated_enqueue_msg with the draws fixed; -> list of send times (floats) in put order."""
    import queue
    import threading
    from sdc11073.wsdiscovery import networkingthread as nt
    calls = {'randint': [], 'randrange': []}

    def randint(a, b):
        calls['randint'].append((a, b))
        return initial_ms

    def randrange(a, b=None, *rest):
        calls['randrange'].append((a, b))
        return gap_ms

    t = nt.NetworkingThread.__new__(nt.NetworkingThread)
    t._quit_send_event = threading.Event()
    t._send_queue = queue.Queue()      # FIFO: keeps the put order
    t._logger = types.SimpleNamespace(warning=lambda *a, **k: None, debug=lambda *a, **k: None, info=lambda *a, **k: None)
    saved = nt.random, nt.time
    nt.random = types.SimpleNamespace(randint=randint, randrange=randrange)
    nt.time = types.SimpleNamespace(time=lambda: now, monotonic=lambda: now)
    try:
        t._repeated_enqueue_msg('MSG', params)
    finally:
        nt.random, nt.time = saved
    out = []
    while not t._send_queue.empty():
        out.append(t._send_queue.get().send_time)
    return out, calls


def _concrete_labels(params, times, now):
    """Violated labels of a concrete schedule (floats, tolerance TOL)."""
    v = []
    if len(times) != 1 + params.repeat:
        v.append('put_count_wrong')
    if not times:
        return v
    if not (-TOL <= times[0] - now <= params.max_initial_delay_ms / 1000 + TOL):
        v.append('initial_delay_out_of_range')
    gaps = [times[i + 1] - times[i] for i in range(len(times) - 1)]
    if gaps and not (params.min_delay_ms / 1000 - TOL <= gaps[0] <= params.max_delay_ms / 1000 + TOL):
        v.append('first_gap_out_of_window')
    upper = params.upper_delay_ms / 1000
    if any(g > upper + TOL for g in gaps[1:]):
        v.append('gap_exceeds_upper_delay')
    if any(gaps[i] <= upper + TOL and abs(gaps[i] - min(2 * gaps[i - 1], upper)) > TOL for i in range(1, len(gaps))):
        v.append('gap_not_doubled')
    return v


def _mk_params(d):
    from sdc11073.wsdiscovery import networkingthread as nt
    return nt._UdpRepeatParams(*[int(d[f]) for f in PARAM_FIELDS])


def _validate(be, sym, paths, pv, pset, seed, unroll=UNROLL):
    """Translator validation: the encoding, evaluated on concrete draws (substitution, no search), must equal the real function
    run with random/time patched to the same draws. Returns None or an error text."""
    from sdc11073.wsdiscovery import networkingthread as nt
    rng = _random.Random(1000 + seed)
    rint = [t for n, t in sym.nondet.items() if n.startswith('randint_')]
    rrange = [t for n, t in sym.nondet.items() if n.startswith('randrange_')]
    nows = [t for n, t in sym.nondet.items() if n.startswith('now_')]
    if len(rint) != 1 or len(rrange) != 1 or len(nows) != 1:
        return None        # a different shape of the function: nothing to compare draw-by-draw (the solver verdict still stands)
    for k in range(40):
        if pset == 'generic':
            mn = rng.randint(0, 300)
            mx = mn + rng.randint(1, 300)
            d = {'max_initial_delay_ms': rng.randint(0, 800), 'repeat': rng.randint(0, unroll), 'min_delay_ms': mn,
                 'max_delay_ms': mx, 'upper_delay_ms': mx + rng.choice([0, 1, 50, 400, 2000])}
            params = _mk_params(d)
        else:
            params = {'unicast': nt.UNICAST_REPEAT_PARAMS, 'multicast': nt.MULTICAST_REPEAT_PARAMS}[pset]
            d = {f: getattr(params, f) for f in PARAM_FIELDS}
        a = rng.randint(0, params.max_initial_delay_ms)
        b = rng.choice([params.min_delay_ms, params.max_delay_ms - 1, rng.randrange(params.min_delay_ms, params.max_delay_ms)])
        now = float(rng.choice([0, 1, 1234567, 1758600000])) + rng.choice([0.0, 0.25, 0.5])
        real, calls = _real_schedule(params, a, b, now)
        subst = {rint[0]: a, rrange[0]: b, nows[0]: Fraction(now)}
        if pset == 'generic':
            subst.update({pv[f]: d[f] for f in PARAM_FIELDS})
        hit = [p for p in paths if all(be.evaluate(c, subst) is True for c in p.conds)]
        if len(hit) != 1:
            return f'validation: {len(hit)} encoded paths enabled for params={d} draws=({a},{b})'
        enc = [be.evaluate(be.real(ev.fields['send_time']), subst) for ev in hit[0].trace]
        if len(enc) != len(real) or any(not isinstance(x, (int, Fraction)) or abs(float(x) - y) > TOL for x, y in zip(enc, real)):
            return f'validation: encoding {[float(x) for x in enc]} != real {real} for params={d} draws=({a},{b}) now={now}'
    return None


# ---------------------------------------------------------------------------------------------- obligation

def ob_envelope(ctx):
    from vf import pysym
    pset = ctx.params['set']
    unroll = int(ctx.params.get('unroll', UNROLL))
    try:
        be, sym, paths, pv, passume = _encode(pset, unroll)
    except pysym.Unsupported as ex:
        return {'verdict': 'inconclusive', 'reason': f'translation failed: {ex}', 'engine': 'pysym(z3 Real)'}
    import z3
    err = _validate(be, sym, paths, pv, pset, ctx.seed or 0, unroll)
    if err:
        return {'verdict': 'error', 'reason': err, 'engine': 'pysym(z3 Real)'}
    detail = [f'{len(paths)} path(s)']
    # unwinding assertion: no execution within the parameter assumptions needs more than UNROLL iterations
    for conds, assumes in sym.unwind:
        r, _ = be.check(passume + conds + assumes)
        if r != 'unsat':
            return {'verdict': 'inconclusive', 'reason': f'unwinding bound {unroll} not sufficient ({r})', 'engine': 'pysym(z3 Real)',
                    'queries': be.queries}
    reach, sample = False, None
    excluded = [lab for lab in LABELS if lab in ctx.exclude]
    inconclusive = []
    for path in paths:
        if path.ret is not None:
            return {'verdict': 'inconclusive', 'reason': f'unexpected return value on a path: {path.ret!r}', 'engine': 'pysym(z3 Real)'}
        base = passume + path.conds + path.assumes
        try:
            holds, times, gaps = _conditions(be, sym, path, pv)
        except ValueError as ex:
            return {'verdict': 'inconclusive', 'reason': str(ex), 'engine': 'pysym(z3 Real)'}
        # known findings assumed away: the NEGATION of exactly that failure condition joins the assumptions
        base = base + [holds[lab] for lab in excluded]
        r, m = be.check(base)
        if r == 'unknown':
            inconclusive.append('assumptions: unknown')
            continue
        if r == 'unsat':
            continue                 # path unreachable under the assumptions
        if len(path.trace) >= 3 or not reach:
            sample = {'puts': len(times), 'gaps_s': [str(be.model_value(m, g)) for g in gaps]}
        reach = True
        for lab in LABELS:
            if lab in excluded:
                continue
            r, m = be.check(base + [z3.Not(holds[lab])])
            if r == 'unknown':
                inconclusive.append(lab + ': unknown')
                continue
            if r == 'sat':
                wit = _witness(be, sym, m, pv, lab, pset)
                got = _replay_witness(wit)
                return {'verdict': 'counterexample', 'label': lab, 'witness': wit, 'replayed': lab in got['violated'],
                        'detail': f'real schedule: send times - now = {got["offsets"]}, gaps = {got["gaps"]} s; violated: '
                                  f'{got["violated"]}', 'queries': be.queries, 'solver_s': round(be.solver_s, 3),
                        'engine': 'pysym(z3 Real)', 'reach': True}
    res = {'verdict': 'inconclusive' if inconclusive or not reach else 'confirmed', 'reach': reach, 'queries': be.queries,
           'solver_s': round(be.solver_s, 3), 'engine': 'pysym(z3 Real)', 'sample': sample,
           'detail': '; '.join(detail + ['validated against the real function on 40 concrete draws',
                                         f'unwinding paths refuted: {len(sym.unwind)}'])}
    if inconclusive:
        res['reason'] = '; '.join(inconclusive)
    elif not reach:
        res['reason'] = 'no path reachable under the assumptions'
    return res


def _witness(be, sym, m, pv, label, pset):
    val = lambda t: be.model_value(m, t)  # noqa: E731
    named = {n.split('_')[0]: val(t) for n, t in sym.nondet.items()}
    now = named.get('now', 0)
    return {'label': label, 'set': pset, 'params': {f: int(val(pv[f])) if be.is_term(pv[f]) else int(pv[f]) for f in PARAM_FIELDS},
            'initial_delay_ms': int(named.get('randint', 0)), 'first_gap_ms': int(named.get('randrange', 0)),
            'now': float(now)}


def _replay_witness(w):
    params = _mk_params(w['params'])
    times, _ = _real_schedule(params, w['initial_delay_ms'], w['first_gap_ms'], w['now'])
    return {'violated': _concrete_labels(params, times, w['now']), 'offsets': [round(t - w['now'], 6) for t in times],
            'gaps': [round(times[i + 1] - times[i], 6) for i in range(len(times) - 1)]}


def replay(ctx):
    """Re-run a stored witness on the REAL function (random/time patched to the witness draws)."""
    w = ctx.params['witness']
    got = _replay_witness(w)
    lab = w.get('label')
    label = lab if lab in got['violated'] else (got['violated'][0] if got['violated'] else 'ok')
    return {'verdict': 'counterexample' if got['violated'] else 'confirmed', 'label': label, 'reach': True, 'replayed': True,
            'detail': str(got)}


# ---------------------------------------------------------------------------------------------- registration

def obligations(tier):
    t = 60 if tier == 'quick' else 300
    unroll = UNROLL if tier == 'quick' else 12
    obs = []
    for pset, what in (('unicast', 'UNICAST_REPEAT_PARAMS as read from the module'),
                       ('multicast', 'MULTICAST_REPEAT_PARAMS as read from the module'),
                       ('generic', 'symbolic parameters: 0 <= min < max <= upper <= 100000, 0 <= max_initial <= 100000, '
                                   f'0 <= repeat <= {unroll} (unwinding assertion)')):
        obs.append(Ob(f'C15.envelope.{pset}', 'checks.C15', 'ob_envelope', kind='py', params={'set': pset, 'unroll': unroll}, timeout=t,
                      functions=F_ENV, stubs=STUBS, bounds=what + '; every outcome of both random draws; time.time() in [0, 4e9]',
                      claim='1 + repeat puts; 0 <= send0 - now <= max_initial/1000; first gap in [min/1000, max/1000]; every '
                            'further gap == min(2 * previous gap, upper/1000)'))
    tc = 60 if tier == 'quick' else 300
    for func, name in (('own_registered', 'registered_before_send'), ('own_loopback', 'loopback_ignored')):
        obs.append(Ob(f'C15.own.{name}', 'harness.C15', func, timeout=tc, functions=F_OWN,
                      stubs=['random/time module attributes of networkingthread replaced by fixed draws (CrossHair needs '
                             'determinism; the draws do not influence the id bookkeeping)',
                             '_send_queue replaced by a recorder that notes whether the id is known at the time of each put',
                             'message_reader.read_received_message stubbed: returns a message carrying the symbolic MessageID',
                             '_wsd.handle_received_message recorded', '_quit_recv_event: one loop iteration'],
                      bounds='message ids: symbolic str <= 3 chars; 0..2 other ids known before; one looped-back or foreign datagram',
                      claim='the MessageID is in _known_message_ids at every put of add_outbound_message; a received message is '
                            'dispatched to WSDiscovery iff its id is not known, so the node\'s own multicast is ignored'))
    obs.append(Ob('C15.own.loopback_after_traffic', 'harness.C15', 'own_loopback_after_traffic', timeout=tc, functions=F_OWN,
                  stubs=['NetworkingThread made with __new__ (no sockets, no threads); _known_message_ids = deque(maxlen=2..4) instead of 200',
                         'nt.random / nt.time replaced by deterministic stubs; message_reader returns a prepared message with the chosen id'],
                  bounds='memory for foreign ids of 2..4 (symbolic; the purge threshold of own ids scaled alike), 0..maxlen foreign ids '
                         'known before, own message sent, 0..5 further own messages, 0..5 new foreign messages received (more than the '
                         'memory holds), then the own message looped back at the same instant',
                  claim='the own message is ignored whatever other traffic was sent or received while its retransmissions are pending'))
    for second in (False, True):
        for stop in (False, True):
            for pa in ((0, 1) if second else (None,)):
                bind = {'second': second, 'stop': stop, 'bad_a': False}
                if pa is not None:
                    bind['pset_a'] = pa
                name = ('two_messages' if second else 'one_message') + ('.stop_while_pending' if stop else '') + \
                       ('' if pa is None else '.' + ('unicast', 'multicast')[pa] + '_first')
                obs.append(Ob(f'C15.send_loop.{name}', 'harness.C15', 'send_loop_realises_schedule', bind=bind, timeout=max(tc, 150),
                              functions=['sdc11073.wsdiscovery.networkingthread.NetworkingThread._run_send',
                                         'sdc11073.wsdiscovery.networkingthread.NetworkingThread._repeated_enqueue_msg',
                                         'sdc11073.wsdiscovery.networkingthread.NetworkingThread.add_outbound_message'],
                              stubs=['NetworkingThread made with __new__ (no sockets); real PriorityQueue and Event; the outbound selector '
                                     'always reports one writable socket; _send_msg records (MessageID, repetition, instant)',
                                     'nt.time = virtual clock (sleep(d) advances it by exactly d and fires the scenario events due in '
                                     'between); nt.random = the scenario\'s draws (corner / middle values of each parameter set)',
                                     'real interpreter semantics (float clock arithmetic); the solver enumerates the selectors'],
                              bounds='message A with unicast / multicast parameters, 3 x 3 draws' +
                                     ('; message B (2 parameter sets, 3 x 3 draws) enqueued at 0, 1/4 .. 4/4 of A\'s schedule' if second else '') +
                                     ('; stop scheduled at 0, 1/4 .. 4/4 of A\'s schedule (the loop drains the queue)' if stop else ''),
                              claim='the send loop realises the schedule: every datagram leaves not before its scheduled instant and at most '
                                    'one polling period (max of SEND_LOOP_IDLE_SLEEP, SEND_LOOP_BUSY_SLEEP) after it; 1 + repeat datagrams '
                                    'per message, in order - also for a message enqueued while another one is waiting and while stopping'))
    obs.append(Ob('C15.send_loop.after_unserialisable_message', 'harness.C15', 'send_loop_realises_schedule',
                  bind={'second': True, 'stop': False, 'bad_a': True}, timeout=max(tc, 150),
                  functions=['sdc11073.wsdiscovery.networkingthread.NetworkingThread._run_send',
                             'sdc11073.wsdiscovery.networkingthread.NetworkingThread._send_msg'],
                  stubs=['as C15.send_loop.*; message A raises in serialize()'],
                  bounds='message A (2 parameter sets, 3 x 3 draws) cannot be serialised; message B enqueued at 0 .. 4/4 of A\'s schedule',
                  claim='a message that cannot be sent does not end the sending thread: B is transmitted 1 + repeat times on schedule'))
    return obs


MANIFEST_ENTRY = {
    'engine': 'pysym+crosshair',
    'technique': 'AST->SMT translation (vf/pysym.py, z3 Int/Real) of NetworkingThread._repeated_enqueue_msg read from the current '
                 'source, random draws / clock / parameters as solver variables; CrossHair on add_outbound_message and one '
                 'iteration of _run_q_read for the own-message rule',
    'text': 'For the unicast and multicast parameter sets and for symbolic parameters (repeat <= 6 quick / 12 thorough, unwinding asserted) the '
            'negation of each envelope condition is checked for satisfiability per path; unsat = holds for every outcome of the '
            'random draws. Models are replayed on the real function with random/time patched. The translation is validated on '
            'every run against the real function on 40 concrete draws.',
    'note': 'Reals, not binary64 (rounding of send times outside the claim); the send loop and sockets are not modelled. Trusted: '
            'z3, the pysym translator (validated per run), the stub contracts for random/time/queue.',
}

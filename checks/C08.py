"""C08 - WS-Eventing subscriptions deliver exactly while alive and end cleanly (E2 pysym/z3 Real + E1 CrossHair)."""
from harness.C08_smt import FUNCS as F_LIFE
from harness.C08_smt import STUBS as STUBS_SMT
from vf.main import Ob

SMB = 'sdc11073.provider.subscriptionmgr_base'
SMS = 'sdc11073.provider.subscriptionmgr'
SMA = 'sdc11073.provider.subscriptionmgr_async'

F_SUB = F_LIFE + [SMB + '.SubscriptionBase.__init__', SMB + '.ActionBasedSubscription.__init__', SMB + '.ActionBasedSubscription.matches',
                  SMB + '.SubscriptionBase._get_soap_client', SMB + '.SubscriptionBase._mk_notification_message']
F_SEND = F_SUB + [SMS + '.BicepsSubscription.send_notification_report', SMA + '.BicepsSubscriptionAsync.async_send_notification_report']
F_MGR = F_SEND + [
    SMB + '.SubscriptionsManagerBase.on_subscribe_request', SMB + '.SubscriptionsManagerBase.on_unsubscribe_request',
    SMB + '.SubscriptionsManagerBase.on_get_status_request', SMB + '.SubscriptionsManagerBase.on_renew_request',
    SMB + '.SubscriptionsManagerBase._get_subscription_for_request', SMB + '._mk_dispatch_identifier',
    SMB + '.SubscriptionsManagerBase._mk_subscribe_response_message', SMB + '.SubscriptionsManagerBase.send_to_subscribers',
    SMB + '.SubscriptionsManagerBase._send_notification_report', SMB + '.SubscriptionsManagerBase._get_subscriptions_for_action',
    SMB + '.SubscriptionsManagerBase._do_housekeeping', SMB + '.SubscriptionsManagerBase.stop_all',
    SMB + '.SubscriptionsManagerBase._end_all_subscriptions', SMB + '.SubscriptionBase.send_notification_end_message',
    SMB + '.SubscriptionBase.close_by_subscription_manager',
    SMS + '.ActionBasedSubscriptionsManager._mk_subscription_instance', SMS + '.PathDispatchingSubscriptionsManager._mk_subscription_instance',
    SMS + '.ReferenceParamSubscriptionsManager._mk_subscription_instance',
    SMA + '.BICEPSSubscriptionsManagerBaseAsync._mk_subscription_instance', SMA + '.BICEPSSubscriptionsManagerBaseAsync.send_to_subscribers',
    SMA + '.BICEPSSubscriptionsManagerBaseAsync._async_send_notification_report',
    SMA + '.BICEPSSubscriptionsManagerBaseAsync._end_all_subscriptions', SMA + '.BicepsSubscriptionAsync.async_send_notification_end_message',
    SMA + '.SubscriptionsManagerPathAsync._mk_subscription_instance', SMA + '.SubscriptionsManagerReferenceParamAsync._mk_subscription_instance',
    'sdc11073.provider.dpwshostedservice._EventService', 'sdc11073.dispatch.dispatchkey.RequestDispatcher.on_post',
    'sdc11073.dispatch.request.RequestData.consume_current_path_element',
]

S_CLOCK = 'FakeClock: module attribute `time` of subscriptionmgr_base replaced; monotonic()/time() return one virtual clock ' \
          '(time() with a constant epoch offset); integer-valued in the CrossHair obligations'
S_POOL = 'FakePool/FakeSoapClient instead of SoapClientPool/SoapClient: every message handed to a subscriber-facing client is ' \
         'logged as (netloc, path, message); the delivery outcome ok / HTTPReturnCodeError / ConnectionRefusedError / TimeoutError ' \
         'is chosen by a selector; "sent" means handed to the client'
S_CTOR = 'subscription objects are built by the real constructor from an eventing_types.Subscribe object; the lifetime fields ' \
         '(_is_closed, notify_errors, _expire_seconds, _started, unsubscribed_at) are then overwritten with symbolic values'
S_ASYNC = 'asyncio: coroutines are driven to completion with send(None); asyncio.gather and the event-loop thread of the async ' \
          'managers are replaced by a sequential driver (no real scheduling, the fake client never suspends)'
S_THREAD = 'housekeeping thread is not started (Thread replaced by a no-op); one pass of the real _do_housekeeping loop body is ' \
           'a history step (sleep() of the fake clock ends the loop after the pass)'
S_XML = 'requests are real SOAP envelopes (MessageFactory/MessageReader without schema validation) routed through the real ' \
        '_EventService dispatcher with the device and service path elements consumed; all values inside XML are concrete ' \
        '(chosen by selector from pools)'
S_HDR = 'HTTP header of every request is the dict {"Accept-Encoding": "gzip"}'
S_MODEL = 'reference model of a subscription = what the provider promised in its responses (granted Expires, identifier), the ' \
          'virtual clock, Unsubscribe/stop seen, consecutive delivery failures against SubscriptionBase.MAX_NOTIFY_ERRORS'

META = {
    'explanation': '(a) renew / remaining_seconds / is_valid are translated from the current source into z3 Real terms (clock '
                   'readings, requested duration, provider maximum and object fields symbolic; round(x, 2) exact half-even) and the '
                   'same methods are executed by CrossHair with integer values. (b) CrossHair runs the real '
                   'BicepsSubscription.send_notification_report / BicepsSubscriptionAsync.async_send_notification_report for two '
                   'consecutive reports with symbolic lifetime state, filter/action by selector and a delivery outcome selector; the '
                   'filter oracle is a sandwich (sent => alive and some entry ends with the action; alive and action literally a '
                   'filter entry => sent). (c) the four real managers are driven through the real _EventService with real SOAP '
                   'envelopes: pre-state and up to 3 steps {Subscribe, Renew, GetStatus, Unsubscribe, report, clock advance, '
                   'housekeeping pass, stop_all} are chosen by symbolic selectors (CrossHair enumerates every combination), each '
                   'history is compared step by step with a reference model of liveness.',
    'outside': ['binary64 rounding of clock differences (the SMT part is over the reals, the CrossHair part over integers)',
                'real sockets, HTTP, the asyncio scheduler, the wall-clock period of the housekeeping thread and its interleaving '
                'with requests (a housekeeping pass is an atomic history step)',
                'histories longer than the stated number of steps (3-step histories only for the path/sync and reference-parameter/async '
                'managers); more than 2 subscriptions in the pre-state (up to 4-5 with Subscribe steps); durations/identifiers other than '
                'the pool values inside XML',
                'Renew/GetStatus on a subscription that is expired or over the failure limit but not yet collected: the statement '
                'does not say whether it is still "known"; either answer is accepted and the model follows the response',
                'SubscriptionEnd messages to subscriptions that are not live, and stop_all(send_subscription_end=False): not '
                'constrained by the statement',
                'schema validity of the messages (C04/C05), Expires given as xs:dateTime, filter dialects other than Action',
                'a Subscribe request without Accept-Encoding header handed over as a plain dict (async managers index the header '
                'mapping; the HTTP server passes an http.client.HTTPMessage, which returns None)'],
    'assumptions': [S_MODEL],
}


def _life(tier):
    t = 60 if tier == 'quick' else 300
    what = {'grant': ('granted <= provider maximum; granted <= requested when a positive duration is requested',
                      'renew(None) and renew(e), e >= 0 real; arbitrary prior state; maximum > 0 real'),
            'zero_request': ('a requested duration of exactly 0 is not answered with a longer grant',
                             'renew(0); maximum > 0 real'),
            'remaining': ('0 <= remaining_seconds <= granted + 0.005 and |remaining - max(granted - elapsed, 0)| <= 0.005 at any '
                          'later clock reading', 'renew at clock c0, read at c1 >= c0, all real'),
            'valid': ('is_valid => not closed, elapsed < granted, errors < MAX_NOTIFY_ERRORS; not closed and errors < MAX and '
                      'elapsed < granted - 0.005 => is_valid', 'arbitrary state: closed bool, errors int >= 0, granted >= 0, '
                                                               'clock >= started real')}
    obs = []
    for name, (claim, bounds) in what.items():
        obs.append(Ob(f'C08.life.{name}', 'harness.C08_smt', 'ob_life', kind='py', params={'scenario': name.split('_')[0]}, timeout=t,
                      functions=F_LIFE, stubs=STUBS_SMT, bounds=bounds + '; both subscription classes', claim=claim))
    return obs


OPS = ['subscribe', 'renew', 'getstatus', 'unsubscribe', 'report', 'advance', 'housekeeping', 'stop_all']
MGR = ['path_sync', 'refparam_sync', 'path_async', 'refparam_async']
PRE = ['empty', 'one', 'two', 'two_first_unsubscribed_collected', 'two_first_expired_collected', 'two_both_failed_once']
S_MGR = [S_CLOCK, S_POOL, S_ASYNC, S_THREAD, S_XML, S_HDR]
ALPHABET = 'steps: Subscribe(slot 0 with EndTo / slot 1 without; Expires absent, 5 s, 9999 s > max 30 s), Renew(target, same 3 ' \
           'durations), GetStatus(target), Unsubscribe(target), report(action Act1 matching both filters / Act2 matching slot 1; ' \
           'outcome ok, HTTP 500, refused, timeout for all deliveries of the step), advance(1, 4, 40 s), housekeeping pass, ' \
           'stop_all(send_subscription_end yes/no; end-message delivery ok/refused); targets: subscription #0, #1, never issued id'


def _hist(oid, tier, timeout, claim, what, twin=True, **bind):
    b = dict(bind)
    if b.get('n', 3) < 3:
        b.update(op3=0, t3=0, p3=0, q3=0)
    if b.get('n', 3) < 2:
        b.update(op2=0, t2=0, p2=0, q2=0)
    return Ob(oid, 'harness.C08', 'mgr_history', bind=b, timeout=timeout, functions=F_MGR, stubs=S_MGR, bounds=what + '; ' + ALPHABET,
              claim=claim, twin=twin)


CLAIM_H = 'at every step: responses/grants consistent (granted <= requested, <= max; GetStatus = granted - elapsed), request naming ' \
          'an unknown/unsubscribed/ended subscription => fault and unchanged table, live subscription => request succeeds; per report ' \
          'and subscription: sent => accepted, not expired, not unsubscribed/ended, under the failure limit, some filter entry ends ' \
          'with the action; alive and action literally in filter => sent exactly once to NotifyTo; stop_all(True) => exactly one ' \
          'SubscriptionEnd per live subscription, to EndTo if given else NotifyTo'


def obligations(tier):
    quick = tier == 'quick'
    t = 60 if quick else 600
    obs = _life(tier)
    for a, name in ((False, 'sync'), (True, 'async')):
        obs.append(Ob(f'C08.life.int.{name}', 'harness.C08', 'life_int', bind={'is_async': a}, timeout=t, functions=F_SUB,
                      stubs=[S_CLOCK, S_POOL], bounds='unbounded symbolic ints: maximum >= 1, requested durations >= 1 or absent, clock '
                                                     't0 <= t0+d1 <= t0+d1+d2; closed bool, errors >= 0',
                      claim='Subscribe then Renew on the real constructor/renew: granted <= requested and <= max; remaining_seconds == '
                            'max(granted - elapsed, 0); is_valid <=> not closed and elapsed < granted and errors < MAX_NOTIFY_ERRORS'))
        obs.append(Ob(f'C08.send.{name}', 'harness.C08', 'send_iff_alive', bind={'is_async': a}, timeout=t, functions=F_SEND,
                      stubs=[S_CLOCK, S_POOL, S_CTOR] + ([S_ASYNC] if a else []),
                      bounds='one subscription; closed/unsubscribed bool; errors, granted, started <= now <= now+dt unbounded symbolic '
                             'ints; filter (Act1, Act2) or empty; action of each report from 4 (literal first / second entry, proper '
                             'suffix of an entry, unrelated); first delivery outcome from 4; 2 consecutive reports',
                      claim='per report: sent => not unsubscribed, not ended, not expired, errors < limit, some filter entry ends with '
                            'the action; alive and action literally in the filter => sent exactly once to NotifyTo; a failed delivery '
                            'counts towards the limit and stops the next delivery at the limit'))
    for a, name in ((False, 'sync'), (True, 'async')):
        obs.append(Ob(f'C08.client.error_status.{name}', 'harness.C08', 'client_error_status', bind={'use_async': a}, timeout=t,
                      functions=['sdc11073.pysoap.soapclient.SoapClient._send_soap_request',
                                 'sdc11073.pysoap.soapclient_async.SoapClientAsync.async_post_message_to'],
                      stubs=['real SoapClient / SoapClientAsync and MessageReader; the HTTP connection / aiohttp session is a stub that '
                             'answers with the chosen status and body; real interpreter semantics, selectors chosen by the solver'],
                      bounds='7 status codes (200, 202, 301, 400, 404, 500, 503) x 5 bodies (empty, html error page, not utf-8, plain '
                             'text, soap fault)',
                      claim='an error status reaches the subscription as HTTPReturnCodeError (the failure both managers count and '
                            'survive) whatever the body is; 2xx with an empty body is a successful delivery'))
    obs.append(Ob('C08.pool.after_broken_connection', 'harness.C08', 'pool_after_broken_connection', timeout=t,
                  functions=['sdc11073.pysoap.soapclientpool.SoapClientPool.get_soap_client', 'sdc11073.pysoap.soapclient.SoapClient.post_message_to',
                             'sdc11073.pysoap.soapclient.SoapClient._send_soap_request'],
                  stubs=['real SoapClientPool and SoapClient; the HTTP connection is a stub that breaks once (while sending / while reading '
                         'the response / HTTP protocol error) and works afterwards; real interpreter semantics, selectors by the solver'],
                  bounds='1..3 subscriptions share the client of one network location; the connection breaks once; then the same or a '
                         'newly accepted subscription posts a notification',
                  claim='the notification is really sent (one request attempt) - a connection error of the past does not make deliveries '
                        'fail locally for ever'))
    obs.append(Ob('C08.filter.match', 'harness.C08', 'filter_match', timeout=t, functions=[SMB + '.ActionBasedSubscription.matches'],
                  bind={'maxlen': 2 if quick else 3}, stubs=[S_CTOR],
                  bounds=f'1 or 2 filter entries: symbolic str of 1..{2 if quick else 3} chars without white space; action: symbolic '
                         f'str <= {2 if quick else 3} chars',
                  claim='action literally a filter entry => matches; matches => some entry ends with the stripped action'))
    # (c) manager histories -----------------------------------------------------------------------------------------------
    cut = 'histories are cut before a step that addresses an unsubscribed, not yet collected subscription (see C08.mgr.unsub.*)'
    th, tm = (90, 60) if quick else (900, 600)
    # two live subscriptions, every pair of steps (one process per first operation)
    mgrs2 = 'managers path_sync and refparam_async' if quick else 'all 4 managers'
    for op1, name in enumerate(OPS):
        obs.append(_hist(f'C08.mgr.two.{name}', tier, th, CLAIM_H, f'{mgrs2}; pre-state: two live subscriptions; 2 steps, the first is '
                         f'"{name}"; {cut}', mkset=1 if quick else 0, pre=2, n=2, nt=3 if quick else 4, zombies=False, slim=False,
                         op1=op1))
    # after Unsubscribe, before housekeeping: one obligation per following operation (thorough: plus any third step)
    for op2, name in ((1, 'renew'), (2, 'getstatus'), (3, 'unsubscribe'), (4, 'report')):
        obs.append(_hist(f'C08.mgr.unsub.{name}', tier, tm, CLAIM_H, 'all 4 managers; pre-state: two live subscriptions; '
                         f'Unsubscribe(any target) then "{name}"' + ('' if quick else ' then any third step'), mkset=0, pre=2,
                         n=2 if quick else 3, nt=3, zombies=True, slim=False, op1=3, op2=op2))
    # every other pre-state (no longer known identifiers, failed subscriptions, empty manager): quick 1 step, thorough 2 steps
    for pre in (0, 1, 3, 4, 5):
        obs.append(_hist(f'C08.mgr.pre.{PRE[pre]}', tier, tm, CLAIM_H, f'all 4 managers; pre-state "{PRE[pre]}"; '
                         f'{1 if quick else 2} step(s); targets also "no identifier at all"' + ('' if quick else '; ' + cut),
                         mkset=0, pre=pre, n=1 if quick else 2, nt=4, zombies=False, slim=False))
    if not quick:
        # 3-step histories from two live subscriptions, one process per manager and first operation; the two managers together
        # contain every code unit (sync / async delivery, path / reference-parameter dispatch); the other two combinations run
        # in the 2-step obligations above
        for mk, mname in ((0, MGR[0]), (3, MGR[3])):
            for op1, name in enumerate(OPS):
                if name == 'report':
                    # the widest first step (every subscription may or may not get the report): one process per second step
                    for op2, name2 in enumerate(OPS):
                        obs.append(_hist(f'C08.mgr.three.{mname}.{name}.{name2}', tier, th, CLAIM_H,
                                         f'manager {mname}; pre-state: two live subscriptions; 3 steps, the first is "{name}", the '
                                         f'second "{name2}"; requested durations only absent / 5 s; {cut}', twin=(op2 == 0), mkset=0,
                                         mk=mk, pre=2, n=3, nt=3, zombies=False, slim=True, op1=op1, op2=op2))
                    continue
                obs.append(_hist(f'C08.mgr.three.{mname}.{name}', tier, th, CLAIM_H,
                                 f'manager {mname}; pre-state: two live subscriptions; 3 steps, the first is "{name}"; requested '
                                 f'durations only absent / 5 s; {cut}', mkset=0, mk=mk, pre=2, n=3, nt=3, zombies=False, slim=True,
                                 op1=op1))
    return obs


MANIFEST_ENTRY = {
    'engine': 'pysym+crosshair',
    'technique': 'AST->SMT translation (vf/pysym.py, z3 Real) of the subscription lifetime arithmetic read from the current source; '
                 'bounded symbolic execution (CrossHair/z3) of the real send methods with symbolic lifetime state; selector-driven '
                 'bounded histories on the four real subscription managers behind the real eventing dispatcher, compared with a '
                 'reference model of liveness',
    'text': 'Lifetime: for renew/remaining_seconds/is_valid the negation of each claim is unsat per path over real-valued clocks and '
            'durations (models replayed on the real methods with exact Fractions); the same code is confirmed over all paths by '
            'CrossHair for unbounded integers. Delivery: two consecutive reports to one subscription with symbolic '
            'closed/unsubscribed/errors/granted/started/now, filter and action by selector, delivery outcome by selector - sandwich '
            'oracle - for the sync and the async send method. Managers: every history of a pre-state (empty, one or two live '
            'subscriptions, first one unsubscribed+collected / expired+collected, both failed once) plus 1-2 (quick) / 2-3 '
            '(thorough) steps over 8 operations with all operand choices is executed on the real managers with real SOAP '
            'envelopes and a virtual clock (quick: all 4 managers for the 1-step and after-Unsubscribe histories, path_sync + '
            'refparam_async for the 2-step ones; thorough: all 4 for 2 steps, path_sync + refparam_async for 3 steps); faults for unknown / no longer known identifiers with unchanged table, grants, '
            'GetStatus values, per-subscriber delivery and the SubscriptionEnd routing are compared with the model.',
    'note': 'Bounded: <= 3 steps after a pre-state of <= 2 subscriptions, pool values inside XML, integer clock in the CrossHair '
            'parts, reals (not binary64) in the SMT part. Trusted: CrossHair/z3 path exhaustion, the pysym translator (validated per '
            'run on 25 random exact inputs), the environment stubs listed under assumptions. In the manager histories the solver '
            'only enumerates the selector combinations; each history itself runs on concrete values.',
}

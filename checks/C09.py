"""C09: operation invocations follow the BICEPS invocation-state protocol end to end (E1 CrossHair + E3 sched)."""
from vf.main import Ob

from harness.C09 import KIND_NAMES, OUTCOME_NAMES, STUBS_CONSUMER, STUBS_PROVIDER

META = {
    'explanation': 'Provider: one / two / a burst of Set*/Activate/SetContextState requests are pushed through the REAL port type '
                   'handlers, ServiceWithOperations._handle_operation_request, the real SdcProvider transaction-id / dispatch functions, '
                   'ScoOperationsRegistry.handle_operation_request and the body of _OperationsWorker.run (executed in the calling '
                   'thread) down to SetService.notify_operation; handler outcome (4-6 result states or an exception), direct / queued '
                   'mode, known / unknown handle and request kind are selectors, the counter start is a symbolic int. Oracle per '
                   'transaction id: response + notified states are "Wait (Wait) Start F" or "F" with one final state F that is the '
                   'same in response and report and equals the handler result; raising handler => Fail + error info; unknown handle => '
                   'Fail, no handler run, MDIB snapshot unchanged; ids strictly increasing. The transaction id counter under '
                   'concurrency is decided by engine E3: event template of generate_transaction_id recorded from the real code '
                   '(lock, reads/writes of the counter with their value relation), z3 over all interleavings of 2-3 callers, sat '
                   'schedules replayed with gated real threads. Consumer: the REAL OperationsManager.call_operation / '
                   'on_operation_invoked_report with UNCONSTRAINED symbolic transaction ids in the response and in 1-3 report parts, '
                   'states by selector and the position of the response critical section among the reports symbolic; a reference '
                   'model derived from the property text says after every step whether the Future must be complete, with which '
                   'final part and which related parts. End to end: the objects the real provider code emits are fed to the real '
                   'consumer code for every response/report race.',
    'outside': ['real threads, timeouts and the 1 s blocking put/get of the worker queue (the worker body runs in the calling thread; a '
                'stalled worker is modelled by a non-blocking put)',
                'weakref expiry of an abandoned Future, Future.result() timeouts',
                'XML (de)serialisation of requests, responses and OperationInvokedReports (identity stubs; covered by C05/C18), the '
                'HTTP/SOAP dispatching in front of the port type handler and the subscription manager behind notify_operation (C08)',
                'what the role-provider handlers do to the MDIB (C03/C10); check_invocation_timeouts',
                'transaction-id interleavings finer than lock acquire/release + counter read/write events; more than 3 concurrent '
                'callers; more than 2 concurrent consumer calls / 3 report parts; the 50-entry bound of the consumer buffer '
                '(a final report that is pushed out by 50 younger parts before the response is processed is lost by design)',
                'a consumer Future for a response with a failing state never includes reports that arrive after the response '
                '(it is completed by the response itself); whether a Fail RESPONSE carries error information (only "Fail with '
                'error information in the response or in a report of the transaction" is demanded: in direct mode the library puts '
                'it into the report only, and the consumer result of a Fail response then has no error text)',
                'that a queued operation reports the duplicate Wait, that a direct operation sends a report at all (the end-to-end '
                'obligations demand only that the consumer handle completes), order of transactions among each other',
                'operations whose handler returns a non-final state or None; a worker that was never started (_worker is None)'],
    'assumptions': ['consumer two-call obligations: the two responses carry different transaction ids (guaranteed by the provider part)',
                    'handlers return one of the final invocation states or raise (contract of ExecuteResult)'],
}

FP = ['sdc11073.provider.porttypes.porttypebase.ServiceWithOperations._handle_operation_request',
      'sdc11073.provider.porttypes.setserviceimpl.SetService._on_set_string',
      'sdc11073.provider.porttypes.setserviceimpl.SetService._on_set_value',
      'sdc11073.provider.porttypes.setserviceimpl.SetService._on_activate',
      'sdc11073.provider.porttypes.setserviceimpl.SetService._on_set_alert_state',
      'sdc11073.provider.porttypes.setserviceimpl.SetService._on_set_component_state',
      'sdc11073.provider.porttypes.setserviceimpl.SetService._on_set_metric_state',
      'sdc11073.provider.porttypes.contextserviceimpl.ContextService._on_set_context_state',
      'sdc11073.provider.porttypes.setserviceimpl.SetService.notify_operation',
      'sdc11073.provider.providerimpl.SdcProvider.generate_transaction_id',
      'sdc11073.provider.providerimpl.SdcProvider.get_operation_by_handle',
      'sdc11073.provider.providerimpl.SdcProvider.handle_operation_request',
      'sdc11073.provider.sco.ScoOperationsRegistry.handle_operation_request',
      'sdc11073.provider.sco.ScoOperationsRegistry.register_operation',
      'sdc11073.provider.sco.ScoOperationsRegistry.get_operation_by_handle',
      'sdc11073.provider.sco._OperationsWorker.run', 'sdc11073.provider.sco._OperationsWorker.enqueue_operation',
      'sdc11073.provider.operations.OperationDefinitionBase.execute_operation']
FC = ['sdc11073.consumer.operations.OperationsManager.call_operation',
      'sdc11073.consumer.operations.OperationsManager.on_operation_invoked_report',
      'sdc11073.consumer.operations.OperationsManager._mk_operation_result']
FT = ['sdc11073.provider.providerimpl.SdcProvider.generate_transaction_id']
STUBS_TID = ['provider = stub object (recording subclass) with the real SdcProvider.generate_transaction_id; _transaction_id_lock is a '
             'vf.sched.RecLock around a real threading.Lock; reads / writes of _transaction_id are logged with their values',
             'the value relation of the template (written value = last value read by the same caller + d, returned value = last value '
             'read + e) is derived from two recorded runs with different start values and must agree',
             'the capture is at lock-acquire/release + counter read/write granularity']

MODE = {False: 'direct', True: 'queued'}


def obligations(tier):
    quick = tier == 'quick'
    t = 150 if quick else 900
    pool = 4 if quick else 7
    n_out = 4 if quick else 6
    pool_txt = ('states from {Wait, Start, Fin, Fail}' if quick else 'all 7 invocation states')
    lean_txt = '; a part whose id equals no call id carries Wait or Fin only'
    outs = list(OUTCOME_NAMES[:n_out])
    obs = []

    def prov(oid, bind, bounds):
        obs.append(Ob(oid, 'harness.C09', 'provider_request', bind=bind, timeout=t, functions=FP, stubs=STUBS_PROVIDER,
                      bounds=bounds + '; known or unknown operation handle (symbolic bool); transaction counter start symbolic in N',
                      claim='response + OperationInvokedReports of the transaction form "Wait (Wait) Start F" / "F" with one final '
                            'state = handler result (Fail + error info if it raises); unknown handle: Fail, nothing executed, MDIB '
                            'unchanged; id > counter start'))
    # ---- provider, one request: direct mode per handler outcome, queued mode with the outcome as selector
    for kind in ((0,) if quick else range(7)):
        for oc in range(n_out):
            prov(f'C09.provider.{KIND_NAMES[kind]}.direct.{OUTCOME_NAMES[oc]}', {'kind': kind, 'delayed': False, 'outcome': oc},
                 f'1 {KIND_NAMES[kind]} request, direct processing, handler outcome {OUTCOME_NAMES[oc]}')
        prov(f'C09.provider.{KIND_NAMES[kind]}.queued', {'kind': kind, 'delayed': True, 'npool': n_out},
             f'1 {KIND_NAMES[kind]} request, queued processing (worker body run in the calling thread), handler outcome from {outs}')
    if quick:
        prov('C09.provider.all_kinds.fin', {'outcome': 0}, '1 request of any of the 7 kinds (selector), direct or queued (symbolic bool), '
                                                            'handler returns Fin')
    for d, kd in [(d, kd) for d in (False, True) for kd in ((0,) if quick else range(7))]:
        obs.append(Ob(f'C09.provider.raising_text.{KIND_NAMES[kd]}.{MODE[d]}', 'harness.C09', 'provider_raising_text',
                      bind={'delayed': d, 'kind': kd}, timeout=t,
                      functions=FP, stubs=STUBS_PROVIDER + ['serialisability of the error texts is decided by the real lxml (concrete, '
                                                           'untraced) on the texts handed to response and reports'],
                      bounds=f'1 {KIND_NAMES[kd]} request, {MODE[d]} processing; the handler raises RuntimeError(text): text = '
                             '"dev" with one character from 19 boundary code points of the XML 1.0 Char production (NUL, C0 controls, '
                             'TAB/LF/CR, <, &, DEL, U+D7FF, U+E000, U+FFFD, U+FFFE, U+FFFF, U+10000) at the start, inside or at the end',
                      claim='a raising handler always ends in exactly one Fail with error information whatever the exception text is; '
                            'the texts can be put on the wire'))
    # ---- provider, two requests
    for d1 in (False, True):
        for d2 in (False, True):
            obs.append(Ob(f'C09.provider.two.{MODE[d1]}.{MODE[d2]}', 'harness.C09', 'provider_two_requests',
                          bind={'delayed1': d1, 'delayed2': d2, 'npool': n_out}, timeout=t, functions=FP, stubs=STUBS_PROVIDER,
                          bounds=f'2 requests: op0 ({MODE[d1]}) then op1 ({MODE[d2]}) / op0 again / unknown handle (selector); handler '
                                 f'outcomes from {outs} each; worker drains between the requests or after both (symbolic bool); counter '
                                 'start symbolic',
                          claim='each transaction id has a legal sequence of its own, reports carry the id of their request, ids '
                                'strictly increasing, each handler runs exactly once per request'))
    obs.append(Ob('C09.provider.burst', 'harness.C09', 'provider_burst', timeout=t, functions=FP, stubs=STUBS_PROVIDER,
                  bounds='burst of n in 1..12 requests (symbolic) for one queued operation while the worker makes no progress (10 queue '
                         'slots), then the worker drains; handler outcome from {fin, finmod, fail, raises}',
                  claim='every request of the burst is answered with an invocation state (Wait + legal sequence, or Fail)'))
    # ---- transaction ids
    obs.append(Ob('C09.tid.sequential', 'harness.C09', 'tid_sequence', timeout=t, functions=FT, stubs=STUBS_PROVIDER[1:2],
                  bounds='1-4 sequential calls, counter value symbolic in N', claim='ids strictly increasing (unique)'))
    for nthr in (2, 3):
        obs.append(Ob(f'C09.tid.concurrent.n{nthr}', 'harness.C09_sched', 'ob_transaction_ids', kind='py', timeout=120,
                      params={'threads': nthr}, functions=FT, stubs=STUBS_TID,
                      bounds=f'{nthr} concurrent callers of generate_transaction_id, all interleavings of the recorded events '
                             '(lock acquire/release, counter reads/writes), counter start symbolic in N',
                      claim='no interleaving yields two equal ids, an id <= the counter start, or a call that began after another '
                            'one returned getting a smaller-or-equal id'))
    # ---- consumer, one call
    claim_one = ('the Future completes exactly once, exactly when the first final part of ITS id is available, with that part\'s '
                 'state and all parts of its id received so far; parts of other ids never complete it; every table/buffer access '
                 'holds _transactions_lock')

    def one(oid, bind, bounds, lean):
        obs.append(Ob(oid, 'harness.C09', 'consumer_one_call', bind=bind | {'pool': pool, 'lean': lean}, timeout=t, functions=FC,
                      stubs=STUBS_CONSUMER, claim=claim_one,
                      bounds=bounds + '; transaction ids of response and parts unconstrained in N; ' + pool_txt + (lean_txt if lean else '')))
    cases = [(1, None), (2, None)] + [(3, p) for p in range(4)] if quick else \
        [(n, p) for n in (1, 2, 3) for p in range(n + 1)]
    RESP = ('Wait', 'Start', 'Fin', 'FinMod')
    for n, pos in cases:
        for r in (range(4) if (n == 3 and not quick) else (None,)):      # thorough, n = 3: one process per response state
            one(f'C09.consumer.one.n{n}' + ('' if pos is None else f'.pos{pos}') + ('' if r is None else f'.resp_{RESP[r]}'),
                {'n': n, 'rf': False} | ({} if pos is None else {'pos': pos}) | ({} if r is None else {'r': r}),
                f'1 call with {"a non-failing response state" if r is None else "response state " + RESP[r]}, {n} report(s) of one part '
                f'each, response critical section after {"any number" if pos is None else pos} of them', lean=(n == 3))
    if quick:
        one('C09.consumer.one.failing_response', {'rf': True}, '1 call whose response state is Fail, 1-3 reports of one part each, every '
                                                               'position of the response', lean=True)
    else:
        for n, pos in cases:
            one(f'C09.consumer.one.failing_response.n{n}.pos{pos}', {'n': n, 'pos': pos, 'rf': True},
                f'1 call whose response state is Fail / Cnclld / CnclldMan, {n} report(s), response after {pos} of them', lean=(n == 3))
        for pos in range(4):
            obs.append(Ob(f'C09.consumer.one.n3.pos{pos}.pool4_full', 'harness.C09', 'consumer_one_call',
                          bind={'n': 3, 'pos': pos, 'rf': False, 'pool': 4, 'lean': False}, timeout=t, functions=FC,
                          stubs=STUBS_CONSUMER, claim=claim_one,
                          bounds=f'1 call, 3 reports, response after {pos}; ids unconstrained; every part from {{Wait, Start, Fin, Fail}}'))
    for early in (True, False):
        for n in ((2,) if quick else (2, 3)):
            lean = n == 3
            for r in (range(4) if n == 3 else (None,)):
                obs.append(Ob(f'C09.consumer.multi_part.{"early" if early else "late"}' + ('' if quick else f'.n{n}')
                              + ('' if r is None else f'.resp_{RESP[r]}'), 'harness.C09', 'consumer_multi_part',
                              bind={'n': n, 'early': early, 'pool': pool, 'lean': lean, 'rf': False} | ({} if r is None else {'r': r}),
                              timeout=t, functions=FC, stubs=STUBS_CONSUMER,
                              bounds=f'1 call ({"non-failing response" if r is None else "response " + RESP[r]}), ONE report with {n} parts '
                                     f'(ids/states unconstrained) {"before" if early else "after"} the response; ' + pool_txt
                                     + (lean_txt if lean else ''),
                              claim='same, for several parts handled in one critical section'))
    # ---- consumer, two calls in flight
    two = [(1, None, None)] + [(n, pa, pb) for n in ((2,) if quick else (2, 3)) for pb in range(n + 1) for pa in range(pb + 1)]
    for n, pa, pb in two:
        lean = n >= 2
        obs.append(Ob(f'C09.consumer.two.n{n}' + ('' if pa is None else f'.a{pa}.b{pb}'), 'harness.C09', 'consumer_two_calls',
                      bind={'n': n, 'pool': 4 if n == 3 else pool, 'lean': lean, 'nresp': (7, 7, 2, 1)[n]}
                      | ({} if pa is None else {'pa': pa, 'pb': pb}), timeout=t, functions=FC, stubs=STUBS_CONSUMER,
                      bounds=f'2 calls in flight (ids ta != tb, response states {("", "any non-failing", "Wait / Fin", "Wait")[n]}), {n} report '
                             f'part(s) with unconstrained ids; ' + ('every pair of response positions' if pa is None else
                                                                    f'A\'s response section after {pa}, B\'s after {pb} reports')
                             + '; ' + (pool_txt if n < 3 else 'states from {Wait, Start, Fin, Fail}') + (lean_txt if lean else ''),
                      claim='each Future is completed once, by a final part of its own id only, with its own parts only'))
    # ---- end to end
    def e2e(oid, bind, bounds):
        obs.append(Ob(oid, 'harness.C09', 'end_to_end', bind=bind | ({'kind': 0} if quick else {}), timeout=t,
                      functions=FP + FC, stubs=STUBS_PROVIDER + STUBS_CONSUMER,
                      bounds=f'1 request ({"SetString" if quick else "any kind"}), {bounds}, known / unknown handle; the consumer '
                             'processes the response after 0..3 of the provider\'s reports',
                      claim='the consumer Future completes exactly once with the state the handler produced (Fail if it raised / '
                            'unknown operation), for every race of response and reports'))
    for oc in range(n_out):
        e2e(f'C09.e2e.direct.{OUTCOME_NAMES[oc]}', {'delayed': False, 'outcome': oc}, f'direct, outcome {OUTCOME_NAMES[oc]}')
    e2e('C09.e2e.queued', {'delayed': True, 'npool': n_out}, f'queued, outcome from {outs}')
    return obs


MANIFEST_ENTRY = {
    'engine': 'crosshair+sched',
    'technique': 'bounded symbolic execution (CrossHair/z3) of the real provider request path (port type handler .. worker body .. '
                 'notify_operation) and of the real consumer OperationsManager with unconstrained symbolic transaction ids and a '
                 'symbolic response position; predictive trace analysis (recorded template + z3 over interleavings + gated replay) '
                 'for the transaction id counter',
    'text': 'Per obligation every path is explored to exhaustion; selectors cover request kind, direct/queued, handler outcome, '
            'known/unknown handle, worker drain point, burst size; the consumer reference model is checked after every critical section.',
    'note': 'Bounded: <= 2 requests (+ one burst of <= 12), <= 2 consumer calls, <= 3 report parts, <= 3 concurrent id callers. XML, HTTP '
            'and real threads/timeouts of the worker are stubbed (worker body runs in the calling thread).',
}

"""C05 - BICEPS / WS-* data types round-trip losslessly through XML (CrossHair on the real classes + FakeElement)."""
import os

from vf.main import Ob

SEED = int(os.environ.get('VERIF_SEED', '0'))

CORE = ('pm_types.CodedValue', 'pm_types.InstanceIdentifier', 'pm_types.LocalizedText',
        'statecontainers.NumericMetricStateContainer', 'statecontainers.EnumStringMetricStateContainer',
        'statecontainers.RealTimeSampleArrayMetricStateContainer',
        'statecontainers.AlertSystemStateContainer', 'statecontainers.AlertSignalStateContainer',
        'statecontainers.AlertConditionStateContainer', 'statecontainers.LimitAlertConditionStateContainer',
        'statecontainers.LocationContextStateContainer', 'statecontainers.PatientContextStateContainer',
        'eventing_types.Subscribe', 'eventing_types.SubscriptionEnd', 'wsd_types.HelloType')
QUICK_ROTATING = 10         # additional classes per quick run, chosen by VERIF_SEED (all classes are reached over ~17 seeds)
QUICK_BUDGET, THOROUGH_BUDGET = 48, 144   # max. product of per-member alternatives explored jointly in one window
QUICK_PATHS, THOROUGH_PATHS = 110, 260    # max. paths per CrossHair process: a class with more is split into parts (by window)

F_COMMON = ['sdc11073.xml_types.basetypes.XMLTypeBase.as_etree_node', 'sdc11073.xml_types.basetypes.XMLTypeBase.update_node',
            'sdc11073.xml_types.basetypes.XMLTypeBase.update_from_node', 'sdc11073.xml_types.basetypes.XMLTypeBase.from_node',
            'sdc11073.xml_types.basetypes.XMLTypeBase.sorted_container_properties',
            'sdc11073.mdib.containerbase.ContainerBase.mk_node', 'sdc11073.mdib.containerbase.ContainerBase.update_node',
            'sdc11073.mdib.containerbase.ContainerBase.update_from_node',
            'sdc11073.xml_types.xml_structure._XmlStructureBaseProperty.__get__',
            'sdc11073.xml_types.xml_structure._XmlStructureBaseProperty.__set__',
            'sdc11073.xml_types.xml_structure._XmlStructureBaseProperty.init_instance_data',
            'sdc11073.xml_types.xml_structure._XmlStructureBaseProperty.update_from_node',
            'sdc11073.xml_types.xml_structure._AttributeBase.update_xml_value',
            'sdc11073.xml_types.xml_structure._AttributeBase.get_py_value_from_node',
            'sdc11073.xml_types.xml_structure._AttributeListBase.update_xml_value',
            'sdc11073.xml_types.xml_structure._AttributeListBase.get_py_value_from_node',
            'sdc11073.xml_types.xml_structure.NodeTextProperty.update_xml_value',
            'sdc11073.xml_types.xml_structure.NodeTextProperty.get_py_value_from_node',
            'sdc11073.xml_types.xml_structure.SubElementProperty.update_xml_value',
            'sdc11073.xml_types.xml_structure.SubElementProperty.get_py_value_from_node',
            'sdc11073.xml_types.xml_structure.SubElementListProperty.update_xml_value',
            'sdc11073.xml_types.xml_structure.SubElementListProperty.get_py_value_from_node',
            'sdc11073.xml_types.xml_structure.ContainerProperty.update_xml_value',
            'sdc11073.xml_types.xml_structure.ContainerProperty.get_py_value_from_node',
            'sdc11073.xml_types.xml_structure.ContainerListProperty.update_xml_value',
            'sdc11073.xml_types.xml_structure.ContainerListProperty.get_py_value_from_node',
            'sdc11073.xml_types.xml_structure.SubElementTextListProperty.update_xml_value',
            'sdc11073.xml_types.xml_structure.SubElementTextListProperty.get_py_value_from_node',
            'sdc11073.xml_types.xml_structure.NodeTextListProperty.update_xml_value',
            'sdc11073.xml_types.xml_structure.NodeTextListProperty.get_py_value_from_node',
            'sdc11073.xml_types.xml_structure.NodeTextQNameListProperty.update_xml_value',
            'sdc11073.xml_types.xml_structure.NodeTextQNameListProperty.get_py_value_from_node',
            'sdc11073.xml_types.xml_structure.ExtensionNodeProperty.update_xml_value',
            'sdc11073.xml_types.xml_structure.ExtensionNodeProperty.get_py_value_from_node',
            'sdc11073.xml_types.xml_structure.AnyEtreeNodeListProperty.update_xml_value',
            'sdc11073.xml_types.xml_structure.AnyEtreeNodeListProperty.get_py_value_from_node',
            'sdc11073.xml_types.dataconverters.StringConverter.to_py', 'sdc11073.xml_types.dataconverters.EnumConverter.to_py',
            'sdc11073.xml_types.dataconverters.IntegerConverter.to_py', 'sdc11073.xml_types.dataconverters.BooleanConverter.to_py',
            'sdc11073.namespaces.text_to_qname', 'sdc11073.namespaces.docname_from_qname',
            'sdc11073.xml_utils.copy_node_wo_parent']

STUBS = ['FakeElement (harness/fakeetree.py) replaces lxml.etree inside xml_structure, basetypes, containerbase, xml_utils: pure-Python '
         'tree with XML wire semantics (empty text reads back as None; non-str text/attribute -> TypeError; QName values -> '
         'prefix:local with generated prefixes; append moves). Validated every run against real lxml serialise+parse (see '
         'assumptions: fidelity).',
         'assume: strings consist of XML Char code points (lxml rejects others when the value is written)',
         'assume: items of xsd list types (attribute lists, XAddrs/Scopes word lists) are non-empty and contain no whitespace '
         '(the list item value space of XML Schema); pm:HandleRef items are non-empty (minLength 1)',
         'assume: Decimal / duration / timestamp / date / QName members take values from small concrete pools (value space owned by C18)',
         'FixedClock: xml_structure.time.time() returns a constant (ClockState/@DateAndTime is rewritten on every serialisation by '
         'design and is excluded from all comparisons)',
         'normalisation: for list-valued members None and [] denote the same wire value; a member declared with default_py_value '
         'on a SubElementProperty reads back as that default when its element is absent (documented behaviour), for attribute / '
         'text descriptors default_py_value is only the initial value of a new instance; consequently, when such a member was None the '
         're-serialisation check demands stability from the second serialisation on (the first adds the default\'s empty element)']

META = {
    'explanation': 'Obligations are generated by introspection of the current source: every subclass of XMLTypeBase / ContainerBase '
                   'in pm_types, msg_types, eventing_types, wsd_types, addressing_types, dpws_types, mex_types, descriptorcontainers, '
                   'statecontainers, basetypes and every property descriptor found on them (MRO scan, not only _props). '
                   '(1) C05.kind.*: each descriptor class in each configuration that occurs in the source, driven directly: '
                   'update_xml_value(v) then update_from_node on a fresh holder returns v (symbolic str incl. "", symbolic int, bool, '
                   'enum member, list length); C05.enum.*: every member of every enum class. (2) C05.class.*: per class, members are '
                   'partitioned into windows; inside a window every optional member has a symbolic presence bit and a symbolic value '
                   '(str) or a value chosen by symbolic selector (pools, enum members, nested sample objects incl. xsi:type '
                   'substitutions, list lengths 0..2); x -> as_etree_node/mk_node -> from_node -> y must agree member-wise '
                   '(canonical snapshot, never __eq__), absent optional members must read back as the declared implied / default '
                   'value AND as the implied value documented in the bundled XSD ("The implied value SHALL be ..."), the returned '
                   'default must not be the class-level default object, and serialising y must give the same tree.',
    'outside': ['XSD validity of the produced XML and _props order versus the schema sequence (decided by libxml2; the XSDs are only '
                'used as the oracle for implied values)',
                'attribute / element NAMES versus the schema (a descriptor that writes and reads the same wrong name round-trips; '
                'only name collisions inside one class are visible, e.g. ClinicalInfo.Code)',
                'joint presence patterns across different windows of one class (members outside the window are all absent, '
                'thorough: additionally all present)',
                'nested objects are concrete samples (their own class has its own obligation); nesting depth of samples <= 2',
                'XML-illegal characters, comments, processing instructions, mixed content; namespace prefix choice of real lxml',
                'value spaces of Decimal / duration / timestamp / date lexical forms (C18); ints outside the two pool values in '
                'class obligations (symbolic ints 0..99999 only in the kind obligations)',
                'HeaderInformationBlock.reference_parameters and other plain python attributes that are not property descriptors',
                'descriptor classes that no class uses (listed in assumptions)'],
    'assumptions': [],
}


def _select(tier, H):  # noqa: N803
    reps = H.representatives()
    rep_of = {}
    for r, others in reps:
        rep_of[r] = r
        for o in others:
            rep_of[o] = r
    if tier != 'quick':
        return reps
    core = []
    for c in CORE:
        r = rep_of.get(c)
        if r and r not in core:
            core.append(r)
    rest = [r for r, _ in reps if r not in core]
    k = min(QUICK_ROTATING, len(rest))
    start = (SEED * k) % max(len(rest), 1)
    rot = [rest[(start + j) % len(rest)] for j in range(k)]
    chosen = core + rot
    return [(r, o) for r, o in reps if r in chosen]


def obligations(tier):
    from harness import C05 as H  # noqa: N812
    quick = tier == 'quick'
    budget = QUICK_BUDGET if quick else THOROUGH_BUDGET
    obs = []
    sel = _select(tier, H)

    # ---- stub validation (concrete differential run against real lxml); a disagreement is a harness error, not a verdict
    fid = H.fidelity_report([r for r, _ in sel], budget, quick)
    kfid = H.kind_fidelity_report()
    META['assumptions'] = [
        f'fidelity: {fid["samples"]} concrete samples of {fid["classes"]} classes and {kfid["samples"]} samples of {kfid["kinds"]} '
        f'descriptor configurations gave identical trees / values / exceptions through real lxml (serialise + parse) and through '
        f'FakeElement in this run; outcomes that are not "ok" with REAL lxml: '
        f'{sorted(fid["real_lxml_failures"])} {sorted(kfid["real_lxml_labels"].items())}',
        f'descriptor classes not used by any class (not exercised): {H.UNUSED_DESCRIPTORS}',
        f'classes without members (nothing to round-trip): {sorted(n for n in H.CLASSES if not H.MEMBERS[n] and not H.DANGLING_PROPS[n])}',
        f'classes with members whose kind the harness cannot generate (reported inconclusive): '
        f'{sorted(n for n in H.CLASSES if H.unsupported_members(n))}',
    ]
    if fid['mismatches'] or kfid['mismatches']:
        obs.append(Ob('C05.stub.fidelity', 'checks.C05', 'ob_fidelity_failed', kind='py', timeout=60,
                      params={'mismatches': [str(m)[:400] for m in (fid['mismatches'] + kfid['mismatches'])[:10]]},
                      claim='FakeElement agrees with real lxml on the concrete samples', bounds='concrete differential run'))

    # ---- (1) descriptor kinds
    for key in H.KIND_REPS:
        obs.append(Ob(f'C05.kind.{key}', 'harness.C05', 'kind_roundtrip', bind={'key': key}, timeout=60 if quick else 300,
                      functions=F_COMMON, stubs=STUBS, twin=(not quick or key.endswith('.0')),
                      bounds=f'{H.describe_kind(key)}; symbolic: presence bit, str s0,s1 (len <= 3, any characters, may be empty), '
                             'int n0 in [0, 99999], bool b0, selector q0 < 4 (enum member / pool value / nested sample), list length < 3',
                      claim='update_xml_value then update_from_node on a fresh instance gives back the value (absent -> implied / '
                            'default, never the class-level default object); writing the read value gives the same tree'))
    nchunks = (len(H.ENUMS) + H.ENUM_CHUNK - 1) // H.ENUM_CHUNK
    for ch in range(nchunks):
        names = [e.__name__ for e, _ in H.ENUMS[ch * H.ENUM_CHUNK:(ch + 1) * H.ENUM_CHUNK]]
        obs.append(Ob(f'C05.enum.{ch}', 'harness.C05', 'enum_roundtrip', bind={'chunk': ch}, timeout=60 if quick else 300,
                      functions=F_COMMON, stubs=STUBS, bounds=f'symbolic selectors: enum class among {names}, member among all of its members',
                      claim='every enum member is written as its value and read back as the same member'))

    # ---- (2) classes
    for rep, others in sel:
        cls = H.CLASSES[rep]
        fqn = f'{cls.__module__}.{cls.__qualname__}'
        unsupported = H.unsupported_members(rep)
        if unsupported:
            # never silently skipped: the class is listed as inconclusive (its other members are still analysed below)
            obs.append(Ob(f'C05.class.{rep}.unsupported_members', 'checks.C05', 'ob_unsupported', kind='py', timeout=30,
                          params={'cls': rep, 'members': unsupported}, bounds='-',
                          claim='every member of the class is of a kind the harness can generate values for'))
        total = sum(H.plan_paths(rep, budget, quick))
        nparts = max(1, -(-total // (QUICK_PATHS if quick else THOROUGH_PATHS)))
        nparts = min(nparts, len(H.get_plan(rep, budget, quick)))
        for bg in ((0,) if quick else (0, 1)):
            for part in range(nparts):
                plan = H.describe_plan(rep, budget, quick, part, nparts)
                oid = f'C05.class.{rep}' + (f'.part{part}' if nparts > 1 else '') + ('' if bg == 0 else '.bg_present')
                obs.append(Ob(oid, 'harness.C05', 'class_roundtrip',
                              bind={'cname': rep, 'budget': budget, 'quick': quick, 'part': part, 'nparts': nparts, 'bg': bg},
                              timeout=90 if quick else 900, twin=(bg == 0 and part == 0),
                              functions=F_COMMON + [fqn + '.__init__', fqn + '.from_node'],
                              stubs=STUBS + ([f'members of unsupported kind left at their constructed value: {unsupported}'] if unsupported else []),
                              bounds=f'class {rep}' + (f' (same declarations, hence also: {others})' if others else '') +
                                     f'; symbolic: window selector, per optional member of the window a presence bit, str members = '
                                     f'symbolic str (1..3 chars), other members by symbolic selector (int: 2 pool values, bool, enum: '
                                     f'{"2" if quick else "3"} members, Decimal/duration/timestamp/date/QName: 2 pool values, nested '
                                     f'object: {"2" if quick else "3"} samples incl. xsi:type substitution, lists: length 0..2); members '
                                     f'outside the window: {"absent / empty" if bg == 0 else "all present (concrete)"}; {plan}',
                              claim='from_node(as_node(x)) equals x member-wise; absent members read back as implied/default (also per '
                                    'XSD documentation) and not as the shared class-level object; as_node(from_node(as_node(x))) == as_node(x)'))
    obs.append(Ob('C05.schema_mapping.selected', 'harness.C05_real', 'schema_mapping', timeout=120,
                  functions=['sdc11073.xml_types.pm_types.CauseInfo', 'sdc11073.xml_types.pm_types.PerformedOrderDetail',
                             'sdc11073.xml_types.addressing_types.RelatesTo'],
                  stubs=['real lxml and the bundled schemas (schema_resolver.mk_schema_validator); hand-built values, selectors chosen '
                         'by the solver; real interpreter semantics'],
                  bounds='3 members whose mapping to the schema a library-internal round trip cannot see (CauseInfo.RemedyInfo optional, '
                         'PerformedOrderDetail.ResultingClinicalInfo element name, RelatesTo/@RelationshipType attribute) x 2 variants',
                  claim='the written XML validates against the bundled schemas, a schema-valid document is read back to the value, an '
                        'explicit attribute is not replaced by the implied value'))
    only = os.environ.get('VERIF_ONLY')      # development aid: run only obligations whose id contains one of these texts
    if only:
        obs = [o for o in obs if any(t in o.id for t in only.split(','))]
    return obs


def ob_unsupported(ctx):
    return {'verdict': 'inconclusive', 'reach': True, 'engine': 'introspection',
            'reason': f'members of {ctx.params["cls"]} use a descriptor kind the harness cannot generate values for: {ctx.params["members"]}'}


def ob_fidelity_failed(ctx):
    return {'verdict': 'error', 'reason': 'FakeElement disagrees with real lxml: ' + '; '.join(ctx.params['mismatches'])}


MANIFEST_ENTRY = {
    'engine': 'crosshair',
    'technique': 'bounded symbolic execution (CrossHair/z3) of the real property descriptors and of as_etree_node/mk_node -> from_node '
                 'for every declared data type, on a pure-Python element tree with XML wire semantics; obligations generated by '
                 'introspection of the source; implied values cross-checked against the bundled XSD documentation',
    'text': 'Per descriptor configuration: value -> node -> value with symbolic str/int/bool/selectors ("Confirmed over all paths"). '
            'Per class: symbolic presence bits and values for the members of one window at a time; member-wise canonical comparison, '
            'implied/default values for absent members, identity of returned defaults, re-serialisation. quick: core classes + a '
            'VERIF_SEED-rotated sample; thorough: every class (one representative per group of classes with identical declarations).',
    'note': 'Trusted: CrossHair/z3 path exhaustion; FakeElement (validated each run by a concrete differential run against lxml '
            'serialise+parse); XSD validity is decided by libxml2 and is outside the claim. Bounded: str <= 3 chars, lists <= 2, '
            'nested samples concrete, presence patterns joint only inside a window.',
}

from vf.main import Ob

META = {'explanation': 'wip', 'outside': []}
MANIFEST_ENTRY = {'engine': 'crosshair', 'technique': 'wip', 'text': 'wip', 'note': 'wip'}

def obligations(tier):
    import os
    names = os.environ.get('C05_ONLY', 'pm_types.CodedValue,pm_types.InstanceIdentifier').split(',')
    return [Ob(f'C05.class.{n}', 'harness.C05', 'class_roundtrip', bind={'cname': n, 'budget': 48, 'quick': True, 'bg': 0},
               timeout=90, bounds='wip', claim='wip') for n in names]

from vf.main import Ob

META = {
    'explanation': 'Location scopes. (1) SdcLocation(...).scope_string -> SdcLocation.from_scope_string gives back the same root and '
                   'the same six elements, for element values spelled per character (symbolic selector) from an alphabet of reserved '
                   'URL characters (/ ? & = # % + space), non-ASCII letters (2- and 4-byte UTF-8) and more, and for every combination '
                   'of present / absent elements. (2) The scopes a provider publishes (real LocationContextStateContainer.'
                   'update_from_sdc_location + real mk_scopes / _query_from_location_state over a stub MDIB) are recognised by the '
                   'real SdcLocation.filter_services_inside as inside the location itself, inside every location that leaves any '
                   'subset of the elements open, inside the unrestricted location, and inside no location that differs in a '
                   'specified element (longer, shorter, other, case, absent at the provider, "+" vs space, %2F vs "/"). (3) '
                   'filter_services_inside never raises on foreign scopes: composed from scheme / authority / 0-4 path segments / '
                   'malformed queries, spelled from a hostile alphabet behind 4 prefixes, and unconstrained symbolic strings.',
    'outside': ['empty string vs None element values (the API documents both as "absent"; compared as equal)',
                'a root containing "/" (scope_string quotes the root with safe="/"; the class documents root as a plain identifier)',
                'lone surrogates in element values (not Unicode scalar values; urllib.quote cannot encode them)',
                'unrestricted symbolic unicode element values (urllib.quote does not confirm; exhaustion is claimed for the selector '
                'alphabet only)',
                'a provider location without any element (update_from_sdc_location rejects it by design, tested upstream)',
                'foreign scopes: which answer is given for sdc.ctxt.loc URIs with an authority, a path of other than two segments, '
                'repeated / undecodable query keys, or an upper-case scheme — only "does not raise" is demanded there',
                'the MDIB behind mk_scopes (stub exposing entities.by_node_type; real containers)'],
}

F_RT = ['sdc11073.location.SdcLocation.scope_string', 'sdc11073.location.SdcLocation.from_scope_string',
        'sdc11073.location.SdcLocation._scope_string_matches', 'sdc11073.location.SdcLocation.__contains__']
F_PUB = ['sdc11073.provider.scopesfactory.mk_scopes', 'sdc11073.provider.scopesfactory._query_from_location_state',
         'sdc11073.mdib.statecontainers.LocationContextStateContainer.update_from_sdc_location',
         'sdc11073.mdib.statecontainers.LocationContextStateContainer._loc_extension_segment',
         'sdc11073.location.SdcLocation.filter_services_inside', 'sdc11073.location.SdcLocation._service_matches',
         'sdc11073.location.SdcLocation._scope_string_matches', 'sdc11073.location.SdcLocation.from_scope_string',
         'sdc11073.location.SdcLocation.__contains__', 'sdc11073.location.SdcLocation.scope_string']
F_FOREIGN = ['sdc11073.location.SdcLocation.filter_services_inside', 'sdc11073.location.SdcLocation._service_matches',
             'sdc11073.location.SdcLocation._scope_string_matches', 'sdc11073.location.SdcLocation.from_scope_string',
             'sdc11073.location.SdcLocation.__contains__']
S_MDIB = ['StubMdib: data_model of SdcV1Definitions, entities.by_node_type -> one location entity holding the real '
          'LocationContextStateContainer, one MDS with Type code "c/1"; nothing else of the MDIB is read by mk_scopes',
          'DeprecationWarnings of SdcLocation.root / scope_string silenced', 'logging disabled']
EL = ('fac', 'bldng', 'flr', 'poc', 'rm', 'bed')
ALPHA_TXT = 'a / ? & = # % + space ä ; : U+1F600 " newline backslash'
PREFIXES = ('sdc.ctxt.loc:', '', 'sdc.ctxt.loc:/r/e?', 'sdc.ctxt.loc:/r/e?fac=')


def obligations(tier):
    quick = tier == 'quick'
    t = 150 if quick else 600
    obs = []

    # ---- (1) round trip
    if quick:
        rt = [({'ex': ex, 'ey': ey, 'nal': 10, 'maxx': 2, 'maxy': 1}, f'{EL[ex]}2.{EL[ey]}1') for ex, ey in ((0, 5), (3, 1), (4, 2))]
    else:
        rt = []
        for ex, ey in ((0, 5), (3, 1), (4, 2), (2, 0)):     # 2 x 2 characters over 12 letters, split on the first letter of x
            rt += [({'ex': ex, 'ey': ey, 'nal': 12, 'maxx': 2, 'maxy': 2, 'nx': 2, 'x0': c}, f'{EL[ex]}2.{EL[ey]}2.c{c}') for c in range(12)]
            rt.append(({'ex': ex, 'ey': ey, 'nal': 12, 'maxx': 1, 'maxy': 2}, f'{EL[ex]}1.{EL[ey]}2'))
        # 3 characters over 12 letters in one element, <= 1 in another, split on the first letter
        rt += [({'ex': ex, 'ey': ey, 'nal': 12, 'maxx': 3, 'maxy': 1, 'nx': 3, 'x0': c}, f'{EL[ex]}3.{EL[ey]}1.c{c}')
               for ex, ey in ((0, 1), (5, 0)) for c in range(12)]
        # the 4 remaining letters of the alphabet (" newline backslash U+1F600 included), 2 + 1 characters
        rt += [({'ex': 0, 'ey': 5, 'nal': 16, 'maxx': 2, 'maxy': 1}, 'fac2.bed1.full-alphabet')]
    for bind, name in rt:
        obs.append(Ob(f'C16.roundtrip.hostile.{name}', 'harness.C16', 'roundtrip_hostile', bind=bind, timeout=t, functions=F_RT,
                      twin=quick, stubs=S_MDIB[1:],
                      bounds=f'{EL[bind["ex"]]}: 0..{bind["maxx"]} characters, {EL[bind["ey"]]}: 0..{bind["maxy"]} characters (0 = element '
                             f'absent), each character one of the first {bind["nal"]} of [{ALPHA_TXT}]; other elements absent; default root'
                             + (f'; case split: {bind["nx"]} characters, first one index {bind["x0"]}' if 'x0' in bind else ''),
                      claim='from_scope_string(scope_string) has the same root and the same six elements; the string is inside its own '
                            'location'))
    for ri in range(7):
        obs.append(Ob(f'C16.roundtrip.presence.root{ri}', 'harness.C16', 'roundtrip_presence', bind={'root': ri}, timeout=t, functions=F_RT, stubs=S_MDIB[1:],
                      bounds='all 64 present/absent combinations of the six elements x 7 roots (default, "my root", "r?&#=", "ä%+", "a/b", '
                             '"http://hospital.example/locations", "/") x 2 value styles (plain; with space & = # ? %2F + ä / ;) x one '
                             'element optionally given as the empty string',
                      claim='same as above for every presence pattern and non-default roots; the round-trip result equals the original '
                            '(same hash) and both are inside each other'))

    # ---- (2) published scopes
    id_names = ('fallback-id', 'root-only-id', 'site-id-first', 'site-id-last')
    id_text = ('fallback instance identifier written by update_from_sdc_location',
               'InstanceIdentifier(root="sdc.ctxt.loc.detail") without extension',
               'a site-specific InstanceIdentifier (other root) in front of the fallback one: two location scopes are published',
               'a site-specific InstanceIdentifier (other root) behind the fallback one: two location scopes are published')
    for ident in (0, 1, 2, 3):
        obs.append(Ob(f'C16.published.inside.{id_names[ident]}', 'harness.C16', 'published_inside',
                      bind={'ident': ident}, timeout=t, functions=F_PUB, stubs=S_MDIB,
                      bounds='per element: absent / present and specified by the enclosing location / present and left open (3^6 patterns, '
                             'at least one present); 2 value styles; Identification = '
                             + id_text[ident],
                      claim='the published service is returned by filter_services_inside of its own location, of every enclosing '
                            'location and of the unrestricted location; a service without scopes never is'))
    obs.append(Ob('C16.published.after-update', 'harness.C16', 'published_after_update', timeout=t, functions=F_PUB, stubs=S_MDIB,
                  bounds='the same LocationContextState updated twice with update_from_sdc_location: every present/absent pattern of the '
                         'six elements for the first (64) and for the second location (64)',
                  claim='the scope published afterwards is the one of the SECOND location: parses back to it, inside it, not inside a '
                        'location that specifies an element only the first one had'))
    obs.append(Ob('C16.roundtrip.parse-results-independent', 'harness.C16', 'parse_results_independent', timeout=t,
                  functions=F_PUB + ['sdc11073.location.SdcLocation.from_scope_string'], stubs=S_MDIB + [
                      'library calls run with real interpreter semantics on concrete values chosen by symbolic selectors (CrossHair\'s '
                      'tracer by-passes functools caches, so a memoised parser would be invisible under tracing)'],
                  bounds='every present/absent pattern of the six elements (64) x 2 value styles x element changed (6) x changed / cleared '
                         'x 1 or 2 later parses of the same string',
                  claim='parsing a scope string again after the owner changed an earlier result yields the location the string spells, '
                        'a new object each time; matching and filtering are unaffected'))
    diff_cases = [(d, 0) for d in range(6)] + ([(0, 1)] if quick else [(d, 1) for d in range(6)])
    for d, ident in diff_cases:
        obs.append(Ob(f'C16.published.differs.{EL[d]}{".root-only-id" if ident else ""}', 'harness.C16', 'published_differs',
                      bind={'d': d, 'ident': ident}, timeout=t, functions=F_PUB, stubs=S_MDIB,
                      bounds=f'element {EL[d]} differs: provider/consumer value in (ab,abc) (ab,a) (ab,xy) (absent,ab) (ab,AB) ("a b","a+b") '
                             '("a/b","a%2Fb"); the other five elements absent / equal / left open (3^5)',
                      claim='a location that differs from the published one in a specified element does not contain the service'))

    # ---- (3) foreign scopes
    for c in (0, 1):
        obs.append(Ob(f'C16.foreign.composed.{"authority-ok" if c == 0 else "authority-rejected"}', 'harness.C16', 'foreign_composed',
                      bind={'aclass': c}, timeout=t, functions=F_FOREIGN, stubs=['logging disabled'],
                      bounds='scope = scheme in {sdc.ctxt.loc SDC.ctxt.LOC sdc.ctxt.loc.x sdc.ctxt.opr http none} + authority in '
                             + ('{none // //h //h:1 //[::1]}' if c == 0 else '{//[ //] //[x] //U+2100} (texts urllib.parse.urlsplit rejects)')
                             + ' + 0..4 path segments + one of 15 queries (well-formed, blank, repeated, undecodable, ";"-separated, '
                             'fragment only); service scopes = [key purpose scope, that scope]; consumer location fac=f1',
                      claim='filter_services_inside never raises; other schemes are never inside; a well-formed two-segment location '
                            'scope is inside iff its query gives fac=f1'))
    if quick:
        sel = [({'n': 3, 'prefix': p}, f'n3.p{p}') for p in (0, 1, 3)]
    else:
        sel = [({'n': 3, 'prefix': p}, f'n3.p{p}') for p in (1, 2)] + \
              [({'n': 4, 'prefix': p, 'c0': c}, f'n4.p{p}.c{c}') for p in (0, 3) for c in range(14)]
    for bind, name in sel:
        obs.append(Ob(f'C16.foreign.sel.{name}', 'harness.C16', 'foreign_sel', bind=bind, timeout=t, functions=F_FOREIGN, twin=quick,
                      stubs=['logging disabled'],
                      bounds=f'scope = {PREFIXES[bind["prefix"]]!r} + <= {bind["n"]} characters from / ? & = % # : [ ] ; + f 1'
                             + (f' (first character index {bind["c0"]})' if 'c0' in bind else ''),
                      claim='filter_services_inside never raises'))
    sym_cases = [(p, 2 - (p >= 2), False) for p in range(4)]        # behind '?' the text runs through parse_qsl: one character less
    if not quick:
        sym_cases += [(p, 3 - (p >= 2), True) for p in range(4)]
    for p, ml, asc in sym_cases:
        obs.append(Ob(f'C16.foreign.sym.p{p}' + ('.ascii' if asc else ''), 'harness.C16', 'foreign_sym',
                      bind={'prefix': p, 'maxlen': ml, 'ascii_only': asc}, timeout=t if quick else 900, functions=F_FOREIGN,
                      stubs=['logging disabled'],
                      bounds=f'scope = {PREFIXES[p]!r} + unconstrained symbolic {"ASCII" if asc else "unicode"} string of <= {ml} characters',
                      claim='filter_services_inside never raises'))
    return obs


MANIFEST_ENTRY = {
    'engine': 'crosshair',
    'technique': 'bounded symbolic execution (CrossHair/z3) of the real SdcLocation / mk_scopes / update_from_sdc_location code with '
                 'selector-spelled hostile strings, presence patterns and composed or unconstrained foreign scope strings',
    'text': 'Every path explored to exhaustion: scope_string -> from_scope_string over element values spelled from a hostile alphabet and '
            'all presence patterns; scopes published by mk_scopes for a location are inside the location, all 3^6 enclosing patterns '
            'and no location differing in a specified element; filter_services_inside is total over composed, spelled and '
            'unconstrained symbolic foreign scopes; parse - change the result - parse again hands out independent, unchanged locations '
            '(real interpreter semantics: CrossHair by-passes functools caches).',
    'note': 'Trusted: CrossHair/z3 path exhaustion. Bounded: element values <= 2 (quick) / 3 (thorough) characters from a 10-16 letter '
            'alphabet in 2 elements at a time; foreign scopes <= 4 path segments, <= 3-4 spelled or 2-3 unconstrained characters behind '
            'fixed prefixes. The MDIB behind mk_scopes is a stub exposing exactly what mk_scopes reads.',
}

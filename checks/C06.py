from vf.main import Ob
from harness.mdibkit import STUBS

META = {
    'explanation': 'Every delivered report carries UNCONSTRAINED symbolic (MdibVersion, StateVersion, value id, SequenceId selector, '
                   'InstanceId selector): each lost / duplicated / re-ordered / replayed delivery of each provider history is an '
                   'instance of the symbolic pair (triple) of reports. The real ConsumerMdib.process_incoming_* / reload_all code is '
                   'explored to path exhaustion; after every delivery: versions non-decreasing, stale or duplicate reports change '
                   'nothing, newer ones are taken over exactly, unrelated states untouched, indices == scan, an id change '
                   'invalidates and freezes the MDIB; reload_all with reports arriving while GetMdib is in flight applies exactly the '
                   'newer ones, once.',
    'outside': ['the thread that fires sequence_or_instance_id_changed_event (replaced by a direct call)',
                'XML parsing of the notifications (report objects are built directly)',
                'more than 2 reports per obligation (plus one replayed delivery); one metric, one alert, two context handles',
                'the SdcConsumer / deferred request handler plumbing in front of the MDIB (request_handler_deferred.py)'],
    'assumptions': ['the delivered reports and the initial / GetMdib content stem from ONE functional provider history: for one handle a '
                    'greater MdibVersion carries a greater StateVersion, equal MdibVersion the same StateVersion and content; a report '
                    'not newer than a snapshot carries no newer state'],
}
F = ['sdc11073.mdib.consumermdib.ConsumerMdib.process_incoming_metric_states_report',
     'sdc11073.mdib.consumermdib.ConsumerMdib.process_incoming_alert_states_report',
     'sdc11073.mdib.consumermdib.ConsumerMdib.process_incoming_context_states_report',
     'sdc11073.mdib.consumermdib.ConsumerMdib.process_incoming_description_modifications',
     'sdc11073.mdib.consumermdib.ConsumerMdib._pre_check_report_ok',
     'sdc11073.mdib.consumermdib.ConsumerMdib._can_accept_mdib_version',
     'sdc11073.mdib.consumermdib.ConsumerMdib._has_new_state_usable_state_version',
     'sdc11073.mdib.consumermdib.ConsumerMdib._check_sequence_or_instance_id_changed',
     'sdc11073.mdib.consumermdib.ConsumerMdib._update_from_mdib_version_group',
     'sdc11073.mdib.consumermdib.ConsumerMdib._update_from_states_report',
     'sdc11073.mdib.consumermdib.ConsumerMdib._update_from_context_states_report',
     'sdc11073.mdib.consumermdib.ConsumerMdib.reload_all']
KINDS = ['metric', 'context', 'context_new_handle', 'alert']
MODS = ['create', 'update', 'delete']


def obligations(tier):
    t = 150 if tier == "quick" else 900
    obs = []
    pairs = [(a, b) for a in range(4) for b in range(4)]
    if tier == 'quick':
        pairs = [(0, 0), (1, 1), (0, 1), (2, 2), (3, 0)]
    IDS = ['same_ids', 'r1_other_sequence', 'r1_other_instance', 'r2_other_sequence', 'r2_other_instance']
    for a, b in pairs:
        for ids in ((0, 1, 2, 3, 4) if (tier == 'thorough' or (a, b) == (0, 0)) else (0,)):
            obs.append(Ob(f'C06.faulty.{KINDS[a]}.{KINDS[b]}.{IDS[ids]}', 'harness.C06', 'faulty_delivery',
                          bind={'kind1': a, 'kind2': b, 'ids': ids}, timeout=t, functions=F, stubs=STUBS,
                          bounds='2 reports; symbolic MdibVersion x3 and StateVersion x3 in N (unconstrained: every order/equality '
                                 'pattern); content a function of (handle, StateVersion); ' + IDS[ids],
                          claim='no regression, stale/duplicate ignored, newer applied exactly, id change freezes the MDIB, '
                                'indices == scan'))
    if tier == 'thorough':
        for a, b, c in ((0, 0, 0), (0, 0, 1), (0, 1, 0), (1, 0, 0), (1, 1, 1), (0, 1, 2), (2, 2, 2), (0, 2, 0), (1, 1, 0)):
            obs.append(Ob(f'C06.faulty3.{KINDS[a]}.{KINDS[b]}.{KINDS[c]}', 'harness.C06', 'faulty_delivery3',
                          bind={'kind1': a, 'kind2': b, 'kind3': c}, timeout=1500, functions=F, stubs=STUBS, twin=False,
                          bounds='3 reports; symbolic MdibVersion x4 and StateVersion x4 in N (every order / equality pattern)',
                          claim='same as faulty.* over three deliveries'))
    rp = [(a, b) for a in range(2) for b in range(2)] if tier == 'thorough' else [(0, 0), (0, 1)]
    for a, b, seq1, late in [(a, b, s1, lt) for a, b in rp for s1 in (False, True) for lt in (False, True)
                             if tier == 'thorough' or (s1, lt) in ((False, True), (True, False))]:
        obs.append(Ob(f'C06.reload.{KINDS[a]}.{KINDS[b]}.{"otherseq" if seq1 else "sameseq"}.{"replay" if late else "noreplay"}',
                      'harness.C06', 'reload_with_inflight', bind={'kind1': a, 'kind2': b, 'seq1': seq1, 'late': late},
                      timeout=t, functions=F, stubs=STUBS + ['GetMdib is answered by a stub service client whose answer is built from '
                                                            'symbolic versions; two reports are delivered from inside get_mdib()'],
                      bounds='GetMdib versions (mdib, state) and 2 in-flight reports with unconstrained versions, optional replay of '
                             'report 1 after the reload',
                      claim='after reload_all the MDIB holds the GetMdib content plus exactly the buffered reports that are newer, each '
                            'applied once; a replayed notification changes nothing'))
    mp = [(a, b) for a in range(3) for b in range(3)] if tier == 'thorough' else [(0, 0), (1, 2), (2, 0), (1, 1)]
    for a, b in mp:
        obs.append(Ob(f'C06.descr.{MODS[a]}.{MODS[b]}', 'harness.C06', 'description_report_faults', bind={'mod1': a, 'mod2': b},
                      timeout=t, functions=F, stubs=STUBS,
                      bounds='2 DescriptionModificationReports (1 part each) with unconstrained MdibVersions and unconstrained '
                             'DescriptorVersion / StateVersion per report',
                      claim='no report makes the handler fail (duplicate CREATE, UPDATE of something unknown ...), lookups stay '
                            'consistent, no dangling state, no StateVersion decreases, a stale report changes nothing'))
    for cp in (1, 2):
        obs.append(Ob(f'C06.reload.description_create.x{cp}', 'harness.C06', 'reload_with_description_reports', bind={'copies': cp}, timeout=t,
                      functions=[*F, 'sdc11073.mdib.consumermdib.ConsumerMdib._process_incoming_description_modifications',
                                 'sdc11073.mdib.consumermdib.ConsumerMdib._can_accept_report'], stubs=STUBS,
                      bounds=f'reload_all while the CREATE report of metric m9 arrives {cp}x during GetMdib; unconstrained MdibVersions of '
                             'answer and report; optionally the state report of the same transaction first; optionally from another '
                             'InstanceId; the answer does / does not contain m9',
                      claim='the load ends initialized with an empty buffer; reports of this provider instance newer than the answer are '
                            'applied exactly once, all others not at all; no exception, no state without descriptor'))
    obs.append(Ob('C06.faulty.waveform.waveform', 'harness.C06', 'faulty_waveforms', timeout=t,
                  functions=[*F, 'sdc11073.mdib.consumermdib.ConsumerMdib.process_incoming_waveform_states',
                             'sdc11073.mdib.consumermdib.ConsumerRtBuffer.add_rt_sample_containers'], stubs=STUBS,
                  bounds='2 WaveformStream notifications for one sample array with unconstrained MdibVersion / StateVersion (any order, '
                         'duplicates, stale); 2 samples each; functional provider',
                  claim='stale / duplicated waveform notifications change neither the state, nor the waveform buffer the application '
                        'reads, nor are they announced as updates; applied ones are buffered exactly once'))
    return obs


MANIFEST_ENTRY = {
    'engine': 'crosshair+sched',
    'technique': 'bounded symbolic execution (CrossHair/z3) of the real ConsumerMdib report handlers and reload_all with unconstrained '
                 'symbolic version counters per delivered report (fault schedule = solver variables); reload_all vs. concurrently '
                 'arriving report threads: recorded templates + SMT over interleavings with read-value consistency, gated replay',
    'text': 'Two (plus one replayed) reports with unconstrained MdibVersion/StateVersion/ids cover every drop, duplication and '
            're-ordering of any two reports of any provider history; "Confirmed over all paths" = no regression for ALL version values.',
    'note': 'Bounded to 2-3 deliveries per obligation, 4 state handles + 1 waveform; update notifications (*_by_handle) and the waveform '
            'buffer are part of the compared state; XML parsing and the id-change notification thread are stubbed; '
            'functional-provider assumption on report content.',
}


# ---------------------------------------------------------------- E3: reload_all vs. a concurrently arriving report

E3_STUBS = ['ConsumerMdib with a stub client; GetMdib answered by a stub service client (concrete versions)',
            '_buffered_notifications_lock and mdib_lock replaced by recording wrappers; reads / writes of ConsumerMdib._state and '
            'uses of the notification buffer (append, iterate, drain) logged by a recording subclass / list proxy',
            'the report thread is recorded on the path it takes while the MDIB is initializing; a schedule in which one of its '
            'recorded reads of _state would observe another value is excluded (the thread would take a path that was not recorded)']


def _e3_obligations(tier):
    obs = []
    for n in ((1,) if tier == 'quick' else (1, 2)):
        obs.append(Ob(f'C06.e3.reload_vs_report.r{n}', 'checks.C06', 'ob_reload_race', kind='py', timeout=240, params={'reports': n},
                      functions=['sdc11073.mdib.consumermdib.ConsumerMdib.reload_all',
                                 'sdc11073.mdib.consumermdib.ConsumerMdib._pre_check_report_ok',
                                 'sdc11073.mdib.consumermdib.ConsumerMdib.process_incoming_metric_states_report'],
                      stubs=E3_STUBS,
                      bounds=f'1 reload_all thread x {n} report thread(s); all interleavings of the recorded lock / _state / buffer events '
                             'that are consistent with the recorded _state values',
                      claim='no interleaving appends a report to the notification buffer after reload_all has drained it (report lost)'))
    return obs


_orig_obligations = obligations


def obligations(tier):  # noqa: F811
    return _orig_obligations(tier) + _e3_obligations(tier)


class _BufProxy(list):
    def __init__(self, rec):
        super().__init__()
        self._rec = rec

    def append(self, x):
        self._rec.event('buf', 'append')
        super().append(x)

    def __iter__(self):
        self._rec.event('buf', 'iter')
        return super().__iter__()

    def __delitem__(self, k):
        self._rec.event('buf', 'drain')
        super().__delitem__(k)


def _e3_build():
    import types
    from harness import C06 as h
    from harness import mdibkit as k
    from sdc11073.mdib.consumermdib import ConsumerMdibState
    from sdc11073.mdib.mdibbase import MdibVersionGroup
    from vf import sched
    rec = sched.Recorder()
    cm = k.mk_consumer(0, containers=h._small_containers(False))
    base = type(cm)

    class Rec(base):
        def __getattribute__(self, name):
            if name == '_state':
                if rec.mode == 'replay':
                    rec.event('read', '_state')        # gate FIRST, then read: the value must be the one at the scheduled point
                    return base.__getattribute__(self, name)
                v = base.__getattribute__(self, name)
                rec.event('read', '_state=' + v.name)
                return v
            return base.__getattribute__(self, name)

        def __setattr__(self, name, value):
            if name == '_state':
                rec.event('write', '_state' if rec.mode == 'replay' else '_state=' + value.name)
            base.__setattr__(self, name, value)
    Rec.__name__ = base.__name__
    cm.__class__ = Rec
    object.__setattr__(cm, 'mdib_lock', sched.RecLock(rec, 'mdib_lock', base.__getattribute__(cm, 'mdib_lock')))
    object.__setattr__(cm, '_buffered_notifications_lock',
                       sched.RecLock(rec, 'buf_lock', base.__getattribute__(cm, '_buffered_notifications_lock')))
    object.__setattr__(cm, '_buffered_notifications', _BufProxy(rec))
    object.__setattr__(cm, '_state', ConsumerMdibState.invalid)

    class Svc:
        def get_mdib(self):
            ds = h._small_containers(False)
            k.set_source_mds(ds)
            sts = k.mk_states(cm, ds)
            for st in sts:
                if st.DescriptorHandle == 'm0':
                    st.StateVersion = 5
            ctx = h._ctx_state(cm, 5, 'getmdib', descr=[d for d in ds if d.Handle == 'pc0'][0])
            return types.SimpleNamespace(result=(ds, sts + [ctx]), mdib_version_group=MdibVersionGroup(10, k.SEQ, 1))
    svc = Svc()
    object.__setattr__(cm, '_sdc_client', types.SimpleNamespace(client=lambda name: svc, sdc_definitions=k.StubClient.sdc_definitions))
    return rec, cm


def _e3_report(cm, i):
    from harness import C06 as h
    rep, vg, _action = h._report(cm, 0, 20 + i, 6 + i, f'r{i}', False, False)
    return lambda: cm.process_incoming_metric_states_report(vg, rep)


def _state_reads_consistent(z3, templates, order):
    """Every recorded read of _state must observe the value it observed when it was recorded."""
    writes = [(lab, i, w.split('=')[1]) for lab, tpl in templates.items() for i, (kd, w) in enumerate(tpl)
              if kd == 'write' and w.startswith('_state=')]
    cons = []
    for lab, tpl in templates.items():
        for i, (kd, w) in enumerate(tpl):
            if kd != 'read' or not w.startswith('_state='):
                continue
            val = w.split('=')[1]
            r = order[(lab, i)]
            opts = []
            if val == 'invalid':      # initial value
                opts.append(z3.And([order[(wl, wi)] > r for wl, wi, _ in writes]))
            for wl, wi, wv in writes:
                if wv != val:
                    continue
                wo = order[(wl, wi)]
                opts.append(z3.And([wo < r] + [z3.Or(order[(ol, oi)] < wo, order[(ol, oi)] > r)
                                                for ol, oi, _ in writes if (ol, oi) != (wl, wi)]))
            cons.append(z3.Or(opts) if opts else z3.BoolVal(False))
    return cons


def ob_reload_race(ctx):
    import time
    import z3
    from sdc11073.mdib.consumermdib import ConsumerMdibState
    from vf import sched
    t0 = time.time()
    n = ctx.params['reports']
    rec, cm = _e3_build()
    templates = {'L': rec.record(cm.reload_all)}
    # record the report thread on the path it takes while the MDIB is initializing
    for i in range(n):
        object.__setattr__(cm, '_state', ConsumerMdibState.initializing)
        templates[f'R{i}'] = rec.record(_e3_report(cm, i))
    for lab, tpl in templates.items():
        if lab != 'L' and ('buf', 'append') not in tpl:
            return {'verdict': 'error', 'reason': f'recorded report thread did not buffer its report: {tpl}'}
    if ('buf', 'drain') not in templates['L']:
        return {'verdict': 'error', 'reason': f'recorded reload_all never drained the buffer: {templates["L"]}'}
    s, order = sched.encode(templates, locks=('mdib_lock', 'buf_lock'))
    s.add(*_state_reads_consistent(z3, templates, order))
    queries = 1
    if str(s.check()) != 'sat':
        return {'verdict': 'error', 'reason': 'base constraints (incl. recorded _state values) unsatisfiable'}
    drain = sched.idx_of(templates['L'], 'buf', 'drain')[-1]
    viol = [order[(lab, sched.idx_of(tpl, 'buf', 'append')[0])] > order[('L', drain)] for lab, tpl in templates.items() if lab != 'L']
    s.add(z3.Or(viol))
    sample = {'templates': {k: [f'{a}:{b}' for a, b in v] for k, v in templates.items()}}
    spurious = 0
    while True:
        r = str(s.check())
        queries += 1
        if r == 'unsat':
            return {'verdict': 'confirmed', 'reach': True, 'queries': queries, 'solver_s': round(time.time() - t0, 2),
                    'engine': 'sched(z3 Int order variables + read-value consistency)', 'sample': sample,
                    'detail': f'{sum(len(v) for v in templates.values())} events; {spurious} spurious models refuted by replay'}
        if r != 'sat':
            return {'verdict': 'inconclusive', 'reason': 'solver returned ' + r}
        model = s.model()
        schedule = sched.schedule_from_model(model, order)
        label, detail = _e3_replay(n, schedule)
        if label != 'ok':
            return {'verdict': 'counterexample', 'label': label, 'replayed': True, 'queries': queries, 'detail': detail,
                    'witness': {'reports': n, 'schedule': [list(x) for x in schedule]}, 'sample': sample,
                    'engine': 'sched(z3 Int order variables + read-value consistency)'}
        spurious += 1
        if spurious >= 12 or time.time() - t0 > ctx.timeout * 0.8:
            return {'verdict': 'inconclusive', 'queries': queries,
                    'reason': f'{spurious} models did not reproduce on the real code; budget exhausted'}
        s.add(z3.Or([order[k] != model[order[k]] for k in order]))


def _e3_replay(n, schedule):
    rec, cm = _e3_build()
    acts = {'L': cm.reload_all}
    for i in range(n):
        acts[f'R{i}'] = _e3_report(cm, i)
    rec.start_replay(schedule)
    results, errors = rec.run_threads(acts)
    if rec.failed or errors:
        return 'ok', f'replay could not follow the schedule ({rec.failed or errors})'
    left = list.__len__(cm._buffered_notifications)
    if left:
        return 'report-lost-in-buffer-after-reload', \
            f'{left} delivered report(s) still sit in the notification buffer after reload_all finished (state {cm._state.name}); ' \
            f'consumer MdibVersion {cm.mdib_version}'
    if cm.mdib_version != 20 + n - 1 and cm.mdib_version < 20:
        return 'report-neither-buffered-nor-applied', f'consumer MdibVersion {cm.mdib_version}, report had 20'
    return 'ok', ''


def replay(ctx):
    w = ctx.params['witness']
    label, detail = _e3_replay(w['reports'], [tuple(x) for x in w['schedule']])
    return {'verdict': 'counterexample' if label != 'ok' else 'confirmed', 'label': label, 'detail': detail}

from vf.main import Ob
from harness.mdibkit import STUBS

META = {
    'explanation': 'Every delivered report carries UNCONSTRAINED symbolic (MdibVersion, StateVersion, value id, SequenceId selector, '
                   'InstanceId selector): each lost / duplicated / re-ordered / replayed delivery of each provider history is an '
                   'instance of the symbolic pair (triple) of reports. The real ConsumerMdib.process_incoming_* / reload_all code is '
                   'explored to path exhaustion; after every delivery: versions non-decreasing, stale or duplicate reports change '
                   'nothing, newer ones are taken over exactly, unrelated states untouched, indices == scan, an id change '
                   'invalidates and freezes the MDIB; reload_all with reports arriving while GetMdib is in flight applies exactly the '
                   'newer ones, once.',
    'outside': ['the thread that fires sequence_or_instance_id_changed_event (replaced by a direct call)',
                'XML parsing of the notifications (report objects are built directly)',
                'more than 2 reports per obligation (plus one replayed delivery); one metric, one alert, two context handles',
                'the SdcConsumer / deferred request handler plumbing in front of the MDIB (request_handler_deferred.py)'],
    'assumptions': ['the delivered reports and the initial / GetMdib content stem from ONE functional provider history: for one handle a '
                    'greater MdibVersion carries a greater StateVersion, equal MdibVersion the same StateVersion and content; a report '
                    'not newer than a snapshot carries no newer state'],
}
F = ['sdc11073.mdib.consumermdib.ConsumerMdib.process_incoming_metric_states_report',
     'sdc11073.mdib.consumermdib.ConsumerMdib.process_incoming_alert_states_report',
     'sdc11073.mdib.consumermdib.ConsumerMdib.process_incoming_context_states_report',
     'sdc11073.mdib.consumermdib.ConsumerMdib.process_incoming_description_modifications',
     'sdc11073.mdib.consumermdib.ConsumerMdib._pre_check_report_ok',
     'sdc11073.mdib.consumermdib.ConsumerMdib._can_accept_mdib_version',
     'sdc11073.mdib.consumermdib.ConsumerMdib._has_new_state_usable_state_version',
     'sdc11073.mdib.consumermdib.ConsumerMdib._check_sequence_or_instance_id_changed',
     'sdc11073.mdib.consumermdib.ConsumerMdib._update_from_mdib_version_group',
     'sdc11073.mdib.consumermdib.ConsumerMdib._update_from_states_report',
     'sdc11073.mdib.consumermdib.ConsumerMdib._update_from_context_states_report',
     'sdc11073.mdib.consumermdib.ConsumerMdib.reload_all']
KINDS = ['metric', 'context', 'context_new_handle', 'alert']
MODS = ['create', 'update', 'delete']


def obligations(tier):
    t = 150 if tier == "quick" else 900
    obs = []
    pairs = [(a, b) for a in range(4) for b in range(4)]
    if tier == 'quick':
        pairs = [(0, 0), (1, 1), (0, 1), (2, 2), (3, 0)]
    IDS = ['same_ids', 'r1_other_sequence', 'r1_other_instance', 'r2_other_sequence', 'r2_other_instance']
    for a, b in pairs:
        for ids in ((0, 1, 2, 3, 4) if (tier == 'thorough' or (a, b) == (0, 0)) else (0,)):
            obs.append(Ob(f'C06.faulty.{KINDS[a]}.{KINDS[b]}.{IDS[ids]}', 'harness.C06', 'faulty_delivery',
                          bind={'kind1': a, 'kind2': b, 'ids': ids}, timeout=t, functions=F, stubs=STUBS,
                          bounds='2 reports; symbolic MdibVersion x3 and StateVersion x3 in N (unconstrained: every order/equality '
                                 'pattern); content a function of (handle, StateVersion); ' + IDS[ids],
                          claim='no regression, stale/duplicate ignored, newer applied exactly, id change freezes the MDIB, '
                                'indices == scan'))
    rp = [(a, b) for a in range(2) for b in range(2)] if tier == 'thorough' else [(0, 0), (0, 1)]
    for a, b, seq1, late in [(a, b, s1, lt) for a, b in rp for s1 in (False, True) for lt in (False, True)
                             if tier == 'thorough' or (s1, lt) in ((False, True), (True, False))]:
        obs.append(Ob(f'C06.reload.{KINDS[a]}.{KINDS[b]}.{"otherseq" if seq1 else "sameseq"}.{"replay" if late else "noreplay"}',
                      'harness.C06', 'reload_with_inflight', bind={'kind1': a, 'kind2': b, 'seq1': seq1, 'late': late},
                      timeout=t, functions=F, stubs=STUBS + ['GetMdib is answered by a stub service client whose answer is built from '
                                                            'symbolic versions; two reports are delivered from inside get_mdib()'],
                      bounds='GetMdib versions (mdib, state) and 2 in-flight reports with unconstrained versions, optional replay of '
                             'report 1 after the reload',
                      claim='after reload_all the MDIB holds the GetMdib content plus exactly the buffered reports that are newer, each '
                            'applied once; a replayed notification changes nothing'))
    mp = [(a, b) for a in range(3) for b in range(3)] if tier == 'thorough' else [(0, 0), (1, 2), (2, 0)]
    for a, b in mp:
        obs.append(Ob(f'C06.descr.{MODS[a]}.{MODS[b]}', 'harness.C06', 'description_report_faults', bind={'mod1': a, 'mod2': b},
                      timeout=t, functions=F, stubs=STUBS,
                      bounds='2 DescriptionModificationReports (1 part each) with unconstrained MdibVersions, DescriptorVersion, '
                             'StateVersion', claim='lookups stay consistent, no dangling state, stale report changes nothing'))
    return obs


MANIFEST_ENTRY = {
    'engine': 'crosshair',
    'technique': 'bounded symbolic execution (CrossHair/z3) of the real ConsumerMdib report handlers and reload_all with unconstrained '
                 'symbolic version counters per delivered report (fault schedule = solver variables)',
    'text': 'Two (plus one replayed) reports with unconstrained MdibVersion/StateVersion/ids cover every drop, duplication and '
            're-ordering of any two reports of any provider history; "Confirmed over all paths" = no regression for ALL version values.',
    'note': 'Bounded to 2-3 deliveries per obligation, 4 state handles; XML parsing and the id-change notification thread are stubbed; '
            'functional-provider assumption on report content.',
}

"""C18 - scalar XML value conversions are exact (E2 pysym: FP64/cvc5 + z3; E1 CrossHair in harness/C18.py)."""
import random as _random
import time as _time
from fractions import Fraction

from vf.main import Ob

DC = 'sdc11073.xml_types.dataconverters'
F_TS = [DC + '.TimestampConverter.to_py', DC + '.TimestampConverter.to_xml']
F_DEC = [DC + '.DecimalConverter.to_xml', DC + '.DecimalConverter._decimal_to_xml', DC + '.DecimalConverter._float_to_xml']
F_LEX = [DC + '.IntegerConverter.to_py', DC + '.IntegerConverter.to_xml', DC + '.BooleanConverter.to_py',
         DC + '.BooleanConverter.to_xml', DC + '.EnumConverter.to_py', DC + '.EnumConverter.to_xml',
         DC + '.DecimalConverter.to_py']
F_DUR = ['sdc11073.xml_types.isoduration.duration_string']

NMAX = 2 ** 53 // 1000                    # largest millisecond count of the claim (9007199254740)
ENGINE_TS = 'pysym(z3 Real FP-error-model + cvc5 QF_BVFP)'

TS_STUBS = ['xml_value is the canonical decimal text of an integer n (str(n)); int(str(n)) == n, str(int) compared by value',
            'lexical validation inside to_py is evaluated on that text class: strip(XML whitespace) is the identity, the integer '
            'pattern [+-]?[0-9]+ matches it, it starts with "-" iff n < 0 (n >= 0 in every slab; round(t * 1000) >= 0 for t >= 0); '
            'what to_py does with OTHER texts is decided by C18.lex.timestamp',
            'python int / int and float * int are correctly rounded binary64 operations on exactly converted operands '
            '(requirement |int| <= 2^53 is part of every query: a model violating it is reported as inconclusive)',
            'py_value is a python float (int and Decimal arguments of to_xml are exact arithmetic and not covered)',
            'abstraction tier: IEEE-754 standard model fl(x)=x(1+e)+d, |e|<=2^-53, |d|<=2^-1075 over the reals (sound '
            'over-approximation; only its unsat answers are used)']


# =============================================================================================== timestamps

def _ts_paths(be, direction, var):
    """Translate to_py / to_xml from the current source and compose them. -> [(conds, assumes, result)]."""
    from sdc11073.xml_types import dataconverters as dc
    from vf import pysym
    out = []
    if direction == 'x2p2x':
        for p1 in pysym.Sym(dc.TimestampConverter.to_py, be).run({'cls': pysym.Opaque('cls'), 'xml_value': pysym.DecStr(var, nonneg=True)}):
            for p2 in pysym.Sym(dc.TimestampConverter.to_xml, be).run({'py_value': p1.ret}):
                out.append((p1.conds + p2.conds, p1.assumes + p2.assumes, p2.ret))
    else:
        for p1 in pysym.Sym(dc.TimestampConverter.to_xml, be).run({'py_value': var}):
            if isinstance(p1.ret, pysym.DecStr):
                p1.ret.nonneg = True      # every slab has t >= 0 (check_valid refuses negative timestamps): round(t * 1000) >= 0
            for p2 in pysym.Sym(dc.TimestampConverter.to_py, be).run({'cls': pysym.Opaque('cls'), 'xml_value': p1.ret}):
                out.append((p1.conds + p2.conds, p1.assumes + p2.assumes, (p1.ret, p2.ret)))
    return out


def _ts_slabs(direction):
    """Case split of the input range: [(key, lo, hi)] inclusive bounds; ints for x2p2x, floats for p2x2p."""
    if direction == 'x2p2x':
        return [('n<=1', 0, 1)] + [(f'2^{k}', 2 ** k, min(2 ** (k + 1) - 1, NMAX)) for k in range(1, 44)]
    import math
    tmax = float(NMAX)                        # largest double t with t*1000 < 2^53 (exact arithmetic)
    t = 9007199254740.992
    while Fraction(t) * 1000 >= 2 ** 53:
        t = math.nextafter(t, 0.0)
    tmax = t
    return [('t<1', 0.0, math.nextafter(1.0, 0.0))] + \
           [(f'2^{k}', float(2 ** k), min(math.nextafter(float(2 ** (k + 1)), 0.0), tmax)) for k in range(0, 44)]


TS_LABELS = {'x2p2x': ('ts_xml_py_xml_changed', 'ts_xml_py_xml_off_by_more_than_1ms'),
             'p2x2p': ('ts_py_xml_py_drift_ge_1ms', 'ts_py_xml_py_drift_ge_2ms')}


class _TsExact:
    """Exact binary64 encoding (cvc5)."""

    def __init__(self, direction):
        from vf import pysym
        self.ps, self.dir = pysym, direction
        self.be = pysym.FP64()
        self.var = self.be.var('n' if direction == 'x2p2x' else 't', 'int' if direction == 'x2p2x' else 'float')
        paths = _ts_paths(self.be, direction, self.var)
        if len(paths) != 1 or paths[0][0] or paths[0][1]:
            raise pysym.Unsupported(f'{len(paths)} paths / path conditions in the timestamp kernels (expected straight-line code)')
        r = paths[0][2]
        if direction == 'x2p2x':
            if not isinstance(r, pysym.DecStr) or r.term.sort != 'I':
                raise pysym.Unsupported('to_xml does not return str(<int>)')
            self.m = r.term
        else:
            if not isinstance(r[0], pysym.DecStr) or not isinstance(r[1], pysym.T) or r[1].sort != 'F':
                raise pysym.Unsupported('unexpected result shape of to_xml / to_py')
            self.m, self.t2 = r[0].term, r[1]
        self.req = self.be.and_(*self.be.requires) if self.be.requires else pysym.T('B', 'true')

    def range_(self, lo, hi):
        T, ps = self.ps.T, self.ps
        if self.dir == 'x2p2x':
            return [T('B', f'(bvsge n {ps.bv64_lit(lo)})'), T('B', f'(bvsle n {ps.bv64_lit(hi)})')]
        return [T('B', f'(fp.geq t {ps.f64_lit(lo)})'), T('B', f'(fp.leq t {ps.f64_lit(hi)})')]

    def violation(self, label, lo=0):
        """SMT-LIB Bool: the failure condition `label` (exact) for inputs >= lo."""
        T, ps, be = self.ps.T, self.ps, self.be
        if self.dir == 'x2p2x':
            if label == 'ts_xml_py_xml_changed':
                return T('B', f'(not (= {self.m.s} n))')
            d = f'(bvsub {self.m.s} n)'
            return T('B', f'(or (bvsgt {d} {ps.bv64_lit(1)}) (bvslt {d} {ps.bv64_lit(-1)}))')
        # |t2 - t| >= bound/1000 decided EXACTLY (TwoSum decomposition of the difference, see FP64.exact_diff_ge)
        b = Fraction(1 if label == 'ts_py_xml_py_drift_ge_1ms' else 2, 1000)
        if lo >= 1:
            # t >= 1: if t/2 <= t2 <= 2t the binary64 subtraction is exact (Sterbenz) and, the difference being a double,
            # |t2 - t| >= b  <=>  |t2 (-) t| >= smallest double >= b;  otherwise |t2 - t| >= t/2 >= 0.5 s: a violation anyway
            import math
            c_hi = float(b) if Fraction(float(b)) >= b else math.nextafter(float(b), math.inf)
            half, two = ps.f64_lit(0.5), ps.f64_lit(2.0)
            near = f'(and (fp.leq (fp.mul RNE t {half}) {self.t2.s}) (fp.leq {self.t2.s} (fp.mul RNE t {two})))'
            return T('B', f'(or (not {near}) (fp.geq (fp.abs (fp.sub RNE {self.t2.s} t)) {ps.f64_lit(c_hi)}))')
        return be.or_(be.exact_diff_ge(self.t2, self.var, b), be.exact_diff_ge(self.var, self.t2, b))

    def script(self, lo, hi, label):
        bad_req = self.be.not_(self.req)
        viol = self.be.or_(bad_req, self.violation(label, lo))
        gv = [self.var, self.m, bad_req] + ([self.t2] if self.dir == 'p2x2p' else [])
        return self.be.script(self.range_(lo, hi) + [viol], get_values=gv), len(gv)

    def reach_script(self, lo, hi):
        return self.be.script(self.range_(lo, hi) + [self.req], get_values=[self.var]), 1

    def validation_script(self, samples):
        """All-constant query: the encoding applied to each sample input must give the REAL function's output."""
        ps = self.ps
        if self.dir == 'x2p2x':
            head = f'(define-fun f ((n (_ BitVec 64))) (_ BitVec 64) {self.m.s})'
            eqs = [f'(= (f {ps.bv64_lit(i)}) {ps.bv64_lit(o)})' for i, o in samples]
        else:
            head = (f'(define-fun f ((t {self.be.F})) (_ BitVec 64) {self.m.s})\n'
                    f'(define-fun g ((t {self.be.F})) {self.be.F} {self.t2.s})')
            eqs = [f'(and (= (f {ps.f64_lit(i)}) {ps.bv64_lit(o[0])}) (= (g {ps.f64_lit(i)}) {ps.f64_lit(o[1])}))' for i, o in samples]
        return f'(set-logic QF_BVFP)\n{head}\n(assert (not (and {" ".join(eqs)})))\n(check-sat)\n'


class _TsAbstract:
    """Standard-model abstraction over the reals (z3): only `unsat` is used."""

    def __init__(self, direction):
        import z3
        from vf import pysym
        self.z3, self.ps, self.dir = z3, pysym, direction
        self.be = pysym.FPReal()
        self.var = z3.Int('n') if direction == 'x2p2x' else z3.Real('t')
        paths = _ts_paths(self.be, direction, self.var)
        if len(paths) != 1 or paths[0][0]:
            raise pysym.Unsupported('timestamp kernels are not straight-line code')
        self.assumes = paths[0][1]
        r = paths[0][2]
        if direction == 'x2p2x':
            self.m = r.term
        else:
            self.m, self.t2 = r[0].term, r[1]

    def prove(self, lo, hi, label, timeout_ms=20000):
        """-> 'unsat' (failure condition impossible for every real input in [lo, hi] under the model) | 'sat' | 'unknown'."""
        import math
        z3, be = self.z3, self.be
        lo_v, hi_v = (lo, hi) if self.dir == 'x2p2x' else (be.val(Fraction(lo)), be.val(Fraction(hi)))
        base = [self.var >= lo_v, self.var <= hi_v] + self.assumes
        if hi >= 1 and lo >= 1:
            k = int(math.floor(math.log2(lo)))
            base += be.rounding_constraints(k - 11, int(math.floor(math.log2(hi))) + 12)
            if self.dir == 'p2x2p':     # the input is a binary64 number: a point of its binade's grid
                jt = z3.Int('grid_t')
                base.append(self.var == z3.ToReal(jt) * be.val(Fraction(2) ** (k - 52)))
        else:
            base += be.rounding_constraints()
        bad_req = z3.Not(z3.And(*be.requires)) if be.requires else z3.BoolVal(False)
        if self.dir == 'x2p2x':
            d = self.m - self.var
            viol = d != 0 if label == 'ts_xml_py_xml_changed' else z3.Or(d > 1, d < -1)
        else:
            d = self.t2 - self.var
            b = be.val(Fraction(1 if label == 'ts_py_xml_py_drift_ge_1ms' else 2, 1000))
            viol = z3.Or(d >= b, -d >= b)
        r, m = be.check(base + [z3.Or(bad_req, viol)], timeout_ms)
        self.candidate = None
        if r == 'sat':
            try:
                v = be.model_value(m, self.var)
                self.candidate = int(v) if self.dir == 'x2p2x' else (float(v) if Fraction(float(v)) == v else None)
            except Exception:  # noqa: BLE001
                self.candidate = None
        return r

    def admits(self, inp, out, timeout_ms=10000):
        """Translator validation: the real function's behaviour on a concrete input must be a behaviour of the model."""
        be = self.be
        import math
        mag = abs(float(inp))
        win = (int(math.floor(math.log2(mag))) - 11, int(math.floor(math.log2(mag))) + 12) if mag >= 1 else ()
        c = [self.var == (inp if self.dir == 'x2p2x' else be.val(Fraction(inp)))] + be.rounding_constraints(*win) + self.assumes
        if self.dir == 'x2p2x':
            c.append(self.m == out)
        else:
            c += [self.m == out[0], self.t2 == be.val(Fraction(out[1]))]
        r, _ = be.check(c, timeout_ms)
        return r == 'sat'


def _ts_real(direction, x):
    """The REAL converters on a concrete input."""
    from sdc11073.xml_types.dataconverters import TimestampConverter as TC
    if direction == 'x2p2x':
        return int(TC.to_xml(TC.to_py(str(x))))
    s = TC.to_xml(x)
    return int(s), TC.to_py(s)


def _ts_concrete_labels(direction, x):
    if direction == 'x2p2x':
        m = _ts_real(direction, x)
        return ([TS_LABELS[direction][0]] if m != x else []) + ([TS_LABELS[direction][1]] if abs(m - x) > 1 else []), {'to_xml': str(m)}
    m, t2 = _ts_real(direction, x)
    drift = abs(Fraction(t2) - Fraction(x))
    return ([TS_LABELS[direction][0]] if drift >= Fraction(1, 1000) else []) + \
           ([TS_LABELS[direction][1]] if drift >= Fraction(2, 1000) else []), {'to_xml': str(m), 'back': repr(t2), 'drift_s': float(drift)}


def _ts_samples(direction, seed):
    rng = _random.Random(2000 + seed)
    if direction == 'x2p2x':
        xs = [0, 1, 999, 1000, 1001, 10000, 10001, 16524120, 1758600000123, NMAX]      # incl. the inputs of test_dataconverters
        xs += [rng.randrange(0, 2 ** rng.randrange(1, 44)) for _ in range(190)]
        return [x for x in xs if x <= NMAX]
    xs = [0.0, 10.0, 10.001, 4185.472, 1758600000.123, 0.0004, 0.0005, 0.0015, 5e-324, 1e-310]
    xs += [rng.random() * 2 ** rng.randrange(-20, 43) for _ in range(190)]
    return xs


def ob_ts(ctx):
    from vf import pysym
    direction = ctx.params['direction']
    t_start, budget = _time.time(), float(ctx.timeout)
    deadline = t_start + budget * 0.92
    nproc = int(ctx.params.get('jobs', 8))
    primary, residual = TS_LABELS[direction]
    try:
        ex, ab = _TsExact(direction), _TsAbstract(direction)
    except pysym.Unsupported as e:
        return {'verdict': 'inconclusive', 'reason': f'translation failed: {e}', 'engine': ENGINE_TS}
    # --- translator validation (every run): exact encoding == real function on the unit-test inputs + 190 seeded inputs
    samples = [(x, _ts_real(direction, x)) for x in _ts_samples(direction, ctx.seed or 0)]
    v = pysym.cvc5_run(ex.validation_script(samples), 60, tag='val')
    if v['status'] != 'unsat':
        return {'verdict': 'error', 'reason': f'translator validation failed (exact encoding vs real function): {v["status"]} {v["raw"][-200:]}',
                'engine': ENGINE_TS}
    for x, out in samples[:25]:
        if not ab.admits(x, out):
            return {'verdict': 'error', 'reason': f'translator validation failed: the error-model abstraction excludes the real behaviour '
                                                  f'on input {x!r} -> {out!r}', 'engine': ENGINE_TS}
    label = primary if primary not in ctx.exclude else (residual if residual not in ctx.exclude else None)
    slabs = _ts_slabs(direction)
    # --- vacuity guard: range + requirements alone satisfiable (one exact query on a middle slab)
    key, lo, hi = slabs[len(slabs) // 2]
    sc, nv = ex.reach_script(lo, hi)
    reach = pysym.cvc5_run(sc, 60, nvalues=nv, tag='reach')['status'] == 'sat'
    if label is None:
        return {'verdict': 'confirmed', 'reach': reach, 'engine': ENGINE_TS, 'queries': 2,
                'detail': 'every failure condition of this obligation is assumed away as a known finding; nothing left to decide'}
    # --- tier 1: abstraction per slab; tier 2: exact query for every slab the abstraction cannot settle (thorough: all slabs)
    proven_abs, need = [], []
    for key, lo, hi in slabs:
        r = ab.prove(lo, hi, label, int(ctx.params.get('abs_timeout_ms', 3000)))
        (proven_abs if r == 'unsat' else need).append(key)
        if r == 'sat' and ab.candidate is not None:
            # the rounding model is nearly exact: its model is a CANDIDATE input; it counts only if the REAL converters
            # violate the condition on it (otherwise the slab goes to the exact encoding)
            x = ab.candidate
            got, shown = _ts_concrete_labels(direction, x)
            if label in got:
                wit = {'label': label, 'direction': direction, 'input': x if direction == 'x2p2x' else float(x).hex(),
                       'input_repr': repr(x), 'found_by': 'z3 model of the binary64 rounding model, slab ' + key, 'real': shown}
                return {'verdict': 'counterexample', 'label': label, 'witness': wit, 'replayed': True, 'reach': True,
                        'detail': f'slab {key}: input {x!r} -> real converters give {shown}; violated: {got}',
                        'queries': len(proven_abs) + len(need) + 27, 'solver_s': round(ab.be.solver_s, 1), 'engine': ENGINE_TS}
    exact_keys = [k for k, _, _ in slabs] if ctx.params.get('exact') == 'all' else \
        need + [k for k in ctx.params.get('crosscheck', []) if k not in need]
    jobs = []
    # undecided slabs first, small binades first (cheap queries; a violation - if there is one - shows up there within seconds);
    # among pure cross-check slabs the binade of present-day epoch timestamps goes first
    today = '2^40' if direction == 'x2p2x' else '2^30'
    order = [s for s in slabs if s[0] in need] + [s for s in slabs if s[0] == today and s[0] not in need] + \
            [s for s in slabs if s[0] not in need and s[0] != today]
    for key, lo, hi in [s for s in order if s[0] in exact_keys]:
        sc, nv = ex.script(lo, hi, label)
        jobs.append((key, sc, nv))
    res = pysym.cvc5_parallel(jobs, nproc, deadline, stop_on_sat=True) if jobs else {}
    info = {'label_checked': label, 'slabs': len(slabs), 'proved_by_error_model': len(proven_abs),
            'exact_queries': {k: f'{r["status"]} {r["wall_s"]}s' for k, r in res.items() if r['status'] != 'skipped'}}
    queries = len(slabs) + len(jobs) + 2 + 25
    solver_s = round(ab.be.solver_s + sum(r.get('wall_s', 0) for r in res.values()), 1)
    for key, r in res.items():
        if r['status'] == 'sat':
            vals = r.get('values') or []
            if len(vals) < 3 or vals[0] is None:
                return {'verdict': 'inconclusive', 'reason': f'sat but model not parsed: {r["raw"][-200:]}', 'engine': ENGINE_TS}
            if vals[2]:
                return {'verdict': 'inconclusive', 'reason': f'encoding requirement (|int| <= 2^53 / |float| < 2^62) violated by a model '
                                                             f'in slab {key}: input {vals[0]!r}', 'engine': ENGINE_TS}
            x = vals[0]
            if key in proven_abs:
                return {'verdict': 'error', 'reason': f'exact encoding sat in slab {key} that the error-model abstraction refuted', 'engine': ENGINE_TS}
            got, shown = _ts_concrete_labels(direction, x)
            wit = {'label': label, 'direction': direction, 'input': x if direction == 'x2p2x' else float(x).hex(),
                   'input_repr': repr(x), 'solver_says': {'to_xml': vals[1]}, 'real': shown}
            return {'verdict': 'counterexample', 'label': label, 'witness': wit, 'replayed': label in got, 'reach': True,
                    'detail': f'slab {key}: input {x!r} -> real converters give {shown}; violated: {got}', 'queries': queries,
                    'solver_s': solver_s, 'engine': ENGINE_TS, 'sample': info}
    exact_unsat = [k for k, r in res.items() if r['status'] == 'unsat']
    open_ = [k for k, _, _ in slabs if k not in proven_abs and k not in exact_unsat]
    bad = [k for k, r in res.items() if r['status'] == 'error']
    pending = [k for k, r in res.items() if r['status'] not in ('unsat', 'error')]
    out = {'reach': reach, 'queries': queries, 'solver_s': solver_s, 'engine': ENGINE_TS, 'sample': info,
           'detail': f'{label}: {len(proven_abs)}/{len(slabs)} slabs refuted in the binary64 rounding model (z3), '
                     f'{len(exact_unsat)} slabs refuted by the exact encoding (cvc5 QF_BVFP)'
                     + (f'; exact cross-check not finished for {",".join(pending)}' if pending and not open_ else '')
                     + f'; translation validated on {len(samples)} inputs'}
    if bad:
        out.update(verdict='inconclusive', reason='solver error in slabs ' + ','.join(bad) + ': ' + res[bad[0]]['raw'][-200:])
    elif open_:
        out.update(verdict='inconclusive', reason='no answer within the budget for slabs ' + ','.join(open_))
    else:
        out['verdict'] = 'confirmed'
    return out


def _replay_ts(w):
    x = w['input'] if w['direction'] == 'x2p2x' else float.fromhex(w['input'])
    got, shown = _ts_concrete_labels(w['direction'], x)
    return got, shown


# =============================================================================================== decimals (pysym, z3 Int/Real)

ENGINE_DEC = 'pysym(z3 Int/Real)'
DEC_STUBS = ['Decimal(sign, coefficient c, exponent e): number of coefficient digits nd and e are case-split (concrete), c is a solver '
             'variable with 10^(nd-1) <= c < 10^nd; negative zero and zero with a positive exponent are excluded',
             'str(Decimal) follows the documented rule: scientific notation iff e > 0 or e + nd - 1 < -6 (checked against the real '
             'decimal module on every run); format(Decimal, "f") is positional notation',
             'float(Decimal) = v + err, |err| <= |v| * 2^-53, err == 0 for integers up to 2^53 (over-approximation; a model is only '
             'reported after it reproduced on the real converter)',
             'round(x, k) and format(x, ".kf") are round-half-even on the exact value; the sign of a negative-zero result is not modelled']


def _dec_cases(group):
    sign, kind = group.split('.')
    out = []
    for nd in range(1, 19):
        for e in range(-18, 19):
            if nd + max(e, 0) > 18:
                continue
            sci = e > 0 or e + nd - 1 < -6
            if (kind == 'sci') == sci:
                out.append((sign == 'neg', nd, e))
    return out


def _dec_label(nd, e, neg=False):
    """Label of a value change, by the class of the input (one per distinct failure condition)."""
    if e + nd - 1 < -6:
        return 'decimal_small_value_lost'                 # |value| < 1e-6: str() is scientific, float path rounds to 3 places
    if e > 0:
        return 'decimal_large_value_changed_via_float'    # positive exponent: str() is scientific, float() loses digits
    head = max(nd + e, 1) + (1 if neg else 0)             # characters before the '.', sign and a lone '0' included
    if e < 0 and head + (-e) > 18:
        return 'decimal_18th_digit_lost'                  # <= 18 digits by XSD counting, but sign / leading '0' counted too
    return 'decimal_value_changed'


def _dec_real(neg, c, e):
    """REAL converter on Decimal(sign, c, e): -> (output string, violated labels)."""
    from decimal import Decimal
    from sdc11073.xml_types.dataconverters import DecimalConverter
    d = Decimal((1 if neg else 0, tuple(int(ch) for ch in str(c)), e))
    out = DecimalConverter.to_xml(d)
    viol = []
    if not isinstance(out, str) or 'e' in out or 'E' in out:
        viol.append('decimal_exponent_notation_written')
    else:
        try:
            same = Decimal(out) == d
        except Exception:  # noqa: BLE001
            same = False
        if not same:
            viol.append(_dec_label(len(str(c)), e, neg))
    return out, viol, str(d)


def _dec_encode(be, c, neg, nd, e):
    from sdc11073.xml_types.dataconverters import DecimalConverter
    from vf import pysym
    d = pysym.SymDecimal(neg, c, nd, e)
    sym = pysym.Sym(DecimalConverter.to_xml, be, unroll=24, prune=True,
                    inline={'cls._float_to_xml': DecimalConverter._float_to_xml, 'cls._decimal_to_xml': DecimalConverter._decimal_to_xml,
                            'DecimalConverter._float_to_xml': DecimalConverter._float_to_xml,
                            'DecimalConverter._decimal_to_xml': DecimalConverter._decimal_to_xml})
    sym.be_domain = d.domain(be) + ([be.cmp('gt', c, 0)] if (neg or e > 0) else [])
    paths = _dec_run(sym, d)
    return d, sym, paths


def _dec_run(sym, d):
    from vf import pysym
    st_env = {'cls': pysym.Opaque('cls'), 'py_value': d}
    # the domain constraints prune infeasible forks during translation
    st = pysym.State(env=dict(st_env), assumes=list(sym.be_domain))
    return [pysym.Path(s, None if r is pysym.NORET else r) for s, r in sym._block(sym.fdef.body, st)]


def _dec_out(ret):
    from vf import pysym
    if isinstance(ret, pysym.Head):
        return ret.to_numstr()
    return ret


def ob_dec(ctx):
    import z3
    from vf import pysym
    group = ctx.params['group']
    cases = _dec_cases(group)
    t0 = _time.time()
    be = pysym.Z3Real()
    c = z3.Int('c')
    rng = _random.Random(3000 + (ctx.seed or 0))
    reach = False
    checked = validated = 0
    skipped_labels = set()
    for neg, nd, e in cases:
        if _time.time() - t0 > ctx.timeout * 0.9:
            return {'verdict': 'inconclusive', 'reason': f'budget exhausted after {checked}/{len(cases)} cases', 'engine': ENGINE_DEC,
                    'queries': be.queries, 'solver_s': round(be.solver_s, 1)}
        try:
            d, sym, paths = _dec_encode(be, c, neg, nd, e)
        except pysym.Unsupported as ex:
            return {'verdict': 'inconclusive', 'reason': f'translation failed for case nd={nd} e={e}: {ex}', 'engine': ENGINE_DEC}
        for conds, assumes in sym.unwind:
            if be.check(conds + assumes)[0] != 'unsat':
                return {'verdict': 'inconclusive', 'reason': f'unwinding bound 24 not sufficient (nd={nd}, e={e})', 'engine': ENGINE_DEC}
        # --- the documented str(Decimal) rule used by the stub, against the real decimal module
        lo = 1 if (nd == 1 and (neg or e > 0)) else (0 if nd == 1 else 10 ** (nd - 1))
        for cv in {lo, 10 ** nd - 1, rng.randrange(lo, 10 ** nd)}:
            real_out, _, dtext = _dec_real(neg, cv, e)
            if ('E' in dtext) != d.is_sci():
                return {'verdict': 'error', 'reason': f'str(Decimal) rule of the stub is wrong for {dtext}', 'engine': ENGINE_DEC}
            # --- translator validation: the encoded path enabled for this coefficient yields the REAL output string
            hits = []
            for p in paths:
                extra = [c == cv]
                errs = [t for n, t in sym.nondet.items() if n.startswith('float_err')]
                if errs:
                    from decimal import Decimal
                    dv = Decimal((1 if neg else 0, tuple(int(ch) for ch in str(cv)), e))
                    extra.append(errs[0] == be.val(Fraction(float(dv)) - Fraction(dv)))
                r, m = be.check(p.conds + p.assumes + extra)
                if r == 'sat':
                    hits.append((p, m))
            if len(hits) != 1:
                return {'verdict': 'error', 'reason': f'validation: {len(hits)} encoded paths enabled for {dtext}', 'engine': ENGINE_DEC}
            p, m = hits[0]
            o = _dec_out(p.ret)
            enc = o.concrete(sym, lambda t: be.model_value(m, t)) if isinstance(o, pysym.NumStr) else '<sci>'
            if enc != real_out and not (enc.lstrip('-') == real_out.lstrip('-') and set(enc) <= set('-0.')):
                return {'verdict': 'error', 'reason': f'validation: encoding gives {enc!r}, real to_xml({dtext}) gives {real_out!r}',
                        'engine': ENGINE_DEC}
            validated += 1
        # --- the claim, per path
        lab = _dec_label(nd, e, neg)
        for p in paths:
            base = p.conds + p.assumes
            r, m = be.check(base)
            if r == 'unknown':
                return {'verdict': 'inconclusive', 'reason': f'solver unknown (nd={nd}, e={e})', 'engine': ENGINE_DEC}
            if r == 'unsat':
                continue
            reach = True
            o = _dec_out(p.ret)
            if not isinstance(o, pysym.NumStr):
                what = 'decimal_exponent_notation_written' if isinstance(o, pysym.SciStr) else 'decimal_unexpected_result'
                if what in ctx.exclude:
                    skipped_labels.add(what)
                    continue
                cand = [be.model_value(m, c)]
                viol = None
            else:
                if lab in ctx.exclude:
                    skipped_labels.add(lab)        # exactly this assertion is skipped for the cases it names
                    continue
                what = lab
                viol = o.value(sym) != d.value(be)
                cand = []
                for hint in ([c % 2 == 1], [c % 10 != 0], []):
                    r2, m2 = be.check(base + [viol] + hint)
                    if r2 == 'unknown':
                        return {'verdict': 'inconclusive', 'reason': f'solver unknown (nd={nd}, e={e})', 'engine': ENGINE_DEC}
                    if r2 == 'sat':
                        cand.append(be.model_value(m2, c))
                if not cand:
                    continue
            for cv in cand:
                real_out, got, dtext = _dec_real(neg, cv, e)
                if what in got:
                    wit = {'kind': 'dec', 'label': what, 'neg': neg, 'coefficient': str(cv), 'exponent': e, 'decimal': dtext,
                           'real_to_xml': real_out}
                    return {'verdict': 'counterexample', 'label': what, 'witness': wit, 'replayed': True, 'reach': True,
                            'detail': f'DecimalConverter.to_xml(Decimal({dtext!r})) == {real_out!r}', 'queries': be.queries,
                            'solver_s': round(be.solver_s, 1), 'engine': ENGINE_DEC}
            if what != 'decimal_large_value_changed_via_float':
                return {'verdict': 'counterexample', 'label': what, 'replayed': False, 'reach': True, 'engine': ENGINE_DEC,
                        'witness': {'kind': 'dec', 'label': what, 'neg': neg, 'coefficient': str(cand[0]), 'exponent': e},
                        'detail': f'model did not reproduce: real to_xml gives {real_out!r}'}
            return {'verdict': 'inconclusive', 'engine': ENGINE_DEC, 'queries': be.queries,
                    'reason': f'float(Decimal) over-approximation admits a value change for nd={nd}, e={e}, but {len(cand)} candidate '
                              f'coefficients did not reproduce on the real converter'}
        checked += 1
    return {'verdict': 'confirmed', 'reach': reach, 'queries': be.queries, 'solver_s': round(be.solver_s, 1), 'engine': ENGINE_DEC,
            'detail': f'{checked} (sign, digits, exponent) cases, coefficient symbolic; translation validated on {validated} concrete '
                      f'Decimals' + (f'; assertions skipped as known findings: {sorted(skipped_labels)}' if skipped_labels else '')}


def _replay_dec(w):
    out, got, dtext = _dec_real(bool(w['neg']), int(w['coefficient']), int(w['exponent']))
    return got, {'decimal': dtext, 'to_xml': out}


# =============================================================================================== durations (pysym, z3 Int)

ENGINE_DUR = 'pysym(z3 Int/Real)'
DUR_STUBS = ['datetime.timedelta(seconds=x) -> days D, seconds 0 <= S < 86400, microseconds 0 <= U < 10^6 with '
             'D*86400e6 + S*1e6 + U == x*10^6 rounded half-even to an integer (documented timedelta resolution); float(x) exact',
             'io.StringIO -> list of written pieces; f-string pieces str(int) are compared by value',
             'str(n).zfill(6).rstrip("0") denotes the fraction n / 10^6 for 0 < n < 10^6 (asserted on every path that writes it)']
DUR_LABELS = ['duration_not_in_sdpi_grammar', 'duration_value_changed', 'duration_not_normalised']


class _BufRef:
    pytype = 'StringIO'

    def __init__(self, key):
        self.key = key

    def m_write(self, sym, st, x):
        st.trace.append((self.key, x))

    def m_getvalue(self, sym, st):
        return _BufVal([x for k, x in st.trace if k == self.key])


class _BufVal:
    pytype = 'str'

    def __init__(self, parts):
        from vf import pysym
        flat = []
        for x in parts:
            flat.extend(x.parts if isinstance(x, pysym.Pieces) else [x])
        self.parts = []
        for x in flat:                       # adjacent constant strings are one token
            if isinstance(x, str) and self.parts and isinstance(self.parts[-1], str):
                self.parts[-1] += x
            elif x != '':
                self.parts.append(x)

    def sym_eq(self, sym, other):
        if isinstance(other, str):
            return self.parts == [other]
        from vf.pysym import Unsupported
        raise Unsupported('buffer compared with ' + type(other).__name__)


def _dur_tokens(ret):
    """Split the produced text into characters of constant pieces and symbolic pieces."""
    if isinstance(ret, str):
        return list(ret)
    toks = []
    for x in ret.parts:
        toks.extend(list(x) if isinstance(x, str) else [x])
    return toks


def _dur_parse(toks):
    """PT(<int>H)?(<int>M)?((<int>)(.<frac>)?S)? over tokens; -> dict(h, m, s, frac) of terms/ints or None if not in the grammar.
    A run of constant digit characters is an integer constant; a symbolic DecStr is an integer term."""
    from vf import pysym
    if toks[:2] != ['P', 'T']:
        return None
    pos, out = 2, {'h': 0, 'm': 0, 's': 0, 'frac': None}

    def number(p):
        if p < len(toks) and isinstance(toks[p], pysym.DecStr):
            return toks[p].term, p + 1
        q = p
        while q < len(toks) and isinstance(toks[q], str) and toks[q].isdigit():
            q += 1
        return (int(''.join(toks[p:q])), q) if q > p else (None, p)
    for unit in ('H', 'M'):
        v, q = number(pos)
        if v is not None and q < len(toks) and toks[q] == unit:
            out[unit.lower()], pos = v, q + 1
    v, q = number(pos)
    if v is not None:
        out['s'], pos = v, q
        if pos < len(toks) and toks[pos] == '.':
            if pos + 1 < len(toks) and isinstance(toks[pos + 1], pysym.PaddedDigits):
                out['frac'], pos = toks[pos + 1], pos + 2
            else:
                return None
        if pos >= len(toks) or toks[pos] != 'S':
            return None
        pos += 1
    if pos != len(toks) or len(toks) == 2:          # trailing garbage, or a bare 'PT'
        return None
    return out


def _dur_encode():
    import z3
    from sdc11073.xml_types import isoduration
    from vf import pysym
    be = pysym.Z3Real()
    x = z3.Real('x')
    info = {}

    def timedelta(sym, st, args, kw):
        if args or set(kw) != {'seconds'}:
            raise pysym.Unsupported('timedelta arguments')
        D, S, U = sym.new('td_days', 'int'), sym.new('td_seconds', 'int'), sym.new('td_us', 'int')
        total = D * 86_400_000_000 + S * 1_000_000 + U
        q = be.round_half_even(sym, st, kw['seconds'], 6)
        st.assumes += [S >= 0, S < 86400, U >= 0, U < 1_000_000, total == q]
        return pysym.Record('timedelta', days=D, seconds=S, microseconds=U)

    counter = [0]

    def stringio(sym, st, args, kw):
        counter[0] += 1
        return _BufRef(counter[0])
    sym = pysym.Sym(isoduration.duration_string, be, stubs={'datetime.timedelta': timedelta, 'io.StringIO': stringio}, unroll=4)
    paths = sym.run({'seconds': x})
    # the oracle's own microsecond count of x (same documented rounding), independent of whether/how the code called timedelta
    ost = pysym.State()
    info['total'] = be.round_half_even(sym, ost, x, 6)
    info['oracle_assumes'] = ost.assumes
    return be, x, sym, paths, info


def _dur_real(xf):
    """REAL duration_string on a float; parsed by an independent regular expression; compared with timedelta's microseconds."""
    import datetime
    import re
    from sdc11073.xml_types import isoduration
    text = isoduration.duration_string(xf)
    td = datetime.timedelta(seconds=xf)
    total = td.days * 86_400_000_000 + td.seconds * 1_000_000 + td.microseconds
    m = re.fullmatch(r'PT(?:(\d+)H)?(?:(\d+)M)?(?:(\d+)(?:\.(\d+))?S)?', text)
    viol = []
    if m is None or text == 'PT':
        return text, ['duration_not_in_sdpi_grammar']
    h, mi, sec, frac = m.groups()
    val = Fraction(int(h or 0) * 3600 + int(mi or 0) * 60 + int(sec or 0)) + (Fraction(int(frac), 10 ** len(frac)) if frac else 0)
    if val * 1_000_000 != total:
        viol.append('duration_value_changed')
    if int(mi or 0) >= 60 or int(sec or 0) >= 60:
        viol.append('duration_not_normalised')
    return text, viol


def ob_dur(ctx):
    import z3
    from vf import pysym
    try:
        be, x, sym, paths, info = _dur_encode()
    except pysym.Unsupported as ex:
        return {'verdict': 'inconclusive', 'reason': f'translation failed: {ex}', 'engine': ENGINE_DUR}
    if sym.unwind:
        return {'verdict': 'inconclusive', 'reason': 'loop in duration_string', 'engine': ENGINE_DUR}
    # translator validation: for concrete x exactly one path is enabled and its text equals the real output
    rng = _random.Random(4000 + (ctx.seed or 0))
    samples = [0.0, 1.0, 59.999999, 60.0, 3600.0, 3661.5, 0.000001, 0.0000004, 86400.0, 90061.000001, 1e9 + 0.25]
    samples += [round(rng.random() * 10 ** rng.randrange(-3, 8), rng.randrange(0, 7)) for _ in range(40)]
    for xf in samples:
        hits = []
        for p in paths:
            r, m = be.check(p.conds + p.assumes + [x == be.val(Fraction(xf))], 10000)
            if r == 'sat':
                hits.append((p, m))
        if len(hits) != 1:
            return {'verdict': 'error', 'reason': f'validation: {len(hits)} paths enabled for x={xf!r}', 'engine': ENGINE_DUR}
        p, m = hits[0]
        text = ''
        for t in _dur_tokens(p.ret):
            if isinstance(t, str):
                text += t
            elif isinstance(t, pysym.DecStr):
                text += str(be.model_value(m, t.term))
            elif isinstance(t, pysym.PaddedDigits):
                d = str(be.model_value(m, t.term)).zfill(t.width)
                text += d.rstrip('0') if t.rstripped else d
            else:
                return {'verdict': 'error', 'reason': f'validation: unexpected piece {type(t).__name__}', 'engine': ENGINE_DUR}
        if text != _dur_real(xf)[0]:
            return {'verdict': 'error', 'reason': f'validation: encoding gives {text!r}, real duration_string({xf!r}) gives {_dur_real(xf)[0]!r}',
                    'engine': ENGINE_DUR}
    reach, npaths = False, 0
    for p in paths:
        if isinstance(p.ret, pysym.Record) and p.ret.kind == 'raised':
            # the only exception: negative durations
            r, _ = be.check(p.conds + p.assumes + [x >= 0])
            if r != 'unsat':
                return {'verdict': 'inconclusive', 'reason': 'an exception path is reachable for x >= 0', 'engine': ENGINE_DUR}
            continue
        base = p.conds + p.assumes + [x >= 0] + info['oracle_assumes']
        r, m0 = be.check(base)
        if r == 'unknown':
            return {'verdict': 'inconclusive', 'reason': 'solver unknown', 'engine': ENGINE_DUR}
        if r == 'unsat':
            continue
        reach = True
        npaths += 1
        total = info.get('total')
        parsed = _dur_parse(_dur_tokens(p.ret))
        holds = {}
        if parsed is None:
            holds['duration_not_in_sdpi_grammar'] = z3.BoolVal(False)
        else:
            us, frac_ok = 0, z3.BoolVal(True)
            if parsed['frac'] is not None:
                f = parsed['frac']              # str(n).zfill(w)[.rstrip('0')]: w digits denoting n / 10^w, provided 0 < n < 10^w
                if f.width > 6:
                    return {'verdict': 'inconclusive', 'reason': 'fraction wider than microseconds', 'engine': ENGINE_DUR}
                holds['duration_not_in_sdpi_grammar'] = (f.term >= 1) if f.rstripped else z3.BoolVal(True)   # '.S' otherwise
                frac_ok = f.term < 10 ** f.width
                us = f.term * 10 ** (6 - f.width)
            val = be.val(parsed['h']) * 3_600_000_000 + be.val(parsed['m']) * 60_000_000 + be.val(parsed['s']) * 1_000_000 + us
            holds['duration_value_changed'] = z3.And(frac_ok, val == total)
            holds['duration_not_normalised'] = z3.And(be.val(parsed['m']) < 60, be.val(parsed['s']) < 60, be.val(parsed['h']) >= 0,
                                                      be.val(parsed['m']) >= 0, be.val(parsed['s']) >= 0)
        base = base + [h for lab, h in holds.items() if lab in ctx.exclude]
        for lab in DUR_LABELS:
            if lab not in holds or lab in ctx.exclude:
                continue
            r, m = be.check(base + [z3.Not(holds[lab])])
            if r == 'unknown':
                return {'verdict': 'inconclusive', 'reason': f'solver unknown ({lab})', 'engine': ENGINE_DUR}
            if r == 'sat':
                xv = be.model_value(m, x)
                xf = float(xv)
                text, got = _dur_real(xf)
                wit = {'kind': 'dur', 'label': lab, 'seconds': xf.hex(), 'seconds_repr': repr(xf), 'real_text': text}
                return {'verdict': 'counterexample', 'label': lab, 'witness': wit, 'replayed': lab in got, 'reach': True,
                        'detail': f'duration_string({xf!r}) == {text!r}; violated: {got}', 'engine': ENGINE_DUR, 'queries': be.queries}
    return {'verdict': 'confirmed' if reach else 'inconclusive', 'reach': reach, 'queries': be.queries, 'solver_s': round(be.solver_s, 2),
            'engine': ENGINE_DUR, 'detail': f'{npaths} reachable paths of duration_string; every one writes PT(nH)?(nM)?(n(.f)?S)? whose value '
                                            f'equals timedelta\'s microsecond count; validated on {len(samples)} concrete durations'}


def _replay_dur(w):
    xf = float.fromhex(w['seconds'])
    text, got = _dur_real(xf)
    return got, {'seconds': xf, 'duration_string': text}


# =============================================================================================== replay entry point

def replay(ctx):
    w = ctx.params['witness']
    kind = w.get('kind', 'ts' if 'direction' in w else '?')
    if kind == 'ts':
        got, shown = _replay_ts(w)
    elif kind == 'dec':
        got, shown = _replay_dec(w)
    elif kind == 'dur':
        got, shown = _replay_dur(w)
    else:
        return {'verdict': 'error', 'label': 'unknown-witness-kind', 'reason': str(w)[:200]}
    lab = w.get('label')
    label = lab if lab in got else (got[0] if got else 'ok')
    return {'verdict': 'counterexample' if got else 'confirmed', 'label': label, 'reach': True, 'replayed': True, 'detail': str(shown)}


# =============================================================================================== registration

META = {
    'explanation': 'Timestamps: TimestampConverter.to_py/to_xml are read from the current source and translated (vf/pysym.py) twice: '
                   'into a binary64 rounding model over the reals/integers (z3: every float operation returns the nearest point of '
                   'its binade\'s grid, ties left open - an over-approximation) and into exact IEEE-754 SMT-LIB (QF_BVFP, cvc5 binary; '
                   'int() = RTZ, round() = RNE). The input range is split per binade; a binade is discharged when the failure '
                   'condition is unsatisfiable in the model, otherwise a model is tried on the real converter (counterexample) or '
                   'the exact query decides; the exact encoding also cross-checks the model (quick: one binade, thorough: as many as '
                   'fit in the budget, listed in the evidence). Decimals: DecimalConverter.to_xml (with _decimal_to_xml, '
                   '_float_to_xml inlined) is translated to z3 Int/Real over an abstract digit-string domain, one query set per '
                   '(sign, number of coefficient digits, exponent) with the coefficient as solver variable; CrossHair runs the real '
                   'to_xml on digit-run families. Integer/Boolean/Enum converters: CrossHair on a fully symbolic str (<= 5 XML '
                   'characters) against a character-level recogniser of the XSD lexical space.',
    'outside': ['timestamps: int / Decimal arguments of to_xml (exact arithmetic), negative, NaN and infinite floats, n > 2^53/1000',
                'decimals: coefficients of more than 18 digits, exponents outside [-18, 18], values of more than 18 total digits, '
                'negative zero, zero with a positive exponent, float and int arguments of to_xml (rounded to 1-3 places by design)',
                'Decimal.__str__ / float(Decimal) / format() are stubs with stated contracts in the pysym obligations (the real ones '
                'run in the CrossHair digit-run obligations, for the digit patterns D^a . 0^b D^c 0^d only)',
                'DecimalConverter.to_py: decimal.Decimal is a C type - texts are enumerated by selector from a 13-character pool, '
                'length <= 3 (quick) / 4 (thorough), not symbolic strings',
                'durations: only duration_string (the divmod decomposition and the formatting, with timedelta as a stub) is decided; '
                'parse_duration and the date/time functions (parse_date_time, XsdDateInformation.__str__) depend on re, '
                'datetime.timedelta and float(str) - C code that CrossHair concretises and pysym cannot translate; the hypothesis tests '
                'in tests/test_isoduration.py cover them by sampling - no solver claim is made here',
                'boolean/enum: strings longer than 5 characters; integer: texts outside the 13-character pool or longer than 3 (quick) / 4 (thorough) characters'],
    'assumptions': TS_STUBS + DEC_STUBS + DUR_STUBS,
}

CH_STUB = ['XSD whiteSpace=collapse: leading/trailing XML whitespace (space, tab, CR, LF) is not part of the literal']


def obligations(tier):
    quick = tier == 'quick'
    obs = []
    tt = 150 if quick else 1500
    for direction, what, claim in (
            ('x2p2x', f'every integer millisecond count n in [0, {NMAX}] (= 2^53/1000), 44 slabs (n <= 1, then one per binade)',
             'to_xml(to_py(str(n))) == str(n)  [residual when that is a known finding: differs from n by at most 1]'),
            ('p2x2p', 'every binary64 t with 0 <= t and t*1000 < 2^53 (subnormals included), 45 slabs (t < 1, then one per binade)',
             '|to_py(to_xml(t)) - t| < 1 ms, evaluated exactly  [residual when that is a known finding: < 2 ms]')):
        params = {'direction': direction, 'jobs': 6 if quick else 8}
        if quick:
            params['crosscheck'] = ['2^10'] if direction == 'x2p2x' else ['2^0']
        else:
            params['exact'] = 'all'
        obs.append(Ob(f'C18.ts.{direction}', 'checks.C18', 'ob_ts', kind='py', params=params, timeout=tt, functions=F_TS, stubs=TS_STUBS,
                      bounds=what + '; every slab is decided in the binary64 rounding model (z3) or, where that is not conclusive, by '
                                    'the exact QF_BVFP encoding (cvc5); exact cross-check of the model: '
                                    + ('one binade' if quick else 'as many binades as fit in the budget (listed)'),
                      claim=claim))
    td = 200 if quick else 900
    for group in ('pos.plain', 'neg.plain', 'pos.sci', 'neg.sci'):
        sign, kind = group.split('.')
        obs.append(Ob(f'C18.dec.to_xml.{group}', 'checks.C18', 'ob_dec', kind='py', params={'group': group}, timeout=td,
                      functions=F_DEC, stubs=DEC_STUBS,
                      bounds=f'{"negative" if sign == "neg" else "non-negative"} Decimals whose str() is '
                             f'{"scientific (exponent > 0 or value below 1e-6)" if kind == "sci" else "positional"}: every coefficient '
                             'of 1..18 digits x every exponent in [-18, 18] with at most 18 total digits; coefficient symbolic, '
                             f'{len(_dec_cases(group))} (digits, exponent) cases',
                      claim='to_xml(d) is positional notation with exactly the value of d'))
    obs.append(Ob('C18.dur.duration_string', 'checks.C18', 'ob_dur', kind='py', timeout=100 if quick else 300, functions=F_DUR, stubs=DUR_STUBS,
                  bounds='every real duration x >= 0 (unbounded; timedelta\'s own range limit not modelled)',
                  claim='duration_string(x) raises only for x < 0; the text is in the SDPi grammar PT(nH)?(nM)?(n(.f)?S)?, minutes and '
                        'seconds below 60, and denotes exactly x rounded to microseconds'))
    sel_stub = ['timedelta / float / re are C code: the texts are assembled from selectors (pools, digit-run lengths) that the solver '
                'enumerates; the real functions run concretely on each']
    # thorough: the full pools are 126720 selector paths - one process per (hours, minutes) choice (the single query did not finish
    # in 1500 s)
    dur_cases = [('', {'slim': True})] if quick else [(f'.h{h}.m{m}', {'slim': False, 'h': h, 'm': m}) for h in range(4) for m in range(4)]
    for suffix, bind in dur_cases:
        obs.append(Ob('C18.dur.parse_duration' + suffix, 'harness.C18', 'duration_parse_runs', bind=bind, timeout=300 if quick else 900,
                      functions=['sdc11073.xml_types.isoduration.parse_duration', 'sdc11073.xml_types.isoduration.duration_string'],
                      stubs=sel_stub, twin=(suffix in ('', '.h0.m0')),
                      bounds=('PT[nH][nM]n[.f]S with hours in {absent,3}, minutes in {absent,7}, seconds 59, fraction = 0^a D^b 9^c with '
                              'a+b+c <= 9 and D in {1,5,9}' if quick else
                              f'PT[nH][nM]n[.f]S with hours = {("absent", "0", "3", "100")[bind["h"]]}, minutes = '
                              f'{("absent", "0", "7", "90")[bind["m"]]}, seconds in {{0,5,59,120}}, fraction = 0^a D^b 9^c with '
                              'a+b+c <= 9 and D in 1..9') + ' (0..9 fractional digits)',
                      claim='parse_duration returns the exact value within half a microsecond (more than 6 fractional digits are allowed '
                            'by the grammar); duration_string -> parse_duration of the result changes nothing'))
    obs.append(Ob('C18.datetime.timezones', 'harness.C18', 'datetime_timezones', timeout=200 if quick else 900,
                  functions=['sdc11073.xml_types.isoduration._tz_to_string', 'sdc11073.xml_types.isoduration._parse_tz',
                             'sdc11073.xml_types.isoduration.parse_date_time', 'sdc11073.xml_types.isoduration.XsdDateInformation.__str__'],
                  stubs=sel_stub,
                  bounds='ALL 1681 whole-minute offsets in [-14:00, +14:00] (the complete xsd time-zone space) on an xsd:date and an '
                         'xsd:dateTime value',
                  claim='the written text carries the reference spelling of the offset (Z / sign hh:mm), parses back to the same offset, '
                        'and is written again identically'))
    obs.append(Ob('C18.datetime.fields', 'harness.C18', 'datetime_fields', timeout=200 if quick else 900,
                  functions=['sdc11073.xml_types.isoduration.parse_date_time', 'sdc11073.xml_types.isoduration.XsdDateInformation.__str__'],
                  stubs=sel_stub,
                  bounds='gYear / gYearMonth / date / dateTime / end-of-day x 9 seconds values (incl. 59.999999, 7.000001, int 0 / 10 / 50) x 5 time zones '
                         'x years {1, 1990, 12345, -44}',
                  claim='str -> parse_date_time -> str round trip: all fields equal, seconds within 1 microsecond, same text'))
    tc = 60 if quick else 300
    maxn = 3 if quick else 4
    obs += [
        Ob('C18.lex.integer', 'harness.C18', 'integer_lex', bind={'maxn': maxn}, timeout=200 if quick else 1500, functions=F_LEX[:2],
           stubs=CH_STUB[:1],
           bounds=f'every text of <= {maxn} characters from the pool 0 1 9 + - _ space tab . e a U+0663 U+00A0 '
                  f'({sum(13 ** k for k in range(maxn + 1))} texts, chosen by selectors; int() on a symbolic str is concretised by CrossHair)',
           claim='IntegerConverter.to_py(text) returns => text is an xsd:integer literal, the result is its value, to_xml gives a literal '
                 'of that value; literals are accepted'),
        Ob('C18.lex.timestamp', 'harness.C18', 'timestamp_lex', bind={'maxn': maxn}, timeout=200 if quick else 1500,
           functions=['sdc11073.xml_types.dataconverters.TimestampConverter.to_py'], stubs=CH_STUB[:1],
           bounds=f'every text of <= {maxn} characters from the pool 0 1 9 + - _ space tab . e a U+0663 U+00A0',
           claim='TimestampConverter.to_py(text) returns => text is an xsd:unsignedLong literal and the result is its value in '
                 'milliseconds; literals are accepted'),
        Ob('C18.lex.boolean', 'harness.C18', 'boolean_lex', timeout=tc, functions=F_LEX[2:4], stubs=CH_STUB[:1],
           bounds='fully symbolic str, <= 5 characters; plus 15 fixed spellings (case variants, padded literals) chosen by selector',
           claim='BooleanConverter.to_py(s) returns => s is one of true/false/1/0 and the result is its value; to_xml gives it back; '
                 'literals are accepted'),
        Ob('C18.lex.enum', 'harness.C18', 'enum_lex', timeout=tc, functions=F_LEX[4:6],
           bounds='fully symbolic str, <= 5 characters; 4 enumerations of pm_types (MeasurementValidity, ComponentActivation, '
                  'SafetyClassification, AlertSignalPresence)',
           claim='EnumConverter.to_py(s) returns => s is exactly a literal of the enumeration; to_xml gives s back; literals are accepted'),
    ]
    obs.append(Ob('C18.lex.decimal', 'harness.C18', 'decimal_lex', bind={'maxn': maxn}, timeout=200 if quick else 1500,
                  functions=F_LEX[6:], stubs=CH_STUB,
                  bounds=f'every text of <= {maxn} characters from the pool "01.-+e_ NaInf" ({sum(13 ** k for k in range(maxn + 1))} texts, '
                         'chosen by selectors; decimal.Decimal is C code and runs concretely)',
                  claim='DecimalConverter.to_py(text) returns => text is an xsd:decimal literal and the Decimal has its value'))
    for neg in (False, True):
        bind = {'neg': neg, 'dg': 1} if quick else {'neg': neg}
        obs.append(Ob(f'C18.dec.runs.{"neg" if neg else "pos"}', 'harness.C18', 'decimal_to_xml_runs',
                      bind=bind, timeout=200 if quick else 900, functions=F_DEC + [DC + '.DecimalConverter.to_py'],
                      stubs=['digit-run family: [-] D^a (or 0) . 0^b D^c 0^d with a+b+c+d <= 18, d <= 2; run lengths chosen by selectors, '
                             'the real to_xml (real Decimal.__str__, real float path) runs concretely'],
                      bounds=f'all run lengths a, b, c <= 18, d <= 2 with a+b+c+d <= 18 (3439 texts per digit), digit D '
                             f'{"= 5" if quick else "in {1, 5, 9}"}, {"negative" if neg else "non-negative"}',
                      claim='to_xml(Decimal(text)) is an xsd:decimal literal without exponent, numerically equal to text, without '
                            'trailing fraction zeros'))
    return obs


MANIFEST_ENTRY = {
    'engine': 'pysym+crosshair',
    'technique': 'AST->SMT translation (vf/pysym.py) of TimestampConverter.to_py/to_xml into a binary64 rounding model (z3) and into '
                 'exact QF_BVFP (cvc5), per binade; of DecimalConverter.to_xml into z3 Int/Real over an abstract digit-string domain, '
                 'per (sign, digits, exponent) with symbolic coefficient; CrossHair on the real Integer/Boolean/Enum converters with '
                 'symbolic strings and on DecimalConverter with selector-built texts',
    'text': 'Timestamps: for every binade of [0, 2^53/1000] the failure condition (XML->Py->XML changed; |Py->XML->Py drift| >= 1 ms, '
            'exact) is shown unsatisfiable in the rounding model or by the exact encoding; models are replayed on the real converter. '
            'Decimals: for each of 990 (sign, digits, exponent) cases the value of to_xml(d) equals d for every coefficient (z3 unsat), '
            'and no exponent notation is produced. duration_string: every path writes a text of the SDPi grammar whose value is the '
            'microsecond count of the argument (z3, all x >= 0). Lexical spaces: every path of the converters on a symbolic str of <= 5 characters is '
            'explored to exhaustion by CrossHair.',
    'note': 'Trusted: z3, cvc5, the pysym translator (validated on every run against the real functions on 200 inputs per timestamp '
            'obligation / 3 Decimals per case / 51 durations), the stated stubs for Decimal.__str__/float()/format()/timedelta. '
            'parse_duration and date-times are outside the claim (C code: re, datetime, float(str)).',
}

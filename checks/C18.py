"""C18 - scalar XML value conversions are exact (E2 pysym: FP64/cvc5 + z3; E1 CrossHair in harness/C18.py)."""
import os
import random as _random
import time as _time
from fractions import Fraction

from vf.main import Ob

DC = 'sdc11073.xml_types.dataconverters'
F_TS = [DC + '.TimestampConverter.to_py', DC + '.TimestampConverter.to_xml']
F_DEC = [DC + '.DecimalConverter.to_xml', DC + '.DecimalConverter._decimal_to_xml', DC + '.DecimalConverter._float_to_xml']
F_LEX = [DC + '.IntegerConverter.to_py', DC + '.IntegerConverter.to_xml', DC + '.BooleanConverter.to_py',
         DC + '.BooleanConverter.to_xml', DC + '.EnumConverter.to_py', DC + '.EnumConverter.to_xml',
         DC + '.DecimalConverter.to_py']
F_DUR = ['sdc11073.xml_types.isoduration.duration_string']

NMAX = 2 ** 53 // 1000                    # largest millisecond count of the claim (9007199254740)
ENGINE_TS = 'pysym(z3 Real FP-error-model + cvc5 QF_BVFP)'

TS_STUBS = ['xml_value is the canonical decimal text of an integer n (str(n)); int(str(n)) == n, str(int) compared by value',
            'python int / int and float * int are correctly rounded binary64 operations on exactly converted operands '
            '(requirement |int| <= 2^53 is part of every query: a model violating it is reported as inconclusive)',
            'py_value is a python float (int and Decimal arguments of to_xml are exact arithmetic and not covered)',
            'abstraction tier: IEEE-754 standard model fl(x)=x(1+e)+d, |e|<=2^-53, |d|<=2^-1075 over the reals (sound '
            'over-approximation; only its unsat answers are used)']


# =============================================================================================== timestamps

def _ts_paths(be, direction, var):
    """Translate to_py / to_xml from the current source and compose them. -> [(conds, assumes, result)]."""
    from sdc11073.xml_types import dataconverters as dc
    from vf import pysym
    out = []
    if direction == 'x2p2x':
        for p1 in pysym.Sym(dc.TimestampConverter.to_py, be).run({'cls': pysym.Opaque('cls'), 'xml_value': pysym.DecStr(var)}):
            for p2 in pysym.Sym(dc.TimestampConverter.to_xml, be).run({'py_value': p1.ret}):
                out.append((p1.conds + p2.conds, p1.assumes + p2.assumes, p2.ret))
    else:
        for p1 in pysym.Sym(dc.TimestampConverter.to_xml, be).run({'py_value': var}):
            for p2 in pysym.Sym(dc.TimestampConverter.to_py, be).run({'cls': pysym.Opaque('cls'), 'xml_value': p1.ret}):
                out.append((p1.conds + p2.conds, p1.assumes + p2.assumes, (p1.ret, p2.ret)))
    return out


def _ts_slabs(direction):
    """Case split of the input range: [(key, lo, hi)] inclusive bounds; ints for x2p2x, floats for p2x2p."""
    if direction == 'x2p2x':
        return [('n<=1', 0, 1)] + [(f'2^{k}', 2 ** k, min(2 ** (k + 1) - 1, NMAX)) for k in range(1, 44)]
    import math
    tmax = float(NMAX)                        # largest double t with t*1000 < 2^53 (exact arithmetic)
    t = 9007199254740.992
    while Fraction(t) * 1000 >= 2 ** 53:
        t = math.nextafter(t, 0.0)
    tmax = t
    return [('t<1', 0.0, math.nextafter(1.0, 0.0))] + \
           [(f'2^{k}', float(2 ** k), min(math.nextafter(float(2 ** (k + 1)), 0.0), tmax)) for k in range(0, 44)]


TS_LABELS = {'x2p2x': ('ts_xml_py_xml_changed', 'ts_xml_py_xml_off_by_more_than_1ms'),
             'p2x2p': ('ts_py_xml_py_drift_ge_1ms', 'ts_py_xml_py_drift_ge_2ms')}


class _TsExact:
    """Exact binary64 encoding (cvc5)."""

    def __init__(self, direction):
        from vf import pysym
        self.ps, self.dir = pysym, direction
        self.be = pysym.FP64()
        self.var = self.be.var('n' if direction == 'x2p2x' else 't', 'int' if direction == 'x2p2x' else 'float')
        paths = _ts_paths(self.be, direction, self.var)
        if len(paths) != 1 or paths[0][0] or paths[0][1]:
            raise pysym.Unsupported(f'{len(paths)} paths / path conditions in the timestamp kernels (expected straight-line code)')
        r = paths[0][2]
        if direction == 'x2p2x':
            if not isinstance(r, pysym.DecStr) or r.term.sort != 'I':
                raise pysym.Unsupported('to_xml does not return str(<int>)')
            self.m = r.term
        else:
            if not isinstance(r[0], pysym.DecStr) or not isinstance(r[1], pysym.T) or r[1].sort != 'F':
                raise pysym.Unsupported('unexpected result shape of to_xml / to_py')
            self.m, self.t2 = r[0].term, r[1]
        self.req = self.be.and_(*self.be.requires) if self.be.requires else pysym.T('B', 'true')

    def range_(self, lo, hi):
        T, ps = self.ps.T, self.ps
        if self.dir == 'x2p2x':
            return [T('B', f'(bvsge n {ps.bv64_lit(lo)})'), T('B', f'(bvsle n {ps.bv64_lit(hi)})')]
        return [T('B', f'(fp.geq t {ps.f64_lit(lo)})'), T('B', f'(fp.leq t {ps.f64_lit(hi)})')]

    def violation(self, label):
        """SMT-LIB Bool: the failure condition `label` (exact)."""
        T, ps, be = self.ps.T, self.ps, self.be
        if self.dir == 'x2p2x':
            if label == 'ts_xml_py_xml_changed':
                return T('B', f'(not (= {self.m.s} n))')
            d = f'(bvsub {self.m.s} n)'
            return T('B', f'(or (bvsgt {d} {ps.bv64_lit(1)}) (bvslt {d} {ps.bv64_lit(-1)}))')
        # |t2 - t| >= bound/1000 decided EXACTLY (TwoSum decomposition of the difference, see FP64.exact_diff_ge)
        b = Fraction(1 if label == 'ts_py_xml_py_drift_ge_1ms' else 2, 1000)
        return be.or_(be.exact_diff_ge(self.t2, self.var, b), be.exact_diff_ge(self.var, self.t2, b))

    def script(self, lo, hi, label):
        bad_req = self.be.not_(self.req)
        viol = self.be.or_(bad_req, self.violation(label))
        gv = [self.var, self.m, bad_req] + ([self.t2] if self.dir == 'p2x2p' else [])
        return self.be.script(self.range_(lo, hi) + [viol], get_values=gv), len(gv)

    def reach_script(self, lo, hi):
        return self.be.script(self.range_(lo, hi) + [self.req], get_values=[self.var]), 1

    def validation_script(self, samples):
        """All-constant query: the encoding applied to each sample input must give the REAL function's output."""
        ps = self.ps
        if self.dir == 'x2p2x':
            head = f'(define-fun f ((n (_ BitVec 64))) (_ BitVec 64) {self.m.s})'
            eqs = [f'(= (f {ps.bv64_lit(i)}) {ps.bv64_lit(o)})' for i, o in samples]
        else:
            head = (f'(define-fun f ((t {self.be.F})) (_ BitVec 64) {self.m.s})\n'
                    f'(define-fun g ((t {self.be.F})) {self.be.F} {self.t2.s})')
            eqs = [f'(and (= (f {ps.f64_lit(i)}) {ps.bv64_lit(o[0])}) (= (g {ps.f64_lit(i)}) {ps.f64_lit(o[1])}))' for i, o in samples]
        return f'(set-logic QF_BVFP)\n{head}\n(assert (not (and {" ".join(eqs)})))\n(check-sat)\n'


class _TsAbstract:
    """Standard-model abstraction over the reals (z3): only `unsat` is used."""

    def __init__(self, direction):
        import z3
        from vf import pysym
        self.z3, self.ps, self.dir = z3, pysym, direction
        self.be = pysym.FPReal()
        self.var = z3.Int('n') if direction == 'x2p2x' else z3.Real('t')
        paths = _ts_paths(self.be, direction, self.var)
        if len(paths) != 1 or paths[0][0]:
            raise pysym.Unsupported('timestamp kernels are not straight-line code')
        self.assumes = paths[0][1]
        r = paths[0][2]
        if direction == 'x2p2x':
            self.m = r.term
        else:
            self.m, self.t2 = r[0].term, r[1]

    def prove(self, lo, hi, label, timeout_ms=20000):
        """-> 'unsat' (failure condition impossible for every real input in [lo, hi] under the model) | 'sat' | 'unknown'."""
        z3, be = self.z3, self.be
        lo_v, hi_v = (lo, hi) if self.dir == 'x2p2x' else (be.val(Fraction(lo)), be.val(Fraction(hi)))
        base = [self.var >= lo_v, self.var <= hi_v] + be.side + self.assumes
        bad_req = z3.Not(z3.And(*be.requires)) if be.requires else z3.BoolVal(False)
        if self.dir == 'x2p2x':
            d = self.m - self.var
            viol = d != 0 if label == 'ts_xml_py_xml_changed' else z3.Or(d > 1, d < -1)
        else:
            d = self.t2 - self.var
            b = be.val(Fraction(1 if label == 'ts_py_xml_py_drift_ge_1ms' else 2, 1000))
            viol = z3.Or(d >= b, -d >= b)
        r, _ = be.check(base + [z3.Or(bad_req, viol)], timeout_ms)
        return r

    def admits(self, inp, out, timeout_ms=10000):
        """Translator validation: the real function's behaviour on a concrete input must be a behaviour of the model."""
        z3, be = self.z3, self.be
        c = [self.var == (inp if self.dir == 'x2p2x' else be.val(Fraction(inp)))] + be.side + self.assumes
        if self.dir == 'x2p2x':
            c.append(self.m == out)
        else:
            c += [self.m == out[0], self.t2 == be.val(Fraction(out[1]))]
        r, _ = be.check(c, timeout_ms)
        return r == 'sat'


def _ts_real(direction, x):
    """The REAL converters on a concrete input."""
    from sdc11073.xml_types.dataconverters import TimestampConverter as TC
    if direction == 'x2p2x':
        return int(TC.to_xml(TC.to_py(str(x))))
    s = TC.to_xml(x)
    return int(s), TC.to_py(s)


def _ts_concrete_labels(direction, x):
    if direction == 'x2p2x':
        m = _ts_real(direction, x)
        return ([TS_LABELS[direction][0]] if m != x else []) + ([TS_LABELS[direction][1]] if abs(m - x) > 1 else []), {'to_xml': str(m)}
    m, t2 = _ts_real(direction, x)
    drift = abs(Fraction(t2) - Fraction(x))
    return ([TS_LABELS[direction][0]] if drift >= Fraction(1, 1000) else []) + \
           ([TS_LABELS[direction][1]] if drift >= Fraction(2, 1000) else []), {'to_xml': str(m), 'back': repr(t2), 'drift_s': float(drift)}


def _ts_samples(direction, seed):
    rng = _random.Random(2000 + seed)
    if direction == 'x2p2x':
        xs = [0, 1, 999, 1000, 1001, 10000, 10001, 16524120, 1758600000123, NMAX]      # incl. the inputs of test_dataconverters
        xs += [rng.randrange(0, 2 ** rng.randrange(1, 44)) for _ in range(190)]
        return [x for x in xs if x <= NMAX]
    xs = [0.0, 10.0, 10.001, 4185.472, 1758600000.123, 0.0004, 0.0005, 0.0015, 5e-324, 1e-310]
    xs += [rng.random() * 2 ** rng.randrange(-20, 43) for _ in range(190)]
    return xs


def ob_ts(ctx):
    from vf import pysym
    direction = ctx.params['direction']
    t_start, budget = _time.time(), float(ctx.timeout)
    deadline = t_start + budget * 0.92
    nproc = int(ctx.params.get('jobs', 8))
    primary, residual = TS_LABELS[direction]
    try:
        ex, ab = _TsExact(direction), _TsAbstract(direction)
    except pysym.Unsupported as e:
        return {'verdict': 'inconclusive', 'reason': f'translation failed: {e}', 'engine': ENGINE_TS}
    # --- translator validation (every run): exact encoding == real function on the unit-test inputs + 190 seeded inputs
    samples = [(x, _ts_real(direction, x)) for x in _ts_samples(direction, ctx.seed or 0)]
    v = pysym.cvc5_run(ex.validation_script(samples), 60, tag='val')
    if v['status'] != 'unsat':
        return {'verdict': 'error', 'reason': f'translator validation failed (exact encoding vs real function): {v["status"]} {v["raw"][-200:]}',
                'engine': ENGINE_TS}
    for x, out in samples[:25]:
        if not ab.admits(x, out):
            return {'verdict': 'error', 'reason': f'translator validation failed: the error-model abstraction excludes the real behaviour '
                                                  f'on input {x!r} -> {out!r}', 'engine': ENGINE_TS}
    label = primary if primary not in ctx.exclude else (residual if residual not in ctx.exclude else None)
    slabs = _ts_slabs(direction)
    # --- vacuity guard: range + requirements alone satisfiable (one exact query on a middle slab)
    key, lo, hi = slabs[len(slabs) // 2]
    sc, nv = ex.reach_script(lo, hi)
    reach = pysym.cvc5_run(sc, 60, nvalues=nv, tag='reach')['status'] == 'sat'
    if label is None:
        return {'verdict': 'confirmed', 'reach': reach, 'engine': ENGINE_TS, 'queries': 2,
                'detail': 'every failure condition of this obligation is assumed away as a known finding; nothing left to decide'}
    # --- tier 1: abstraction per slab; tier 2: exact query for every slab the abstraction cannot settle (thorough: all slabs)
    proven_abs, need = [], []
    for key, lo, hi in slabs:
        r = ab.prove(lo, hi, label)
        (proven_abs if r == 'unsat' else need).append(key)
    exact_keys = [k for k, _, _ in slabs] if ctx.params.get('exact') == 'all' else \
        need + [k for k in ctx.params.get('crosscheck', []) if k not in need]
    jobs = []
    # small binades first: their queries are cheap, and a violation - if there is one - is found there within seconds
    for key, lo, hi in [s for s in slabs if s[0] in exact_keys]:
        sc, nv = ex.script(lo, hi, label)
        jobs.append((key, sc, nv))
    res = pysym.cvc5_parallel(jobs, nproc, deadline, stop_on_sat=True) if jobs else {}
    info = {'label_checked': label, 'slabs': len(slabs), 'proved_by_error_model': len(proven_abs),
            'exact_queries': {k: f'{r["status"]} {r["wall_s"]}s' for k, r in res.items() if r['status'] != 'skipped'}}
    queries = len(slabs) + len(jobs) + 2 + 25
    solver_s = round(ab.be.solver_s + sum(r.get('wall_s', 0) for r in res.values()), 1)
    for key, r in res.items():
        if r['status'] == 'sat':
            vals = r.get('values') or []
            if len(vals) < 3 or vals[0] is None:
                return {'verdict': 'inconclusive', 'reason': f'sat but model not parsed: {r["raw"][-200:]}', 'engine': ENGINE_TS}
            if vals[2]:
                return {'verdict': 'inconclusive', 'reason': f'encoding requirement (|int| <= 2^53 / |float| < 2^62) violated by a model '
                                                             f'in slab {key}: input {vals[0]!r}', 'engine': ENGINE_TS}
            x = vals[0]
            if key in proven_abs:
                return {'verdict': 'error', 'reason': f'exact encoding sat in slab {key} that the error-model abstraction refuted', 'engine': ENGINE_TS}
            got, shown = _ts_concrete_labels(direction, x)
            wit = {'label': label, 'direction': direction, 'input': x if direction == 'x2p2x' else float(x).hex(),
                   'input_repr': repr(x), 'solver_says': {'to_xml': vals[1]}, 'real': shown}
            return {'verdict': 'counterexample', 'label': label, 'witness': wit, 'replayed': label in got, 'reach': True,
                    'detail': f'slab {key}: input {x!r} -> real converters give {shown}; violated: {got}', 'queries': queries,
                    'solver_s': solver_s, 'engine': ENGINE_TS, 'sample': info}
    open_ = [k for k in need if res.get(k, {}).get('status') != 'unsat']
    bad = [k for k, r in res.items() if r['status'] in ('error',)]
    out = {'reach': reach, 'queries': queries, 'solver_s': solver_s, 'engine': ENGINE_TS, 'sample': info,
           'detail': f'{label}: {len(proven_abs)}/{len(slabs)} slabs refuted in the FP error model (z3), '
                     f'{sum(1 for r in res.values() if r["status"] == "unsat")} slabs refuted exactly (cvc5 QF_BVFP); '
                     f'translation validated on {len(samples)} inputs'}
    if bad:
        out.update(verdict='inconclusive', reason='solver error in slabs ' + ','.join(bad) + ': ' + res[bad[0]]['raw'][-200:])
    elif open_:
        out.update(verdict='inconclusive', reason='no answer within the budget for slabs ' + ','.join(open_))
    elif ctx.params.get('exact') == 'all' and any(r['status'] != 'unsat' for r in res.values()):
        out.update(verdict='inconclusive', reason='exact cross-check incomplete: ' +
                   ','.join(k for k, r in res.items() if r['status'] != 'unsat'))
    else:
        out['verdict'] = 'confirmed'
    return out


def _replay_ts(w):
    x = w['input'] if w['direction'] == 'x2p2x' else float.fromhex(w['input'])
    got, shown = _ts_concrete_labels(w['direction'], x)
    return got, shown


# =============================================================================================== replay entry point

def replay(ctx):
    w = ctx.params['witness']
    kind = w.get('kind', 'ts' if 'direction' in w else '?')
    if kind == 'ts':
        got, shown = _replay_ts(w)
    else:
        return {'verdict': 'error', 'label': 'unknown-witness-kind', 'reason': str(w)[:200]}
    lab = w.get('label')
    label = lab if lab in got else (got[0] if got else 'ok')
    return {'verdict': 'counterexample' if got else 'confirmed', 'label': label, 'reach': True, 'replayed': True, 'detail': str(shown)}


# =============================================================================================== registration

META = {
    'explanation': 'Timestamps: TimestampConverter.to_py/to_xml are read from the current source and translated (vf/pysym.py) twice: '
                   'into exact IEEE-754 binary64 SMT-LIB (QF_BVFP, cvc5 binary; int() = RTZ, round() = RNE) and into the standard '
                   'floating-point error model over the reals (z3). The input range is split per binade; a binade is discharged by '
                   'the error model when that suffices, otherwise by the exact query; thorough runs the exact query for every binade.',
    'outside': [],
    'assumptions': TS_STUBS,
}


def obligations(tier):
    quick = tier == 'quick'
    obs = []
    tt = 200 if quick else 1500
    for direction, what, claim in (
            ('x2p2x', f'every integer millisecond count n in [0, {NMAX}] (= 2^53/1000), 44 slabs',
             'to_xml(to_py(str(n))) == str(n)  [residual when that is a known finding: differs from n by at most 1]'),
            ('p2x2p', 'every binary64 t with 0 <= t and t*1000 < 2^53 (subnormals included), 45 slabs',
             '|to_py(to_xml(t)) - t| < 1 ms, evaluated exactly  [residual when that is a known finding: < 2 ms]')):
        params = {'direction': direction, 'jobs': 8}
        if quick:
            params['crosscheck'] = ['2^10', '2^40']
        else:
            params['exact'] = 'all'
        obs.append(Ob(f'C18.ts.{direction}', 'checks.C18', 'ob_ts', kind='py', params=params, timeout=tt, functions=F_TS, stubs=TS_STUBS,
                      bounds=what + ('; quick: binades the error model cannot settle are decided exactly, plus an exact cross-check of '
                                     'binades 2^10 and 2^40' if quick else '; every binade decided by the exact binary64 encoding'),
                      claim=claim))
    return obs


MANIFEST_ENTRY = {
    'engine': 'pysym+crosshair',
    'technique': '',
    'text': '',
    'note': '',
}

from vf.main import Ob
from harness.mdibkit import STUBS

META = {
    'explanation': 'Inductive step on a REAL ProviderMdib: two location context states + one patient context state with symbolic '
                   'association (4-valued selector each), symbolic UnbindingMdibVersion presence/value, StateVersion and MdibVersion; '
                   'the pre-state is assumed to satisfy the invariant (<= 1 associated state per descriptor, only disassociated '
                   'states carry an unbinding version, handles unique). One step: ProviderMdibMethods.set_location (also twice), or the '
                   'tutorial GenericContextProvider._set_context_state with 1-2 proposed states (new / update of either state / '
                   'unknown handle, ASSOCIATED or DISASSOCIATED, same or other descriptor). Post: invariant holds; a state that stopped '
                   'being associated is Dis with UnbindingMdibVersion == commit version and an end time; a newly associated one has '
                   'BindingMdibVersion == commit version and a start time; a rejected request changes nothing.',
    'outside': ['one request naming the same existing state twice', 'proposals with ContextAssociation other than Assoc / Dis', 'uniqueness of real uuid4 values (stubbed by a '
                'counter)', 'other role providers than the tutorial GenericContextProvider', 'histories > 2 steps (induction argument)'],
}
F = ['sdc11073.mdib.providermdibxtra.ProviderMdibMethods.set_location', 'sdc11073.mdib.providermdibxtra.ProviderMdibMethods.disassociate_all',
     'sdc11073.mdib.transactions.ContextStateTransaction.disassociate_all',
     'sdc11073.mdib.transactions.ContextStateTransaction.mk_context_state',
     'sdc11073.mdib.transactions.ContextStateTransaction.get_context_state',
     'sdc11073.mdib.transactions.ContextStateTransaction.write_entity',
     'sdc11073.mdib.transactions.ContextStateTransaction.process_transaction',
     'tutorial.productandroles.contextprovider.GenericContextProvider._set_context_state',
     'sdc11073.mdib.statecontainers.LocationContextStateContainer.update_from_sdc_location']
ST = STUBS + ['uuid.uuid4 replaced by a counter in transactions / statecontainers / the tutorial context provider',
              'time.time replaced by a concrete increasing clock']
WHICH = ['new', 'update_cs0', 'update_cs1', 'unknown_handle']


def obligations(tier):
    t = 240 if tier == 'quick' else 900
    obs = [Ob('C10.set_location.once', 'harness.C10', 'set_location_step', bind={'twice': False}, timeout=t, functions=F, stubs=ST,
              bounds='2 location states with any of 4 associations each, unbinding version present/absent with unconstrained value, '
                     'sv, mv in N', claim='invariant + transition obligations after set_location'),
           Ob('C10.set_location.twice', 'harness.C10', 'set_location_step', bind={'twice': True}, timeout=t, functions=F, stubs=ST,
              bounds='same, two consecutive set_location calls', claim='invariant + transition obligations after each call')]
    for w1, name in enumerate(WHICH):
        obs.append(Ob(f'C10.set_context_state.one.{name}', 'harness.C10', 'set_context_state_step', bind={'n': 1, 'w1': w1},
                      timeout=t, functions=F, stubs=ST,
                      bounds='pre-state as above; 1 proposal (' + name + ') proposing Assoc, Dis, No (= attribute absent) or Pre, with or '
                             'without client-supplied unbinding version / end time',
                      claim='invariant + transition obligations, or the request is rejected and nothing changes'))
    for w1, n1 in enumerate(WHICH[:3]):
        for d2 in (0, 1):
            for p1 in (0, 1, 2, 3):
                for p2 in (0, 1, 2, 3):
                    if tier == 'quick' and (w1, d2, p1, p2) not in ((0, 0, 0, 0), (0, 0, 0, 1), (1, 0, 1, 0), (0, 1, 0, 0), (1, 0, 2, 0),
                                                                    (2, 0, 3, 2)):
                        continue
                    obs.append(Ob(f'C10.set_context_state.two.{n1}.{"same_descr" if d2 == 0 else "other_descr"}.'
                                  f'{"ADNP"[p1]}{"ADNP"[p2]}', 'harness.C10', 'set_context_state_step',
                                  bind=dict({'n': 2, 'w1': w1, 'd2': d2, 'p1': p1, 'p2': p2}, **({'pu': True} if tier == 'quick' else {})),
                                  timeout=t, functions=F, stubs=ST,
                                  bounds='pre-state as above; 2 proposals: ' + n1 + ' + any of 4 shapes on the ' +
                                         ('same' if d2 == 0 else 'other') + ' descriptor, proposing ' +
                                         ('Assoc', 'Dis', 'No', 'Pre')[p1] + ' / ' + ('Assoc', 'Dis', 'No', 'Pre')[p2],
                                  claim='invariant + transitions; two associated proposals for one descriptor are rejected'))
    return obs


MANIFEST_ENTRY = {
    'engine': 'crosshair+sched',
    'technique': 'bounded symbolic execution (CrossHair/z3), inductive step from a symbolic context-state pre-state assumed to satisfy '
                 'the invariant; invariant + transition oracle; concurrent context changes: recorded templates + SMT over interleavings (stale read before '
                 'write), gated replay',
    'text': 'All paths of one set_location / SetContextState step (1-2 proposals) from every valid pre-state of two location states '
            'and one patient state with unconstrained version counters.',
    'note': 'Induction over histories is an argument (invariant proved preserved by one step, bounded pre-state of 3 context states); '
            'uuid4 and the clock are stubs; the SetContextState handler is the tutorial role provider.',
}


# ---------------------------------------------------------------- E3: two concurrent context changes for one descriptor

E3_STUBS = ['provider = tests.mockstuff.SomeDevice (70041_MDIB_Final.xml), MockWsDiscovery, no HTTP server; the tutorial '
            'GenericContextProvider._set_context_state is called directly with prepared proposals',
            'locks replaced by recording wrappers, table accesses (read / mutate) of the MDIB logged; lock + table granularity']


def _e3_obligations(tier):
    obs = []
    combos = [('set_context_state', 'set_context_state'), ('set_context_state', 'local_transaction')]
    if tier == 'thorough':
        combos += [('set_location', 'set_location'), ('set_context_state', 'set_context_state', 'local_transaction')]
    for combo in combos:
        obs.append(Ob('C10.e3.' + '+'.join(combo), 'checks.C10', 'ob_context_race', kind='py', timeout=240, params={'acts': list(combo)},
                      functions=['tutorial.productandroles.contextprovider.GenericContextProvider._set_context_state',
                                 'sdc11073.mdib.providermdibxtra.ProviderMdibMethods.set_location',
                                 'sdc11073.mdib.providermdib.ProviderMdib._transaction_manager'], stubs=E3_STUBS,
                      bounds=f'{len(combo)} concurrent context changes for ONE context descriptor ({", ".join(combo)}); all interleavings of '
                             'the recorded lock / table events',
                      claim='no interleaving lets one change decide on a stale view of the context states (read before, written after '
                            'another change committed): afterwards at most one state of the descriptor is associated'))
    return obs


_seq_obligations = obligations


def obligations(tier):  # noqa: F811
    return _seq_obligations(tier) + _e3_obligations(tier)


def _e3_build():
    import sdc11073.definitions_sdc  # noqa: F401
    from sdc11073.provider.providerimpl import provider_components_sync_factory
    from tests import mockstuff
    from vf import sched
    rec = sched.Recorder()
    dev = mockstuff.SomeDevice.from_mdib_file(mockstuff.MockWsDiscovery('127.0.0.1'), None, '70041_MDIB_Final.xml',
                                              components=provider_components_sync_factory())
    sched.instrument_mdib(rec, dev.mdib)
    return rec, dev


def _e3_activity(dev, what, n):
    import types
    from sdc11073.location import SdcLocation
    from sdc11073.xml_types import pm_types
    import tutorial.productandroles.contextprovider as cp_mod
    mdib = dev.mdib
    pmn = mdib.data_model.pm_names
    if what == 'set_location':
        return lambda: mdib.xtra.set_location(SdcLocation(fac='f', poc='p', bed=f'bed{n}'))
    descr = sorted(mdib.descriptions.NODETYPE.get(pmn.PatientContextDescriptor), key=lambda d: d.Handle)[0]
    if what == 'local_transaction':
        def local():
            with mdib.context_state_transaction() as tr:
                tr.disassociate_all(descr.Handle)
                st = tr.mk_context_state(descr.Handle, f'local{n}', set_associated=True)
                st.CoreData = pm_types.PatientDemographicsCoreData()
        return local
    prov = cp_mod.GenericContextProvider(mdib, op_target_descr_types=None)

    def handler():
        st = mdib.data_model.get_state_class_for_descriptor(descr)(descr)
        st.Handle = descr.Handle           # BICEPS convention: a new state is proposed with Handle == DescriptorHandle
        st.ContextAssociation = pm_types.ContextAssociation.ASSOCIATED
        params = types.SimpleNamespace(operation_request=types.SimpleNamespace(argument=[st]),
                                       operation_instance=types.SimpleNamespace(operation_target_handle=descr.Handle), soap_message=None)
        prov._set_context_state(params)
    return handler


def _e3_descr_handle(dev, acts):
    pmn = dev.mdib.data_model.pm_names
    nodetype = pmn.LocationContextDescriptor if acts[0] == 'set_location' else pmn.PatientContextDescriptor
    return sorted(dev.mdib.descriptions.NODETYPE.get(nodetype), key=lambda d: d.Handle)[0].Handle


def ob_context_race(ctx):
    import time
    import z3
    from vf import sched
    t0 = time.time()
    acts = ctx.params['acts']
    rec, dev = _e3_build()
    templates = {f'T{i}': rec.record(_e3_activity(dev, a, i)) for i, a in enumerate(acts)}
    s, order = sched.encode(templates)
    queries = 1
    if str(s.check()) != 'sat':
        return {'verdict': 'error', 'reason': 'base constraints unsatisfiable'}
    clauses = []
    for a, ta in templates.items():
        ra = [i for i, ev in enumerate(ta) if ev == ('tr', 'context_states')]
        wa = [i for i, ev in enumerate(ta) if ev == ('tw', 'context_states')]
        for b, tb in templates.items():
            if a == b:
                continue
            wb = [i for i, ev in enumerate(tb) if ev == ('tw', 'context_states')]
            for r in ra:
                for w in wa:
                    if r >= w:
                        continue
                    for x in wb:
                        # a read the context states, b changed them, a wrote its decision afterwards
                        clauses.append(z3.And(order[(a, r)] < order[(b, x)], order[(b, x)] < order[(a, w)]))
    if not clauses:
        return {'verdict': 'error', 'reason': f'templates contain no read-then-write of the context state table: {templates}'}
    s.add(z3.Or(clauses))
    sample = {'templates': {k: [f'{a}:{b}' for a, b in v] for k, v in templates.items()}}
    spurious = 0
    while True:
        r = str(s.check())
        queries += 1
        if r == 'unsat':
            return {'verdict': 'confirmed', 'reach': True, 'queries': queries, 'solver_s': round(time.time() - t0, 2),
                    'engine': 'sched(z3 Int order variables)', 'sample': sample,
                    'detail': f'{len(clauses)} stale-read patterns over {sum(len(v) for v in templates.values())} events; '
                              f'{spurious} spurious models refuted by replay'}
        if r != 'sat':
            return {'verdict': 'inconclusive', 'reason': 'solver returned ' + r}
        model = s.model()
        schedule = sched.schedule_from_model(model, order)
        label, detail = _e3_replay(acts, schedule)
        if label != 'ok':
            return {'verdict': 'counterexample', 'label': label, 'replayed': True, 'queries': queries, 'detail': detail,
                    'witness': {'acts': acts, 'schedule': [list(x) for x in schedule]}, 'sample': sample,
                    'engine': 'sched(z3 Int order variables)'}
        spurious += 1
        if spurious >= 12 or time.time() - t0 > ctx.timeout * 0.8:
            return {'verdict': 'inconclusive', 'queries': queries,
                    'reason': f'{spurious} models did not reproduce on the real code; budget exhausted ({detail})'}
        s.add(z3.Or([order[k] != model[order[k]] for k in order]))


def _e3_replay(acts, schedule):
    from sdc11073.xml_types import pm_types
    rec, dev = _e3_build()
    handle = _e3_descr_handle(dev, acts)
    activities = {f'T{i}': _e3_activity(dev, a, 10 + i) for i, a in enumerate(acts)}
    rec.start_replay(schedule)
    results, errors = rec.run_threads(activities)
    if rec.failed or errors:
        return 'ok', f'replay could not follow the schedule ({rec.failed or errors})'
    states = [s for s in dev.mdib.context_states.descriptor_handle.get(handle, [])]
    assoc = [s.Handle for s in states if s.ContextAssociation == pm_types.ContextAssociation.ASSOCIATED]
    if len(assoc) > 1:
        return 'more-than-one-associated-state-after-concurrent-changes', f'descriptor {handle}: associated states {assoc}'
    return 'ok', f'associated: {assoc}'


def replay(ctx):
    w = ctx.params['witness']
    label, detail = _e3_replay(w['acts'], [tuple(x) for x in w['schedule']])
    return {'verdict': 'counterexample' if label != 'ok' else 'confirmed', 'label': label, 'detail': detail}

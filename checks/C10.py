from vf.main import Ob
from harness.mdibkit import STUBS

META = {
    'explanation': 'Inductive step on a REAL ProviderMdib: two location context states + one patient context state with symbolic '
                   'association (4-valued selector each), symbolic UnbindingMdibVersion presence/value, StateVersion and MdibVersion; '
                   'the pre-state is assumed to satisfy the invariant (<= 1 associated state per descriptor, only disassociated '
                   'states carry an unbinding version, handles unique). One step: ProviderMdibMethods.set_location (also twice), or the '
                   'tutorial GenericContextProvider._set_context_state with 1-2 proposed states (new / update of either state / '
                   'unknown handle, ASSOCIATED or DISASSOCIATED, same or other descriptor). Post: invariant holds; a state that stopped '
                   'being associated is Dis with UnbindingMdibVersion == commit version and an end time; a newly associated one has '
                   'BindingMdibVersion == commit version and a start time; a rejected request changes nothing.',
    'outside': ['one request naming the same existing state twice', 'proposals with ContextAssociation other than Assoc / Dis', 'uniqueness of real uuid4 values (stubbed by a '
                'counter)', 'other role providers than the tutorial GenericContextProvider', 'histories > 2 steps (induction argument)'],
}
F = ['sdc11073.mdib.providermdibxtra.ProviderMdibMethods.set_location', 'sdc11073.mdib.providermdibxtra.ProviderMdibMethods.disassociate_all',
     'sdc11073.mdib.transactions.ContextStateTransaction.disassociate_all',
     'sdc11073.mdib.transactions.ContextStateTransaction.mk_context_state',
     'sdc11073.mdib.transactions.ContextStateTransaction.get_context_state',
     'sdc11073.mdib.transactions.ContextStateTransaction.write_entity',
     'sdc11073.mdib.transactions.ContextStateTransaction.process_transaction',
     'tutorial.productandroles.contextprovider.GenericContextProvider._set_context_state',
     'sdc11073.mdib.statecontainers.LocationContextStateContainer.update_from_sdc_location']
ST = STUBS + ['uuid.uuid4 replaced by a counter in transactions / statecontainers / the tutorial context provider',
              'time.time replaced by a concrete increasing clock']
WHICH = ['new', 'update_cs0', 'update_cs1', 'unknown_handle']


def obligations(tier):
    t = 120 if tier == 'quick' else 900
    obs = [Ob('C10.set_location.once', 'harness.C10', 'set_location_step', bind={'twice': False}, timeout=t, functions=F, stubs=ST,
              bounds='2 location states with any of 4 associations each, unbinding version present/absent with unconstrained value, '
                     'sv, mv in N', claim='invariant + transition obligations after set_location'),
           Ob('C10.set_location.twice', 'harness.C10', 'set_location_step', bind={'twice': True}, timeout=t, functions=F, stubs=ST,
              bounds='same, two consecutive set_location calls', claim='invariant + transition obligations after each call')]
    for w1, name in enumerate(WHICH):
        obs.append(Ob(f'C10.set_context_state.one.{name}', 'harness.C10', 'set_context_state_step', bind={'n': 1, 'w1': w1},
                      timeout=t, functions=F, stubs=ST,
                      bounds='pre-state as above; 1 proposal (' + name + ') proposing Assoc or Dis',
                      claim='invariant + transition obligations, or the request is rejected and nothing changes'))
    for w1, n1 in enumerate(WHICH[:3]):
        for d2 in (0, 1):
            for p1 in (0, 1):
                for p2 in (0, 1):
                    if tier == 'quick' and (w1, d2, p1, p2) not in ((0, 0, 0, 0), (0, 0, 0, 1), (1, 0, 1, 0), (0, 1, 0, 0)):
                        continue
                    obs.append(Ob(f'C10.set_context_state.two.{n1}.{"same_descr" if d2 == 0 else "other_descr"}.'
                                  f'{"AD"[p1]}{"AD"[p2]}', 'harness.C10', 'set_context_state_step',
                                  bind={'n': 2, 'w1': w1, 'd2': d2, 'p1': p1, 'p2': p2}, timeout=t, functions=F, stubs=ST,
                                  bounds='pre-state as above; 2 proposals: ' + n1 + ' + any of 4 shapes on the ' +
                                         ('same' if d2 == 0 else 'other') + ' descriptor, proposing ' +
                                         ('Assoc', 'Dis')[p1] + ' / ' + ('Assoc', 'Dis')[p2],
                                  claim='invariant + transitions; two associated proposals for one descriptor are rejected'))
    return obs


MANIFEST_ENTRY = {
    'engine': 'crosshair',
    'technique': 'bounded symbolic execution (CrossHair/z3), inductive step from a symbolic context-state pre-state assumed to satisfy '
                 'the invariant; invariant + transition oracle',
    'text': 'All paths of one set_location / SetContextState step (1-2 proposals) from every valid pre-state of two location states '
            'and one patient state with unconstrained version counters.',
    'note': 'Induction over histories is an argument (invariant proved preserved by one step, bounded pre-state of 3 context states); '
            'uuid4 and the clock are stubs; the SetContextState handler is the tutorial role provider.',
}

from vf.main import Ob
from harness.mdibkit import STUBS

META = {
    'explanation': 'Inductive step on REAL ProviderMdib/ConsumerMdib objects: both MDIBs are built from the same symbolic version '
                   'counters (DescriptorVersion, StateVersion, MdibVersion, context StateVersion: unconstrained naturals) and symbolic '
                   'payload (str <= 3 chars, flags, enum selectors); one provider transaction of each kind runs through the real '
                   'transaction manager, SdcProvider._send_episodic_reports and the real port-type implementations; the captured '
                   'report objects are fed in emission order to the real ConsumerMdib.process_incoming_*; canonical member-wise '
                   'snapshots, every lookup index vs. a linear scan, and the consumer\'s change notifications are compared. C01.wire.*: the '
                   'same transaction kinds between a real SdcProvider and a real SdcConsumer + ConsumerMdib over a loop-back transport '
                   '(real XML, schema validation on both sides; concrete payload pool). C01.e3.*: initial load vs. concurrently '
                   'arriving reports and vs. concurrently committing transactions (engine E3, shared with C06 / C07).',
    'outside': ['XML wire format of the reports for SYMBOLIC payload (identity stub in C01.state / C01.descr / C01.two / C01.seq; the real '
                'wire is used by C01.wire.* with a concrete payload pool; data-type round trips are C05, timestamps C18)',
                'initial load / reload via GetMdib and faulty delivery (C06)', 'symbolic sample VALUES of real-time sample arrays (Decimal realises; counters and sample count are symbolic) and '
                'the ConsumerRtBuffer contents / waveform age logging', 'histories longer than 2 transactions (induction over histories is an argument: the step '
                'obligation starts from arbitrary version counters)', 'MDIBs larger than the 8-16 descriptor kit'],
}
F = ['sdc11073.mdib.providermdib.ProviderMdib._transaction_manager',
     'sdc11073.mdib.transactions.DescriptorTransaction.process_transaction',
     'sdc11073.mdib.transactions.MetricStateTransaction.process_transaction',
     'sdc11073.mdib.transactions.AlertStateTransaction.process_transaction',
     'sdc11073.mdib.transactions.ComponentStateTransaction.process_transaction',
     'sdc11073.mdib.transactions.OperationalStateTransaction.process_transaction',
     'sdc11073.mdib.transactions.ContextStateTransaction.process_transaction',
     'sdc11073.mdib.transactions._TransactionBase._handle_state_updates',
     'sdc11073.mdib.providermdibxtra.ProviderMdibMethods.set_location',
     'sdc11073.provider.providerimpl.SdcProvider._send_episodic_reports',
     'sdc11073.provider.porttypes.stateeventserviceimpl.StateEventService.send_episodic_metric_report',
     'sdc11073.provider.porttypes.stateeventserviceimpl.fill_episodic_report_body',
     'sdc11073.provider.porttypes.contextserviceimpl.ContextService.send_episodic_context_report',
     'sdc11073.provider.porttypes.descriptioneventserviceimpl.DescriptionEventService.mk_description_modification_report_body',
     'sdc11073.mdib.consumermdib.ConsumerMdib._update_from_states_report',
     'sdc11073.mdib.consumermdib.ConsumerMdib._update_from_context_states_report',
     'sdc11073.mdib.consumermdib.ConsumerMdib._process_incoming_description_modifications',
     'sdc11073.mdib.consumermdib.ConsumerMdib._has_new_state_usable_state_version',
     'sdc11073.mdib.consumermdib.ConsumerMdib._can_accept_mdib_version',
     'sdc11073.mdib.containerbase.ContainerBase._update_from_other']
STATE_KINDS = ['metric', 'two_metrics_two_mds', 'alert', 'component', 'operational', 'context_new', 'context_update',
               'context_update_two_of_one_descriptor', 'set_location', 'waveform', 'context_delete_through_context_transaction']
DESCR_KINDS = ['update_alert_condition_source', 'update_alert_signal_condition_signaled', 'update_metric_descriptor_and_state',
               'create_metric', 'delete_leaf', 'delete_subtree', 'update_context_descriptor', 'create_channel_with_child',
               'create_two_children_of_one_parent', 'update_parent_then_create_child', 'delete_two_children_of_one_parent',
               'create_child_then_update_parent', 'entity_write_context_descriptor_with_new_state',
               'update_context_descriptor_and_add_state', 'entity_write_metric_descriptor_and_state',
               'create_child_in_subtree_removed_in_same_transaction']
TX_NAMES = ['metric_m0', 'metric_m1', 'alert', 'component', 'operational', 'context_new', 'context_update', 'context_two',
            'set_location', 'upd_source', 'upd_condition_signaled', 'upd_metric_descr+state', 'create_metric', 'delete_leaf',
            'delete_subtree', 'upd_context_descr', 'create_channel+child', 'create_two_children', 'delete_context_descriptor']
SYM = 'symbolic: DescriptorVersion, StateVersion, MdibVersion, context StateVersion in N (unconstrained); str payload <= 3 chars; '


def obligations(tier):
    t = 90 if tier == 'quick' else 600
    obs = []
    for i, name in enumerate(STATE_KINDS):
        obs.append(Ob(f'C01.state.{name}', 'harness.C01', 'mirror_state_tx', bind={'kind': i}, timeout=t, functions=F, stubs=STUBS,
                      bounds=SYM + 'flag, 4-way enum selector; 1 transaction; MDIB of 13-17 descriptors, 3 context states',
                      claim='after the transaction and delivery of its reports the consumer snapshot equals the provider snapshot, '
                            'indices equal scans, notifications name exactly the changed states'))
    for i, name in enumerate(DESCR_KINDS):
        obs.append(Ob(f'C01.descr.{name}', 'harness.C01', 'mirror_descr_tx', bind={'kind': i}, timeout=t, functions=F, stubs=STUBS,
                      bounds=SYM + '3-way selector; 1 descriptor transaction; MDIB of 11 descriptors, 3 context states',
                      claim='same, incl. new/updated/deleted descriptor notifications'))
    pairs = [(f, s) for f in range(3) for s in range(3)] if tier == 'thorough' else [(0, 0), (2, 0), (1, 2)]
    for f, s in pairs:
        obs.append(Ob(f'C01.two.{f}.{s}', 'harness.C01', 'mirror_two_steps', bind={'first': f, 'second': s}, timeout=t, functions=F,
                      stubs=STUBS, bounds='symbolic dv, sv, mv in N, str <= 2; 2 consecutive transactions (delete/update/create then '
                      're-create/delete/update), mirror compared after each',
                      claim='mirror after every prefix of a 2-transaction history incl. delete -> re-create with greater versions'))
    if tier == 'thorough':
        for c1, name in enumerate(TX_NAMES):
            obs.append(Ob(f'C01.seq.{name}.then_any', 'harness.C01', 'mirror_two_kinds', bind={'c1': c1}, timeout=1200, functions=F,
                          stubs=STUBS, twin=False,
                          bounds=SYM + f'first transaction "{name}", second transaction ANY of the 19 kinds (symbolic); mirror compared '
                                 'after each; a second transaction rejected by the API must change nothing',
                          claim='mirror after every prefix of every 2-transaction history over 19 transaction kinds'))
    from checks.C06 import E3_STUBS
    obs.append(Ob('C01.e3.reload_vs_report', 'checks.C06', 'ob_reload_race', kind='py', timeout=240, params={'reports': 1},
                  functions=['sdc11073.mdib.consumermdib.ConsumerMdib.reload_all',
                             'sdc11073.mdib.consumermdib.ConsumerMdib._pre_check_report_ok'], stubs=E3_STUBS,
                  bounds='1 reload_all (initial load) thread x 1 report thread; all interleavings of the recorded lock / _state / buffer '
                         'events consistent with the recorded _state values (engine E3, shared with C06)',
                  claim='a report delivered while the consumer initialises is never lost (it is buffered and replayed, or applied)'))
    from harness import loopkit
    wire_stubs = loopkit.STUBS + ['kit MDIB (15 descriptors, 3 context states) completed with the schema-mandatory members, loaded by the '
                                  'provider from its XML form; payload strings from a pool of 3 (plain, XML-special, non-ASCII): lxml '
                                  'needs concrete data; library calls run with real interpreter semantics (selector enumeration by '
                                  'the solver)']
    wire_f = F + ['sdc11073.pysoap.msgfactory.MessageFactory.serialize_message', 'sdc11073.pysoap.msgreader.MessageReader.read_received_message',
                  'sdc11073.mdib.consumermdibxtra.ConsumerMdibMethods._on_episodic_metric_report',
                  'sdc11073.provider.subscriptionmgr_base.SubscriptionsManagerBase.send_to_subscribers']
    if tier == 'quick':
        for part, codes in (('state_kinds', 'c1 in 0..8'), ('descriptor_kinds', 'c1 in 9..18')):
            obs.append(Ob(f'C01.wire.one.{part}', 'harness.C01_wire', 'wire_one_' + part, timeout=t, functions=wire_f, stubs=wire_stubs,
                          bounds=f'1 transaction ({codes} of the 19 kinds) x 3 payloads x flag x 4 selector values; REAL provider, port '
                                 'types, MessageFactory + schema validation, loop-back transport, consumer dispatch, MessageReader + '
                                 'schema validation, ConsumerMdib',
                          claim='the consumer MDIB that received the reports as validated XML equals the provider MDIB (content, versions, '
                                'indices) - closes the identity-XML stub of the C01.state / C01.descr obligations'))
    else:
        for i, name in enumerate(TX_NAMES):
            obs.append(Ob(f'C01.wire.two.{name}', 'harness.C01_wire', 'wire_two_kinds', bind={'c1': i}, timeout=t, functions=wire_f,
                          stubs=wire_stubs,
                          bounds=f'first transaction "{name}", second ANY of the 19 kinds, x 3 payloads x flag x 4 selector values; real '
                                 'XML wire with schema validation on both sides',
                          claim='mirror over the real wire after each of two transactions'))
    from checks import C07
    for kd in (('metric', 'descriptor') if tier == 'quick' else ('metric', 'context', 'descriptor', 'alert', 'component')):
        obs.append(Ob(f'C01.e3.initial_snapshot.vs.{kd}', 'checks.C07', 'ob_snapshot', kind='py', timeout=240,
                      params={'handler': 'GetMdib', 'kind': kd, 'writers': 1}, functions=C07.F, stubs=C07.STUBS,
                      bounds=f'1 GetMdib request (what ConsumerMdib.init_mdib loads) x 1 committing {kd} transaction; all interleavings '
                             'of the recorded events (engine E3, shared with C07)',
                      claim='the snapshot the consumer starts from is the provider MDIB at exactly the MdibVersion it states; a snapshot '
                            'labelled v+1 with content of v would make the consumer discard the buffered report of v+1 and keep a '
                            'stale object for ever'))
    return obs


MANIFEST_ENTRY = {
    'engine': 'crosshair+sched',
    'technique': 'bounded symbolic execution (CrossHair/z3) of the real provider transaction + report + consumer update path with '
                 'symbolic version counters and payloads; snapshot-equality and index-vs-scan oracle',
    'text': 'For each of 27 transaction kinds (11 state, 16 descriptor) (and 2-transaction sequences) every path of the real provider->report->consumer code is '
            'explored with unconstrained natural version counters; "Confirmed over all paths" means the mirror property holds for ALL '
            'version values and all short payload strings on the small MDIB, one step from an arbitrary pre-state.',
    'note': 'Report XML (de)serialisation is an identity stub; MDIB content other than versions/payload is concrete; histories > 2 steps '
            'are covered by the induction argument only.',
}

"""C04: reports are complete, truthful and delivered in version order (E1 content + E3 ordering)."""
from __future__ import annotations

import time

from vf.main import Ob
from harness.mdibkit import STUBS

META = {
    'explanation': 'CONTENT (CrossHair): one transaction of each kind on a real ProviderMdib (one- and two-MDS) with symbolic version '
                   'counters and payload runs through the real transaction manager, SdcProvider._send_episodic_reports and the real '
                   'port-type implementations; the captured report objects must carry exactly the committed MdibVersion / SequenceId '
                   '/ InstanceId, exactly the changed descriptors / states with committed values and counters, each report part under '
                   'the MDS of its states; copies retained by the real PeriodicReportsHandler keep the value of the version they are '
                   'labelled with after a later transaction. ORDERING (E3): event templates (locks, mdib_version writes, '
                   'send_to_subscribers calls) recorded from real transactions of a real provider (sync and async subscription '
                   'managers); z3 searches an interleaving of 2-3 writer threads in which a subscriber gets a higher MdibVersion '
                   'before a lower one; sat schedules are replayed with gated real threads. PERIODIC (E3): one iteration of the real '
                   'retrievability-driven periodic loop vs. committing writers - the copies must show the MDIB at the version they are '
                   'labelled with (label read located by taint tracking). WIRE: start-up + one transaction of each kind + renew / '
                   'unsubscribe between a real provider and consumer over a loop-back transport, every SOAP message judged by an '
                   'independent schema validator.',
    'outside': ['"every message validates against the bundled SOAP / WS-* / BICEPS schemas": XSD validation is libxml2 (C), not '
                'encodable; decided only for the exchanges of C04.wire.messages_validate (real libxml2 validator on every message of '
                'start-up + one transaction of each of 19 kinds + renew/status/unsubscribe), not for arbitrary MDIB content', 'socket delivery, the asyncio loop\'s own scheduling, HTTP '
                'layer', 'interleavings finer than lock / send granularity; code paths the recorded transactions did not take',
                'XML serialisation of the report objects (C05 / C18)', 'more than 3 concurrent writers'],
}
FC = ['sdc11073.mdib.providermdib.ProviderMdib._transaction_manager', 'sdc11073.provider.providerimpl.SdcProvider._send_episodic_reports',
      'sdc11073.provider.porttypes.stateeventserviceimpl.StateEventService.send_episodic_metric_report',
      'sdc11073.provider.porttypes.stateeventserviceimpl.StateEventService.send_episodic_alert_report',
      'sdc11073.provider.porttypes.stateeventserviceimpl.StateEventService.send_episodic_component_state_report',
      'sdc11073.provider.porttypes.stateeventserviceimpl.StateEventService.send_episodic_operational_state_report',
      'sdc11073.provider.porttypes.stateeventserviceimpl.fill_episodic_report_body',
      'sdc11073.provider.porttypes.stateeventserviceimpl._separate_states_by_source_mds',
      'sdc11073.provider.porttypes.contextserviceimpl.ContextService.send_episodic_context_report',
      'sdc11073.provider.porttypes.descriptioneventserviceimpl.DescriptionEventService.send_descriptor_updates',
      'sdc11073.provider.porttypes.descriptioneventserviceimpl.DescriptionEventService.mk_description_modification_report_body',
      'sdc11073.mdib.transactions.DescriptorTransaction.process_transaction',
      'sdc11073.mdib.transactions._TransactionBase._handle_state_updates',
      'sdc11073.provider.periodicreports.PeriodicReportsHandler._store_for_periodic_report',
      'sdc11073.mdib.containerbase.ContainerBase.mk_copy']
FO = ['sdc11073.mdib.providermdib.ProviderMdib._transaction_manager', 'sdc11073.provider.providerimpl.SdcProvider._send_episodic_reports',
      'sdc11073.provider.subscriptionmgr_base.SubscriptionsManagerBase.send_to_subscribers',
      'sdc11073.provider.subscriptionmgr_async.SubscriptionsManagerBaseAsync.send_to_subscribers']
SK = ['metric', 'metrics_two_mds', 'alert', 'component', 'operational', 'context_new_and_update', 'context_add_state_without_handle']
DK = ['update_descriptor_and_state', 'create', 'delete_leaf', 'delete_subtree', 'create_in_second_mds', 'delete_child_then_parent',
      'update_rt_sample_array_descriptor', 'update_rt_and_metric_descriptor', 'update_alert_and_context_descriptor',
      'create_two_children_of_one_parent', 'update_parent_and_delete_child']
RK = ['metric_nested', 'context_nested', 'alert_flat']
E3_STUBS = ['provider = tests.mockstuff.SomeDevice (70041_MDIB_Final.xml), MockWsDiscovery, no HTTP server; '
            'send_to_subscribers of every subscriptions manager is wrapped to log a send event and record (action, MdibVersion)',
            'async manager: its event-loop thread is not running, the call returns after the instrumented entry (the loop side is outside)',
            'locks replaced by recording wrappers; lock-acquire/release + mdib_version write + send granularity']


def obligations(tier):
    t = 90 if tier == 'quick' else 600
    obs = []
    for i, n in enumerate(SK):
        obs.append(Ob(f'C04.content.state.{n}', 'harness.C04', 'state_report', bind={'kind': i}, timeout=t, functions=FC, stubs=STUBS,
                      bounds='symbolic dv, sv, mv in N, str <= 3, flag; 1 transaction; one- or two-MDS MDIB (kit)',
                      claim='exactly one report, committed version group, exactly the changed states with committed values/counters, '
                            'grouped under their MDS'))
    for i, n in enumerate(DK):
        obs.append(Ob(f'C04.content.description.{n}', 'harness.C04', 'description_report', bind={'kind': i}, timeout=t, functions=FC,
                      stubs=STUBS, bounds='symbolic dv, sv, mv, parent dv in N, str <= 2; 1 descriptor transaction',
                      claim='one report part per changed descriptor with right type / parent / MDS / committed versions and the related '
                            'states; accompanying state reports carry the same MdibVersion'))
    for i, n in enumerate(RK):
        obs.append(Ob(f'C04.content.retained.{n}', 'harness.C04', 'retained_copies', bind={'kind': i}, timeout=t, functions=FC,
                      stubs=STUBS + ['real PeriodicReportsHandler, thread never started'],
                      bounds='two consecutive transactions on the same state with distinct symbolic strs <= 2; mv, sv in N',
                      claim='retained copies keep version label, StateVersion and value of their own commit'))
    combos = [('metric', 'metric'), ('metric', 'context'), ('descriptor', 'metric'), ('waveform', 'metric')]
    if tier == 'thorough':
        combos += [('context', 'context'), ('descriptor', 'descriptor'), ('alert', 'metric'), ('waveform', 'waveform'),
                   ('waveform', 'context'), ('metric', 'metric', 'metric'),
                   ('metric', 'context', 'descriptor')]
    for mgr in ('sync', 'async'):
        for combo in combos:
            obs.append(Ob(f'C04.order.{mgr}.{"+".join(combo)}', 'checks.C04', 'ob_order', kind='py', timeout=240,
                          params={'mgr': mgr, 'writers': list(combo)}, functions=FO, stubs=E3_STUBS,
                          bounds=f'{len(combo)} concurrent writer threads ({", ".join(combo)}), {mgr} subscription manager; all '
                                 'interleavings of the recorded lock / version-write / send events',
                          claim='no interleaving hands a subscriptions manager a report with a lower MdibVersion after a higher one'))
    for kd in (('metric', 'context') if tier == 'quick' else ('metric', 'context', 'alert', 'component')):
        for nw in ((1,) if tier == 'quick' else (1, 2)):
            obs.append(Ob(f'C04.periodic.retrievability.vs.{kd}.w{nw}', 'checks.C04', 'ob_periodic', kind='py', timeout=240,
                          params={'kind': kd, 'writers': nw},
                          functions=['sdc11073.provider.periodicreports.PeriodicReportsHandler._periodic_reports_send_loop',
                                     'sdc11073.mdib.providermdib.ProviderMdib._transaction_manager'],
                          stubs=E3_STUBS[:1] + ['one iteration of the real _periodic_reports_send_loop: IntervalTimer replaced by a '
                                                'stub whose wait returns at once and ends the loop after this iteration; hosted '
                                                'services replaced by a capture of the PeriodicStates handed over',
                                                'retrievability_periodic = one period with a metric, a vmd, an alert condition and '
                                                'the location context descriptor'],
                          bounds=f'1 iteration of the retrievability-driven periodic loop x {nw} committing {kd} transaction(s); all '
                                 'interleavings of the recorded lock / mdib_version / table events',
                          claim='the state copies of a periodic report show the values of the MdibVersion they are labelled with'))
    from harness import loopkit
    obs.append(Ob('C04.wire.messages_validate', 'harness.C01_wire', 'wire_messages_validate', timeout=max(t, 150),
                  functions=['sdc11073.pysoap.msgfactory.MessageFactory.serialize_message',
                             'sdc11073.provider.providerimpl.SdcProvider._send_episodic_reports',
                             'sdc11073.provider.subscriptionmgr_base.SubscriptionsManagerBase.send_to_subscribers',
                             'sdc11073.consumer.subscription.ConsumerSubscription.subscribe'],
                  stubs=loopkit.STUBS + ['provider and consumer run with validate=False so that nothing invalid is held back; an '
                                         'independent MessageReader(validate=True) on the bundled schemas judges every recorded message',
                                         'kit MDIB completed with the schema-mandatory members; payload strings from a pool of 3; real '
                                         'interpreter semantics, selectors chosen by the solver'],
                  bounds='start-up (GetMetadata, GetMdib, Subscribe), 1 transaction of any of 19 kinds x 3 payloads x flag x 4 selector '
                         'values, Renew, GetStatus, Unsubscribe: every SOAP request, response and notification of both sides',
                  claim='every message put on the wire validates against the bundled SOAP, WS-* and BICEPS schemas (for these exchanges)'))
    return obs


# ---------------------------------------------------------------- E3: periodic (retrievability) loop vs. writers

def _periodic_reader(dev):
    import contextlib
    import io
    import types
    from sdc11073.provider import periodicreports as pr
    mdib = dev.mdib
    pmn = mdib.data_model.pm_names
    handles = [sorted(d.Handle for d in mdib.descriptions.NODETYPE.get(q))[0]
               for q in (pmn.NumericMetricDescriptor, pmn.VmdDescriptor, pmn.AlertConditionDescriptor, pmn.LocationContextDescriptor)]
    mdib.retrievability_periodic.clear()
    mdib.retrievability_periodic[1000] = handles

    def reader():
        got = []

        class Srv:
            def __getattr__(self, name):
                return lambda periodic_states_list, _vg: got.extend((name, ps.mdib_version, ps.states) for ps in periodic_states_list)
        srv = Srv()
        h = pr.PeriodicReportsHandler(mdib, types.SimpleNamespace(state_event_service=srv, context_service=srv), None)

        class Timer:
            def __init__(self, **_kw):
                pass

            def remaining_time(self):
                return 0

            def wait_next_interval_begin(self):
                h._run_periodic_reports_thread = False      # this iteration is the last one
        real_timer, real_sleep = pr.intervaltimer.IntervalTimer, pr.time.sleep
        pr.intervaltimer = types.SimpleNamespace(IntervalTimer=Timer)
        h._run_periodic_reports_thread = True
        try:
            with contextlib.redirect_stdout(io.StringIO()):      # (the loop prints the number of context states)
                h._periodic_reports_send_loop()
        finally:
            from sdc11073 import intervaltimer
            pr.intervaltimer = intervaltimer
        reader.last = got
        return got
    return reader, handles


def _periodic_ref(mdib, handles):
    from harness.mdibkit import canon_container
    out = {}
    for h in handles:
        st = mdib.states.descriptor_handle.get_one(h, allow_none=True)
        if st is not None:
            out[h] = canon_container(st)
        for cs in mdib.context_states.descriptor_handle.get(h, []):
            out[cs.Handle] = canon_container(cs)
    return out


def _replay_periodic(rec, dev, p, schedule):
    from checks.C07 import _writer
    from harness.mdibkit import canon_container
    mdib = dev.mdib
    reader, handles = _periodic_reader(dev)
    refs = {mdib.mdib_version: _periodic_ref(mdib, handles)}

    def take_ref(_m, _t):
        lab = rec.label()
        rec.set_label(None)
        try:
            refs[mdib.mdib_version] = _periodic_ref(mdib, handles)
        finally:
            rec.set_label(lab)
    mdib.post_commit_handler = take_ref
    acts = {'R': reader}
    base = mdib.mdib_version
    for i in range(p['writers']):
        acts[f'W{i}'] = _writer(dev, p['kind'], 100 + base + i)
    rec.start_replay(schedule)
    results, errors = rec.run_threads(acts)
    mdib.post_commit_handler = None
    if rec.failed or errors or 'R' not in results:
        return 'ok', f'replay could not follow the schedule ({rec.failed or errors})'
    for name, version, states in results['R']:
        if version not in refs:
            return 'periodic-states-labelled-with-a-version-never-committed', f'{name}: label {version}, committed {sorted(refs)}'
        for st in states:
            key = st.Handle if st.is_context_state else st.DescriptorHandle
            if canon_container(st) != refs[version].get(key):
                return 'periodic-state-copy-differs-from-mdib-at-labelled-version', \
                    f'{name}: copy of {key} labelled MdibVersion {version} has StateVersion {st.StateVersion}, the MDIB at that ' \
                    f'version had another content (schedule {schedule})'
    if not results['R']:
        return 'no-periodic-states-handed-over', 'the loop iteration produced nothing'
    return 'ok', ''


def ob_periodic(ctx):
    import z3
    from checks.C07 import _build as build7, _violation, _writer
    from vf import sched
    p = ctx.params
    t0 = time.time()
    rec, dev = build7()
    reader, _handles = _periodic_reader(dev)
    rec.taint = True        # which read of mdib_version becomes the LABEL of the copies (the report header reads it again, later)
    templates = {'R': rec.record(reader)}
    rec.taint = False
    label_reads = {getattr(v, 'src', None) for _n, v, _s in reader.last}
    if None in label_reads or not label_reads:
        label_reads = None      # label computed, not passed through: every read of mdib_version counts
    for i in range(p['writers']):
        templates[f'W{i}'] = rec.record(_writer(dev, p['kind'], i + 1))
    s, order = sched.encode(templates)
    queries = 1
    if str(s.check()) != 'sat':
        return {'verdict': 'error', 'reason': 'base constraints unsatisfiable'}
    if not sched.idx_of(templates['R'], 'read', 'mdib_version'):
        return {'verdict': 'error', 'reason': 'the recorded loop iteration never read mdib_version'}
    clauses = _violation(sched, templates, order, version_reads=label_reads)
    s.add(z3.Or(*clauses) if clauses else z3.BoolVal(False))
    sample = {'templates': {k: [f'{a}:{b}' for a, b in v] for k, v in templates.items()},
              'label_reads': sorted(label_reads) if label_reads else 'all'}
    spurious = 0
    while True:
        r = str(s.check())
        queries += 1
        if r == 'unsat':
            return {'verdict': 'confirmed', 'reach': True, 'queries': queries, 'solver_s': round(time.time() - t0, 2),
                    'engine': 'sched(z3 Int order variables)', 'sample': sample,
                    'detail': f'label of the copies = read event {sample["label_reads"]} of the loop template; {len(clauses)} violation patterns over {sum(len(v) for v in templates.values())} events; '
                              f'{spurious} spurious models refuted by replay'}
        if r != 'sat':
            return {'verdict': 'inconclusive', 'reason': 'solver returned ' + r}
        model = s.model()
        schedule = sched.schedule_from_model(model, order)
        label, detail = _replay_periodic(rec, dev, p, schedule)
        if label != 'ok':
            return {'verdict': 'counterexample', 'label': label, 'replayed': True, 'queries': queries, 'detail': detail,
                    'witness': {'params': p, 'schedule': [list(x) for x in schedule], 'periodic': True},
                    'engine': 'sched(z3 Int order variables)', 'sample': sample}
        spurious += 1
        if spurious >= 12 or time.time() - t0 > ctx.timeout * 0.8:
            return {'verdict': 'inconclusive', 'queries': queries,
                    'reason': f'{spurious} models of the abstraction did not reproduce on the real code; budget exhausted ({detail})'}
        s.add(z3.Or([order[k] != model[order[k]] for k in order]))


# ---------------------------------------------------------------- E3 ordering machinery

def _build(mgr):
    import sdc11073.definitions_sdc  # noqa: F401
    from sdc11073.provider.providerimpl import provider_components_async_factory, provider_components_sync_factory
    from tests import mockstuff
    from vf import sched
    rec = sched.Recorder()
    comp = provider_components_sync_factory() if mgr == 'sync' else provider_components_async_factory()
    dev = mockstuff.SomeDevice.from_mdib_file(mockstuff.MockWsDiscovery('127.0.0.1'), None, '70041_MDIB_Final.xml', components=comp)
    sched.instrument_mdib(rec, dev.mdib)
    sent = []
    for name, m in dev._subscriptions_managers.items():
        orig = m.send_to_subscribers

        def wrapped(payload, action, vg, _orig=orig, _name=name):
            rec.event('send', _name)
            sent.append((_name, action.rsplit('/', 1)[-1], vg.mdib_version, rec.label()))
            return _orig(payload, action, vg)
        m.send_to_subscribers = wrapped
    return rec, dev, sent


def ob_order(ctx):
    import z3
    from checks.C07 import _writer
    from vf import sched
    p = ctx.params
    t0 = time.time()
    rec, dev, sent = _build(p['mgr'])
    templates = {}
    for i, kd in enumerate(p['writers']):
        templates[f'W{i}'] = rec.record(_writer(dev, kd, i + 1))
    n_sends = {k: len(sched.idx_of(v, 'send')) for k, v in templates.items()}
    if any(n == 0 for n in n_sends.values()):
        return {'verdict': 'error', 'reason': f'a recorded transaction sent no report: {n_sends}'}
    s, order = sched.encode(templates)
    queries = 1
    if str(s.check()) != 'sat':
        return {'verdict': 'error', 'reason': 'base constraints unsatisfiable'}
    clauses = []
    labs = list(templates)
    for a in labs:
        for b in labs:
            if a == b:
                continue
            wa = sched.idx_of(templates[a], 'write', 'mdib_version')
            wb = sched.idx_of(templates[b], 'write', 'mdib_version')
            for sa in sched.idx_of(templates[a], 'send'):
                for sb in sched.idx_of(templates[b], 'send'):
                    if templates[a][sa][1] != templates[b][sb][1]:
                        continue          # different subscription managers (different subscriber sets / services)
                    # a's report is handed over before b's although a committed the higher version
                    clauses.append(z3.And(order[(a, sa)] < order[(b, sb)], order[(a, wa[-1])] > order[(b, wb[-1])]))
            # a's report is labelled with a version read after b committed a later version (label of another commit)
            for ra in sched.idx_of(templates[a], 'read', 'mdib_version'):
                if ra > wa[-1] and any(sa > ra for sa in sched.idx_of(templates[a], 'send')):
                    clauses.append(z3.And(order[(b, wb[-1])] > order[(a, wa[-1])], order[(b, wb[-1])] < order[(a, ra)]))
    s.add(z3.Or(*clauses) if clauses else z3.BoolVal(False))
    sample = {'templates': {k: [f'{a}:{b}' for a, b in v] for k, v in templates.items()}}
    spurious = 0
    while True:
        r = str(s.check())
        queries += 1
        if r == 'unsat':
            return {'verdict': 'confirmed', 'reach': True, 'queries': queries, 'solver_s': round(time.time() - t0, 2),
                    'engine': 'sched(z3 Int order variables)', 'sample': sample,
                    'detail': f'{len(clauses)} inversion patterns over {sum(len(v) for v in templates.values())} events; '
                              f'{spurious} spurious models refuted by replay'}
        if r != 'sat':
            return {'verdict': 'inconclusive', 'reason': 'solver returned ' + r}
        model = s.model()
        schedule = sched.schedule_from_model(model, order)
        label, detail = _replay_order(rec, dev, sent, p, schedule)
        if label != 'ok':
            return {'verdict': 'counterexample', 'label': label, 'replayed': True, 'queries': queries, 'detail': detail,
                    'witness': {'params': p, 'schedule': [list(x) for x in schedule]}, 'engine': 'sched(z3 Int order variables)',
                    'sample': sample}
        spurious += 1
        if spurious >= 12 or time.time() - t0 > ctx.timeout * 0.8:
            return {'verdict': 'inconclusive', 'queries': queries,
                    'reason': f'{spurious} models of the abstraction did not reproduce on the real code; budget exhausted'}
        s.add(z3.Or([order[k] != model[order[k]] for k in order]))


def _replay_order(rec, dev, sent, p, schedule):
    from checks.C07 import _writer
    del sent[:]
    acts = {f'W{i}': _writer(dev, kd, 200 + i) for i, kd in enumerate(p['writers'])}
    rec.start_replay(schedule)
    results, errors = rec.run_threads(acts)
    if rec.failed or errors:
        return 'ok', f'replay could not follow the schedule ({rec.failed or errors})'
    # the version each writer committed: order of the mdib_version writes in the replay
    base = min((v for _m, _a, v, _l in sent), default=0)
    commits = [lab for (lab, _i, kind, what) in rec.replay_log if (kind, what) == ('write', 'mdib_version')]
    first = dev.mdib.mdib_version - len(commits) + 1
    version_of = {lab: first + n for n, lab in enumerate(commits)}
    for mgr_name, action, version, lab in sent:
        if lab in version_of and version != version_of[lab]:
            return 'report-labelled-with-mdib-version-of-another-commit', \
                f'{action} of writer {lab} (committed version {version_of[lab]}) was sent with MdibVersion {version}; sequence {sent}'
    last = {}
    for mgr_name, action, version, _lab in sent:
        key = mgr_name
        if key in last and version < last[key]:
            return 'report-with-lower-mdib-version-sent-after-higher', \
                f'manager {mgr_name}: {action} with MdibVersion {version} handed over after version {last[key]}; sequence {sent}'
        last[key] = max(last.get(key, version), version)
    return 'ok', ''


def replay(ctx):
    w = ctx.params['witness']
    if w.get('periodic'):
        from checks.C07 import _build as build7
        rec, dev = build7()
        label, detail = _replay_periodic(rec, dev, w['params'], [tuple(x) for x in w['schedule']])
        return {'verdict': 'counterexample' if label != 'ok' else 'confirmed', 'label': label, 'detail': detail}
    rec, dev, sent = _build(w['params']['mgr'])
    label, detail = _replay_order(rec, dev, sent, w['params'], [tuple(x) for x in w['schedule']])
    return {'verdict': 'counterexample' if label != 'ok' else 'confirmed', 'label': label, 'detail': detail}


MANIFEST_ENTRY = {
    'engine': 'crosshair+sched',
    'technique': 'content: bounded symbolic execution (CrossHair/z3) of the real transaction -> report path with symbolic counters and '
                 'payload; ordering and the retrievability-driven periodic loop: recorded event templates + SMT over interleavings (z3), '
                 'gated replay',
    'text': 'Content obligations are explored to path exhaustion for all version counters / short payload strings; ordering obligations '
            'are unsat results over all interleavings of 2-3 recorded writer templates (sync and async managers); periodic obligations: '
            'unsat over all interleavings of one loop iteration with 1-2 committing writers (label read identified by taint tracking).',
    'note': 'Schema validity of the emitted XML is decided for a pool of exchanges only (real validator, C04.wire.messages_validate); ordering at lock/send '
            'granularity of recorded templates; delivery below send_to_subscribers (sockets, asyncio loop) is outside.',
}

"""C07: Get responses are consistent snapshots under concurrent transactions (engine E3 'sched')."""
from __future__ import annotations

import time
from decimal import Decimal

from vf.main import Ob

META = {
    'explanation': 'Event templates (lock acquire/release of mdib_lock and the transaction lock, reads/writes of mdib_version, accesses '
                   'to the descriptor/state/context-state tables) are RECORDED from the real Get handlers and from real committing '
                   'transactions of each kind on a provider built like the test suite\'s SomeDevice (no sockets). z3 searches an '
                   'interleaving (Int order variables, program order, lock mutual exclusion) in which the handler observes one part '
                   'of a commit but not another (version vs. tables). unsat => no interleaving of these events at lock granularity '
                   'tears a response. sat => the schedule is REPLAYED with real threads gated at every instrumented event; the '
                   'response body is compared with the reference response computed atomically inside the commit for the MdibVersion '
                   'the response states.',
    'outside': ['interleavings finer than the recorded events (bytecode-level races inside one critical section)',
                'code paths the recorded run did not take (templates are recorded per handler x transaction kind on the 70041 MDIB)',
                'writes to the CONTENT of objects are invisible to the event templates; that state / context-state table objects are '
                'replaced and never modified in place is decided separately by the C07.immutable.* CrossHair obligations; '
                'descriptor objects ARE updated in place, but GetMdib / GetMdDescription serialise them inside the lock',
                'more than 2 writers / 1 reader per obligation'],
}

HANDLERS = ['GetMdib', 'GetMdState', 'GetMdDescription', 'GetContextStates']
KINDS = ['metric', 'context', 'descriptor', 'alert', 'component']
F = ['sdc11073.provider.porttypes.getserviceimpl.GetService._on_get_mdib',
     'sdc11073.provider.porttypes.getserviceimpl.GetService._on_get_md_state',
     'sdc11073.provider.porttypes.getserviceimpl.GetService.mk_get_mddescription_response_message',
     'sdc11073.provider.porttypes.contextserviceimpl.ContextService._on_get_context_states',
     'sdc11073.mdib.mdibbase.MdibBase.reconstruct_mdib', 'sdc11073.mdib.mdibbase.MdibBase.reconstruct_md_description',
     'sdc11073.mdib.providermdib.ProviderMdib._transaction_manager',
     'sdc11073.mdib.transactions.MetricStateTransaction.process_transaction',
     'sdc11073.mdib.transactions.ContextStateTransaction.process_transaction',
     'sdc11073.mdib.transactions.DescriptorTransaction.process_transaction']
STUBS = ['provider = tests.mockstuff.SomeDevice (70041_MDIB_Final.xml) with MockWsDiscovery and the sync component factory; no HTTP '
         'server, no sockets; handlers are called directly with RequestData built by the real MessageFactory/MessageReader',
         'locks replaced by recording wrappers, the MDIB instance class by a recording subclass (reads/writes of mdib_version, table '
         'accesses)', 'the capture is at lock-acquire/release + shared-variable granularity']


IMM = ['metric', 'alert', 'component', 'context_update', 'context_new', 'set_location', 'descriptor_update_implicit_state',
       'descriptor_update_with_state', 'create_child', 'delete_child', 'entity_descriptor_update', 'context_descriptor_update',
       'operational']


def obligations(tier):
    from harness.mdibkit import STUBS as KIT_STUBS
    obs = []
    for i, n in enumerate(IMM):
        obs.append(Ob(f'C07.immutable.{n}', 'harness.C07', 'table_state_objects_immutable', bind={'kind': i},
                      timeout=90 if tier == 'quick' else 600, stubs=KIT_STUBS,
                      functions=['sdc11073.mdib.transactions._TransactionBase._handle_state_updates',
                                 'sdc11073.mdib.transactions.DescriptorTransaction._update_corresponding_state',
                                 'sdc11073.mdib.transactions.DescriptorTransaction.process_transaction',
                                 'sdc11073.mdib.transactions.ContextStateTransaction.disassociate_all'],
                      bounds='1 transaction of this kind; symbolic dv, sv, mv in N, str <= 2; 15-descriptor kit MDIB',
                      claim='every state / context-state object that was in a table before the commit still has exactly its old '
                            'content afterwards (transactions replace table objects, they never modify them in place) - the '
                            'premise under which collecting references inside mdib_lock and serialising them later is a snapshot'))
    kinds = KINDS[:3] if tier == 'quick' else KINDS + ['waveform']
    for h in HANDLERS:
        for kd in kinds:
            for nw in ((1,) if tier == 'quick' else (1, 2)):
                obs.append(Ob(f'C07.{h}.vs.{kd}.w{nw}', 'checks.C07', 'ob_snapshot', kind='py', timeout=240,
                              params={'handler': h, 'kind': kd, 'writers': nw}, functions=F, stubs=STUBS,
                              bounds=f'1 {h} request x {nw} committing {kd} transaction(s); all interleavings of the recorded events',
                              claim='no interleaving lets the response combine data of different MdibVersions / carry a wrong version'))
    # requests that select by handle while a transaction changes the EXISTENCE of the selected descriptor
    for h, sel, kd in (('GetMdDescription', 'touched', 'delete'), ('GetMdDescription', 'created', 'create'),
                       ('GetMdState', 'touched', 'delete'), ('GetMdState', 'created', 'create')):
        obs.append(Ob(f'C07.{h}[{sel}].vs.{kd}.w1', 'checks.C07', 'ob_snapshot', kind='py', timeout=240,
                      params={'handler': h, 'kind': kd, 'writers': 1, 'select': sel}, functions=F, stubs=STUBS,
                      bounds=f'1 {h} request with a HandleRef naming the descriptor that 1 committing descriptor transaction '
                             f'{"removes" if kd == "delete" else "creates"}; all interleavings of the recorded events',
                      claim='the set of entities selected is the one that existed at the MdibVersion the answer states'))
    if tier == 'thorough':
        # requests that select by handle (other code path in the handlers) and writers of two different kinds
        for h in ('GetMdState', 'GetContextStates', 'GetMdDescription'):
            for sel in ('touched', 'mds', 'unknown'):
                for kd in ('metric', 'context', 'descriptor'):
                    obs.append(Ob(f'C07.{h}[{sel}].vs.{kd}.w1', 'checks.C07', 'ob_snapshot', kind='py', timeout=240,
                                  params={'handler': h, 'kind': kd, 'writers': 1, 'select': sel}, functions=F, stubs=STUBS,
                                  bounds=f'1 {h} request with a HandleRef list ({sel}) x 1 committing {kd} transaction',
                                  claim='same, for the handle-selecting code path of the handler'))
        for h in HANDLERS:
            for k1, k2 in (('metric', 'context'), ('descriptor', 'metric'), ('context', 'descriptor'), ('alert', 'component')):
                obs.append(Ob(f'C07.{h}.vs.{k1}+{k2}', 'checks.C07', 'ob_snapshot', kind='py', timeout=240,
                              params={'handler': h, 'kind': k1, 'kind2': k2, 'writers': 2}, functions=F, stubs=STUBS,
                              bounds=f'1 {h} request x 2 committing transactions of different kinds ({k1}, {k2})',
                              claim='same with two concurrent writers of different kinds'))
    return obs


# ---------------------------------------------------------------- machinery (runs inside the obligation subprocess)

def _build():
    import sdc11073.definitions_sdc  # noqa: F401
    from sdc11073.provider.providerimpl import provider_components_sync_factory
    from tests import mockstuff
    from vf import sched
    rec = sched.Recorder()
    dev = mockstuff.SomeDevice.from_mdib_file(mockstuff.MockWsDiscovery('127.0.0.1'), None, '70041_MDIB_Final.xml',
                                              components=provider_components_sync_factory())
    sched.instrument_mdib(rec, dev.mdib)
    return rec, dev


def _mk_req(dev, service, method, handle_refs=()):
    from lxml import etree
    from sdc11073.dispatch.request import RequestData
    from sdc11073.pysoap.msgfactory import CreatedMessage
    from sdc11073.pysoap.soapenvelope import Soap12Envelope
    from sdc11073.xml_types.addressing_types import HeaderInformationBlock
    mdib = dev.mdib
    nsm = mdib.nsmapper
    action = f'{mdib.sdc_definitions.ActionsNamespace}/{service}/{method}'
    env = Soap12Envelope(nsm.partial_map(nsm.S12, nsm.WSA, nsm.MSG))
    env.set_header_info_block(HeaderInformationBlock(action=action, addr_to='123'))
    env.payload_element = etree.Element(nsm.MSG.tag(method))
    for href in handle_refs:
        etree.SubElement(env.payload_element, nsm.MSG.tag('HandleRef')).text = href
    req = RequestData({}, '123', 'foo')
    req.message_data = dev.msg_reader.read_received_message(dev.msg_factory.serialize_message(CreatedMessage(env, dev.msg_factory)))
    return req


CREATED_HANDLE = 'verif_created'


def _handle_refs(dev, select, kind):
    if not select:
        return ()
    mdib = dev.mdib
    pmn = mdib.data_model.pm_names
    if select == 'unknown':
        return ('no-such-handle',)
    if select == 'created':
        return (CREATED_HANDLE,)
    if select == 'mds':
        return (sorted(d.Handle for d in mdib.descriptions.NODETYPE.get(pmn.MdsDescriptor))[0],)
    # the handle the writer of this kind touches
    if kind == 'context':
        return (sorted(d.Handle for d in mdib.descriptions.NODETYPE.get(pmn.LocationContextDescriptor))[0],)
    return (sorted(d.Handle for d in mdib.descriptions.NODETYPE.get(pmn.NumericMetricDescriptor))[0],)


def _reader(dev, handler, select=None, kind=None):
    gs = dev.hosted_services.get_service
    cs = dev.hosted_services.context_service
    refs = _handle_refs(dev, select, kind)
    if handler == 'GetMdib':
        return lambda: gs._on_get_mdib(_mk_req(dev, 'GetService', 'GetMdib'))
    if handler == 'GetMdState':
        return lambda: gs._on_get_md_state(_mk_req(dev, 'GetService', 'GetMdState', refs))
    if handler == 'GetMdDescription':
        return lambda: gs._on_get_md_description(_mk_req(dev, 'GetService', 'GetMdDescription', refs))
    return lambda: cs._on_get_context_states(_mk_req(dev, 'ContextService', 'GetContextStates', refs))


def _writer(dev, kind, marker):
    from sdc11073.location import SdcLocation
    from sdc11073.xml_types import pm_types
    mdib = dev.mdib
    pmn = mdib.data_model.pm_names
    if kind == 'metric':
        handle = sorted(d.Handle for d in mdib.descriptions.NODETYPE.get(pmn.NumericMetricDescriptor))[0]

        def w():
            with mdib.metric_state_transaction() as tr:
                st = tr.get_state(handle)
                if st.MetricValue is None:
                    st.mk_metric_value()
                st.MetricValue.Value = Decimal(1000 + marker)
        return w
    if kind == 'context':
        return lambda: mdib.xtra.set_location(SdcLocation(fac='fac', poc='poc', bed=f'bed{marker}'))
    if kind == 'descriptor':
        handle = sorted(d.Handle for d in mdib.descriptions.NODETYPE.get(pmn.NumericMetricDescriptor))[0]

        def w():
            with mdib.descriptor_transaction() as tr:
                d = tr.get_descriptor(handle)
                d.Unit = pm_types.CodedValue(f'unit{marker}')
        return w
    if kind == 'delete':          # removes the descriptor a '[touched]' request selects: the SET of selected entities changes
        handle = sorted(d.Handle for d in mdib.descriptions.NODETYPE.get(pmn.NumericMetricDescriptor))[0]

        def w():
            with mdib.descriptor_transaction() as tr:
                tr.remove_descriptor(handle)
        return w
    if kind == 'create':          # creates the descriptor a '[created]' request selects
        sibling = mdib.descriptions.handle.get_one(sorted(d.Handle for d in mdib.descriptions.NODETYPE.get(pmn.NumericMetricDescriptor))[0])

        def w():
            from sdc11073.mdib import descriptorcontainers as dc
            nd = dc.NumericMetricDescriptorContainer(CREATED_HANDLE, sibling.parent_handle)
            nd.Unit = pm_types.CodedValue(f'unit{marker}')
            nd.Resolution = Decimal('0.1')
            nd.MetricCategory = pm_types.MetricCategory.MEASUREMENT
            nd.MetricAvailability = pm_types.MetricAvailability.CONTINUOUS
            with mdib.descriptor_transaction() as tr:
                tr.add_descriptor(nd, state_container=mdib.data_model.get_state_class_for_descriptor(nd)(nd))
        return w
    if kind == 'waveform':
        handle = sorted(d.Handle for d in mdib.descriptions.NODETYPE.get(pmn.RealTimeSampleArrayMetricDescriptor))[0]

        def w():
            with mdib.rt_sample_state_transaction() as tr:
                st = tr.get_state(handle)
                if st.MetricValue is None:
                    st.mk_metric_value()
                st.MetricValue.Samples = [Decimal(marker), Decimal(marker + 1)]
                st.MetricValue.DeterminationTime = 1700000000.0 + marker
        return w
    if kind == 'alert':
        handle = sorted(d.Handle for d in mdib.descriptions.NODETYPE.get(pmn.AlertConditionDescriptor))[0]

        def w():
            with mdib.alert_state_transaction() as tr:
                st = tr.get_state(handle)
                st.Presence = (marker % 2 == 1)
                st.Rank = marker
        return w
    handle = sorted(d.Handle for d in mdib.descriptions.NODETYPE.get(pmn.VmdDescriptor))[0]

    def w():
        with mdib.component_state_transaction() as tr:
            st = tr.get_state(handle)
            st.OperatingCycles = 1000 + marker
    return w


def _body(resp):
    from lxml import etree
    import re
    node = resp.p_msg.payload_element
    # the ClockState's DateAndTime is the wall clock at serialisation time, not MDIB content
    return int(node.get('MdibVersion')), re.sub(rb' DateAndTime="[0-9]*"', b'', etree.tostring(node))


def _violation(sched, templates, order, reader='R', version_reads=None):
    """Reader observes writer w partially: a reader read r1 sees a conflicting write w1 of that writer done, while a reader
    read r2 does not (yet) see a conflicting write w2 of the same writer. Conflicts: mdib_version read/write; access to table T
    vs. mutation of table T."""
    rt = templates[reader]

    def var(ev, writer):
        k, w = ev
        if writer:
            return w if k == 'tw' else ('mdib_version' if (k, w) == ('write', 'mdib_version') else None)
        return w if k in ('tr', 'tw') else ('mdib_version' if (k, w) == ('read', 'mdib_version') else None)
    r_ev = [(i, var(ev, False)) for i, ev in enumerate(rt) if var(ev, False)]
    if version_reads is not None:       # only these reads of mdib_version end up in the result (taint analysis of the recording)
        r_ev = [(i, v) for i, v in r_ev if v != 'mdib_version' or i in version_reads]
    clauses = []
    for lab, tpl in templates.items():
        if lab == reader:
            continue
        w_ev = [(i, var(ev, True)) for i, ev in enumerate(tpl) if var(ev, True)]
        for r1, v1 in r_ev:
            for w1, x1 in w_ev:
                if v1 != x1:
                    continue
                for r2, v2 in r_ev:
                    for w2, x2 in w_ev:
                        if v2 != x2 or (r1, w1) == (r2, w2):
                            continue
                        clauses.append(z3and(order[(lab, w1)] < order[(reader, r1)], order[(reader, r2)] < order[(lab, w2)]))
    return clauses


def z3and(*a):
    import z3
    return z3.And(*a)


def ob_snapshot(ctx):
    import z3
    from vf import sched
    p = ctx.params
    t0 = time.time()
    rec, dev = _build()
    mdib = dev.mdib
    reader = _reader(dev, p['handler'], p.get('select'), p['kind'])
    nw = p['writers']
    # --- record templates from the real code (single-threaded)
    templates = {'R': rec.record(reader)}
    for i in range(nw):
        templates[f'W{i}'] = rec.record(_writer(dev, p['kind2'] if (i == 1 and p.get('kind2')) else p['kind'], i + 1))
    sizes = {k: len(v) for k, v in templates.items()}
    s, order = sched.encode(templates)
    queries = 1
    if str(s.check()) != 'sat':
        return {'verdict': 'error', 'reason': 'base constraints unsatisfiable', 'engine': 'sched(z3 Int)'}
    clauses = _violation(sched, templates, order)
    s.add(z3.Or(*clauses) if clauses else z3.BoolVal(False))
    spurious = 0
    sample = {'templates': {k: [f'{a}:{b}' for a, b in v] for k, v in templates.items()}}
    while True:
        r = str(s.check())
        queries += 1
        if r == 'unsat':
            return {'verdict': 'confirmed', 'reach': True, 'queries': queries, 'solver_s': round(time.time() - t0, 2),
                    'engine': 'sched(z3 Int order variables)', 'sample': sample,
                    'detail': f'template sizes {sizes}; {len(clauses)} violation patterns; {spurious} spurious models refuted by replay'}
        if r != 'sat':
            return {'verdict': 'inconclusive', 'reason': 'solver returned ' + r, 'queries': queries}
        model = s.model()
        schedule = sched.schedule_from_model(model, order)
        if p['kind'] in ('delete', 'create'):
            rec, dev = _build()       # the recording already deleted / created the descriptor: replay on a fresh provider
        label, detail = _replay(rec, dev, p, schedule)
        if label != 'ok':
            return {'verdict': 'counterexample', 'label': label, 'replayed': True, 'queries': queries,
                    'witness': {'params': p, 'schedule': [list(x) for x in schedule]}, 'detail': detail,
                    'engine': 'sched(z3 Int order variables)', 'sample': sample}
        spurious += 1
        if spurious >= 12 or time.time() - t0 > ctx.timeout * 0.8:
            return {'verdict': 'inconclusive', 'queries': queries,
                    'reason': f'{spurious} models of the lock-granularity abstraction did not reproduce on the real code; budget exhausted'}
        # block this total order of the violating events and search again
        s.add(z3.Or([order[k] != model[order[k]] for k in order]))


def _replay(rec, dev, p, schedule):
    """Run reader + writers as real threads gated to `schedule`; compare the response with the reference of its version."""
    mdib = dev.mdib
    reader = _reader(dev, p['handler'], p.get('select'), p['kind'])
    refs = {}

    def take_ref():
        lab = rec.label()
        rec.set_label(None)               # the nested reference call is not part of the schedule
        try:
            v, body = _body(reader())
            refs[v] = body
        finally:
            rec.set_label(lab)
    take_ref()
    mdib.post_commit_handler = lambda _m, _t: take_ref()     # runs inside the commit, under both locks
    acts = {'R': reader}
    base = max(refs) if refs else 0
    for i in range(p['writers']):
        acts[f'W{i}'] = _writer(dev, p['kind2'] if (i == 1 and p.get('kind2')) else p['kind'], 100 + base + i)
    rec.start_replay(schedule)
    results, errors = rec.run_threads(acts)
    mdib.post_commit_handler = None
    if rec.failed or errors or 'R' not in results:
        return 'ok', f'replay could not follow the schedule ({rec.failed or errors})'     # treated as spurious
    v, body = _body(results['R'])
    if v not in refs:
        return 'response-version-never-committed', f'response states MdibVersion {v}, committed versions {sorted(refs)}'
    if body != refs[v]:
        return f'response-differs-from-mdib-at-stated-version:{p["handler"]}', \
            f'{p["handler"]} response labelled MdibVersion {v} differs from the MDIB content at version {v} (schedule {schedule})'
    return 'ok', ''


def replay(ctx):
    w = ctx.params['witness']
    rec, dev = _build()
    label, detail = _replay(rec, dev, w['params'], [tuple(x) for x in w['schedule']])
    return {'verdict': 'counterexample' if label != 'ok' else 'confirmed', 'label': label, 'detail': detail}


MANIFEST_ENTRY = {
    'engine': 'sched+crosshair',
    'technique': 'predictive trace analysis: event templates recorded from the real handlers/transactions + SMT (z3) over all their '
                 'interleavings at lock granularity; sat schedules replayed with gated real threads; plus CrossHair obligations that committed state objects are never modified in place',
    'text': 'For every Get handler x transaction kind the solver shows that no interleaving of the recorded lock/variable events lets a '
            'response mix two MdibVersions (unsat), or produces a schedule that is replayed on the real provider.',
    'note': 'Covers re-orderings of the recorded events only (one code path per handler/transaction kind, 70041 test MDIB), at '
            'lock-acquire/release + shared-variable granularity; 1 reader x <= 2 writers.',
}

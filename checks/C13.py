from vf.main import Ob

META = {
    'explanation': 'Totality of the pure-Python request path. (1) HTTPReader._read_until/_read_dechunk/read_request_body/'
                   'read_response_body run over a pure-Python stream: symbolic bytes (every byte string up to the stated length), '
                   'structure-aware mutations of valid chunked messages (size field, extension, terminators, data length, tail, '
                   'missing last chunk, truncation at every offset) and the cross product of valid/sloppy/junk framing headers; an '
                   'endless read loop at end-of-data is turned into a `spin:` label by the stream. (2) The real '
                   'DispatchingRequestHandler.do_POST/do_GET (socket side replaced by a recorder) with the real PathElementRegistry, '
                   'MessageConverterMiddleware, RequestData and RequestDispatcher/DispatchKeyRegistryDeferred; the XML reader/factory '
                   'and the registered handlers are outcome selectors. Asserted: every call ends, exactly one status line 200/4xx/5xx '
                   'is produced and the headers are terminated, no exception leaves do_POST/do_GET/do_post/do_get, an error answer '
                   'from the middleware is built from a Fault, and a request rejected before dispatch reaches no registered '
                   'handler (handlers are the only holders of the MDIB and the subscription table).',
    'outside': ['XML well-formedness and schema validation: decided inside libxml2 (C). Entity expansion / external fetches are decided '
                'by running the real reader + libxml2 on selector-composed DOCTYPE documents (C13.xml.entities): a pool of 6 DOCTYPE '
                'kinds x 3 reference places, not arbitrary documents',
                'MDIB / subscription-table snapshots of a real provider (needs lxml); replaced by "no registered handler is reached"',
                'socket-level blocking (a peer that keeps the connection open without sending; negative Content-Length reads to EOF)',
                'short reads: rfile is a BufferedReader (read(n) returns fewer than n bytes only at end of data)',
                'chunk header lines longer than 16 bytes (long chunk extensions / trailers are refused by design of _read_until)',
                'HTTP-level rejections (404 unknown path, 500 no dispatcher) carry an empty / plain-text body instead of a SOAP fault: '
                'accepted as an answer with a status',
                'handlers raising HTTPRequestHandlingError without a Fault, GET handlers returning str (API misuse; no such '
                'caller in the library)',
                'request targets beyond the stated token alphabet / pools; byte strings longer than the stated bound that are not a '
                'mutation of a valid chunked message'],
}

READER = ['sdc11073.httpserver.httpreader.HTTPReader._read_dechunk', 'sdc11073.httpserver.httpreader.HTTPReader._read_until']
BODY = READER + ['sdc11073.httpserver.httpreader.HTTPReader.read_request_body',
                 'sdc11073.httpserver.httpreader.HTTPReader.read_response_body',
                 'sdc11073.httpserver.compression.CompressionHandler.decompress_payload',
                 'sdc11073.httpserver.compression.CompressionHandler.get_handler']
MIDDLE = ['sdc11073.dispatch.messageconverter.MessageConverterMiddleware.do_post',
          'sdc11073.dispatch.messageconverter.MessageConverterMiddleware.do_get',
          'sdc11073.dispatch.request.RequestData.__init__', 'sdc11073.dispatch.request.RequestData.consume_current_path_element',
          'sdc11073.dispatch.dispatchkey.RequestDispatcher.on_post', 'sdc11073.dispatch.dispatchkey.RequestDispatcher.on_get',
          'sdc11073.dispatch.dispatchkey.RequestDispatcher._get_post_handler',
          'sdc11073.consumer.request_handler_deferred.DispatchKeyRegistryDeferred.on_post']
HANDLER = MIDDLE + BODY + ['sdc11073.httpserver.httprequesthandler.DispatchingRequestHandler.do_POST',
                           'sdc11073.httpserver.httprequesthandler.DispatchingRequestHandler.do_GET',
                           'sdc11073.httpserver.httprequesthandler.DispatchingRequestHandler.get_first_path_element',
                           'sdc11073.httpserver.httprequesthandler.DispatchingRequestHandler._read_request',
                           'sdc11073.httpserver.httprequesthandler.DispatchingRequestHandler._compress_if_supported',
                           'sdc11073.httpserver.httpreader.mk_chunks',
                           'sdc11073.dispatch.pathelementregistry.PathElementRegistry.get_instance']

S_STREAM = ('FakeStream: rfile/response body = read(n) over a bytes object, b"" at end of data (peer closed), never a short read '
            'before that; raises SpinDetected on the 9th read at end of data (spin detector)')
S_HDR = 'CIHeaders: case-insensitive header lookup standing in for email.message.Message'
S_XML = ('StubReader/StubFactory: MessageReader.read_received_message outcome by selector {message, ValidationError(with Fault), '
         'arbitrary Exception}; MessageFactory builds a tagged message and dereferences the payload/request like the real one')
S_SVC = ('Service: registered POST/GET handlers with outcome by selector {response, HTTPRequestHandlingError(with Fault), '
         'RuntimeError, None}; DispatchKeyRegistryDeferred built without its worker thread')
S_SOCK = ('RecHandler: real DispatchingRequestHandler with send_response/send_header/end_headers/wfile/connection replaced by '
          'recorders; self.path as BaseHTTPRequestHandler.parse_request can deliver it (non-empty, no whitespace, no leading "//")')
S_CODEC = 'real zlib/lz4 codecs on a pool of concrete bodies only (intact, truncated); their own rejection (zlib.error/RuntimeError) is allowed'

KINDS = ('none', 'size-field', 'extension', 'header-end', 'data-length', 'data-end', 'tail', 'drop-last-chunk', 'truncate')
FOCUS = ((0, 'nospin'), (1, 'raises'))
TCLASS = ('registered', 'unregistered', 'no-path', 'bad-authority')


def obligations(tier):
    q = tier == 'quick'
    t = 90 if q else 600
    obs = []

    # ---- reader: arbitrary bytes (3 bytes is the longest CrossHair exhausts: int(bytes, 16) concretises the size field)
    for f, fname in FOCUS:
        obs.append(Ob(f'C13.dechunk.bytes3.{fname}', 'harness.C13', 'dechunk_bytes', bind={'maxlen': 3, 'focus': f}, timeout=t,
                      twin=(f == 0), functions=READER, stubs=[S_STREAM],
                      bounds='every byte string of length <= 3 as chunked body (symbolic bytes)',
                      claim='_read_dechunk never reads a drained stream forever' if f == 0 else
                      '_read_dechunk returns bytes or raises DechunkError, no other exception'))
    if not q:
        for t0 in range(9):
            obs.append(Ob(f'C13.dechunk.tokens.t{t0}', 'harness.C13', 'dechunk_tokens', bind={'t0': t0, 'focus': 2}, timeout=t,
                          twin=(t0 == 4), functions=READER, stubs=[S_STREAM],
                          bounds='byte strings of <= 5 tokens from ("", CRLF, CR, LF, "0", "1", ";", "-", "x"), first token fixed',
                          claim='_read_dechunk terminates with bytes or DechunkError'))
    n = 6 if q else 9
    obs.append(Ob(f'C13.read_until.bytes{n}', 'harness.C13', 'read_until_bytes', bind={'maxlen': n}, timeout=t, functions=READER[1:],
                  stubs=[S_STREAM], bounds=f'every byte string of length <= {n} (symbolic bytes)',
                  claim='_read_until returns exactly the prefix before the first CRLF (consuming it) or None; terminates'))

    # ---- reader: structure-aware mutations (quick: all mutation kinds in one process per failure mode; thorough: one per kind,
    #      each mutation additionally combined with a truncation of 0..11 bytes)
    nshape = 9 if q else 13
    for k, kname in ([(None, 'all')] if q else list(enumerate(KINDS))):
        for f, fname in FOCUS:
            bind = {'focus': f, 'nshape': nshape, 'combo': not q and k != 8}
            if k is not None:
                bind['kind'] = k
            obs.append(Ob('C13.dechunk.mut.' + (f'{kname}.' if k is not None else '') + fname, 'harness.C13', 'dechunk_mutated', bind=bind,
                          timeout=t, twin=(f == 0), functions=READER, stubs=[S_STREAM],
                          bounds=f'valid chunked message with {nshape} shapes of <= {2 if q else 3} data chunks (sizes 1..17) + last '
                                 'chunk; ' + ('one mutation of any kind (' + ', '.join(KINDS[1:]) + ')' if k is None else f'one "{kname}" mutation')
                                 + ' at any chunk with every variant of that kind; truncation at every offset'
                                 + ('' if (q or k == 8) else '; additionally cut 0..11 bytes from the end'),
                          claim='no endless read loop' if f == 0 else 'only DechunkError leaves _read_dechunk'))

    # ---- reader: header cross product
    for f, fname in FOCUS:
        obs.append(Ob(f'C13.request_body.framing.{fname}', 'harness.C13', 'request_body', bind={'ce': 0, 'se': 0, 'pool': 0, 'focus': f},
                      timeout=t, twin=(f == 0), functions=BODY, stubs=[S_STREAM, S_HDR],
                      bounds='8 transfer-encoding x 13 content-length values (absent, valid, sloppy, junk) x 11 body streams (plain, '
                             'chunked, malformed and truncated chunked)',
                      claim='read_request_body terminates' if f == 0 else
                      'read_request_body returns bytes/None or raises one of the exceptions defined by httpreader'))
    for func in ('request_body', 'response_body'):
        for te, cl, pool, nm in ((0, 4, 1, 'content-length'), (1, 0, 2, 'chunked'), (0, 0, 1, 'unframed')):
            obs.append(Ob(f'C13.{func}.coding.{nm}', 'harness.C13', func, bind={'te': te, 'cl': cl, 'pool': pool, 'focus': 2}, timeout=t,
                          twin=(nm == 'content-length'), functions=BODY, stubs=[S_STREAM, S_HDR, S_CODEC],
                          bounds=f'{nm} framing; 8 content-encoding values x 4 supported_encodings arguments x '
                                 f'{"4 well-formed chunked" if pool == 2 else "5 unframed"} body streams (plain, gzip, truncated gzip)',
                          claim=f'{func} returns or raises an exception defined by httpreader (or the codec refuses corrupt data)'))
    obs.append(Ob('C13.response_body.framing', 'harness.C13', 'response_body', bind={'ce': 0, 'se': 0, 'pool': 0, 'focus': 2}, timeout=t,
                  functions=BODY, stubs=[S_STREAM, S_HDR],
                  bounds='8 transfer-encoding x 13 content-length values x 11 body streams',
                  claim='read_response_body terminates and returns bytes (or raises an exception defined by httpreader)'))

    # ---- middleware alone
    obs.append(Ob('C13.xml.entities', 'harness.C13', 'xml_entities', timeout=t,
                  functions=['sdc11073.pysoap.msgreader.MessageReader.read_received_message',
                             'sdc11073.pysoap.msgreader.MessageReader.read_xml_text', 'sdc11073.pysoap.msgreader.MessageReader.read_wsdl'],
                  stubs=['real MessageReader (SdcV1Definitions, with and without schema validation) and real lxml / libxml2, run with '
                         'interpreter semantics on documents composed from symbolic selectors; external entities point to local '
                         'files created by the harness'],
                  bounds='4 parse sites x 6 DOCTYPE kinds (internal entity, nested internal entities x64, external SYSTEM entity, '
                         'external parameter entity, no reference, external DTD subset) x reference in element text / attribute value '
                         '/ body of a GetMdib request',
                  claim='the document is refused, or nothing in the tree / addressing header handed on contains the replacement text '
                        '(no expansion) or the content of the referenced file (no fetch)'))
    obs.append(Ob('C13.middleware.post', 'harness.C13', 'middleware_post', timeout=t, functions=MIDDLE, stubs=[S_XML, S_SVC, S_HDR],
                  bounds='3 reader outcomes x action (un)registered x 4 handler outcomes x sync/deferred dispatcher x 4 paths',
                  claim='do_post never raises; (200, proper response) iff read, registered and handled, else 4xx/5xx with a fault built '
                        'from a Fault; rejected before dispatch => no handler reached'))
    obs.append(Ob('C13.middleware.post.second_level', 'harness.C13', 'middleware_post_second_level', timeout=t,
                  functions=MIDDLE + ['sdc11073.provider.providerimpl._PathElementDispatcher.on_post',
                                      'sdc11073.dispatch.pathelementregistry.PathElementRegistry.get_instance'],
                  stubs=[S_XML + '; the factory stub hands every fault reason text to real lxml, which refuses what XML cannot hold',
                         S_SVC, S_HDR],
                  bounds='12 second path elements (registered, unknown, empty, C0/C1 control characters, DEL, 0xff, markup) x 3 tails '
                         'x sync/deferred dispatcher',
                  claim='do_post never raises; 200 iff the element is registered, else 4xx/5xx with a fault built; the reason is '
                        'one short latin-1 line'))
    obs.append(Ob('C13.post.component_raises', 'harness.C13', 'handler_component_raises', timeout=t, functions=HANDLER,
                  stubs=[S_STREAM, S_HDR, S_SOCK, 'registered component = stub raising the chosen exception'],
                  bounds='8 exception messages (empty, multi-line, CRLF + header text, 5000 chars, non-latin-1, NUL, a traceback) x 5 '
                         'exception types x 3 Accept-Encoding x 3 chunk sizes',
                  claim='one 5xx status line that is a single line of <= 200 characters, headers terminated, body framed as '
                        'announced; no exception leaves do_POST'))
    obs.append(Ob('C13.middleware.get', 'harness.C13', 'middleware_get', timeout=t, functions=MIDDLE, stubs=[S_XML, S_SVC, S_HDR],
                  bounds='2 handler outcomes x 8 paths', claim='do_get never raises; 200 iff a handler is registered for the '
                  'sub-path and returned, else 5xx; unknown sub-path reaches no handler'))
    obs.append(Ob('C13.request_data.paths', 'harness.C13', 'request_data_paths', timeout=t,
                  functions=MIDDLE[2:4], stubs=[S_HDR], bounds='paths of <= 4 tokens from {"", "/", "k", "Get", "?"}',
                  claim='consumed + remaining path elements always re-join to the path; consume/current never raise'))

    # ---- handler end to end
    fixed = {'mr': 0, 'act': True, 'ho': 0, 'deferred': False, 'ae': 0, 'chunk': 0}
    hstubs = [S_STREAM, S_HDR, S_XML, S_SVC, S_SOCK, S_CODEC]
    obs.append(Ob('C13.post.framing', 'harness.C13', 'handler_post', bind=dict(fixed, tclass=0, target=0, has_disp=True), timeout=t,
                  functions=HANDLER, stubs=hstubs,
                  bounds='8 request framings: content-length, chunked, malformed chunk header (DechunkError), unsupported '
                         'content-encoding (DecompressError), no body, corrupt gzip, non-numeric and negative Content-Length in front of '
                         'a body that is itself a complete request',
                  claim='do_POST answers every framing with a status line; a body the reader rejects does not become an exception '
                        'leaving do_POST; the component is not reached; bytes of the request that were not read are never left on a '
                        'connection that stays open (they would be served as the next request)'))
    for c, cname in enumerate(TCLASS):
        obs.append(Ob(f'C13.post.target.{cname}', 'harness.C13', 'handler_post', bind=dict(fixed, rs=0, tclass=c, has_disp=True),
                      timeout=t, twin=(c < 2), functions=HANDLER, stubs=hstubs, bounds=f'pool of request targets of class "{cname}"',
                      claim='do_POST answers with a status line, no exception leaves it; 200 only via the registered component'))
        obs.append(Ob(f'C13.get.target.{cname}', 'harness.C13', 'handler_get', bind={'tclass': c, 'has_disp': True, 'go': 0, 'ae': 0, 'chunk': 0},
                      timeout=t, twin=(c < 2), functions=HANDLER, stubs=hstubs, bounds=f'pool of request targets of class "{cname}"',
                      claim='do_GET answers with a status line, no exception leaves it'))
    obs.append(Ob('C13.post.no-dispatcher', 'harness.C13', 'handler_post', bind=dict(fixed, rs=0, has_disp=False), timeout=t,
                  functions=HANDLER, stubs=hstubs, bounds='server closing (dispatcher None) x all 4 target classes',
                  claim='do_POST answers 5xx with terminated headers'))
    obs.append(Ob('C13.get.no-dispatcher', 'harness.C13', 'handler_get', bind={'has_disp': False, 'go': 0, 'ae': 0, 'chunk': 0}, timeout=t,
                  functions=HANDLER, stubs=hstubs, bounds='server closing (dispatcher None) x all 4 target classes',
                  claim='do_GET answers 4xx/5xx with terminated headers'))
    for rs, nm in ((0, 'content-length'), (1, 'chunked')):
        obs.append(Ob(f'C13.post.dispatch.{nm}', 'harness.C13', 'handler_post', bind={'rs': rs, 'tclass': 0, 'target': 0, 'has_disp': True},
                      timeout=t, functions=HANDLER, stubs=hstubs,
                      bounds='3 reader outcomes x action (un)registered x 4 handler outcomes x sync/deferred x 3 Accept-Encoding x '
                             '3 response chunk sizes',
                      claim='exactly one status line 200/4xx/5xx, headers terminated, body framed as announced; 200 iff dispatched '
                            'once; rejected => no handler reached'))
    obs.append(Ob('C13.get.dispatch', 'harness.C13', 'handler_get', bind={'tclass': 0, 'has_disp': True}, timeout=t,
                  functions=HANDLER, stubs=hstubs, bounds='8 registered-class targets x 2 handler outcomes x 3 Accept-Encoding x 3 chunk sizes',
                  claim='exactly one status line, headers terminated, body framed as announced'))
    ntok = 7 if q else 11
    for m, mname in enumerate(('POST', 'GET')):
        obs.append(Ob(f'C13.target.tokens.{mname}', 'harness.C13', 'handler_target', bind={'method': m, 'ntok': ntok},
                      timeout=t if q else 900, functions=HANDLER, stubs=hstubs,
                      bounds=f'request targets composed of <= 4 tokens from the first {ntok} of ("", "/", "k", "z", "?", "#", ":", '
                             '"wsdl", "http://h", "[", "*")',
                      claim=f'do_{mname} always produces a status line and lets no exception escape'))
    return obs


MANIFEST_ENTRY = {
    'engine': 'crosshair',
    'technique': 'bounded symbolic execution (CrossHair/z3) of the real HTTP reader on symbolic bytes and on selector-built '
                 'mutations of valid chunked messages (spin detector in the stream stub); exhaustive path exploration of the real '
                 'request handler, path registry, middleware and dispatcher over selector-chosen targets, framings and stubbed '
                 'reader/handler outcomes; entity handling: the real MessageReader + libxml2 on selector-composed DOCTYPE documents',
    'text': 'For every byte string up to 3 bytes (thorough: also every string of <= 5 framing tokens) and every single-point mutation/truncation of small valid chunked '
            'messages, _read_dechunk terminates with bytes or DechunkError; for the cross product of framing headers the body '
            'readers terminate with bytes or a documented rejection; for every request target of <= 4 tokens and every '
            'combination of reader/dispatcher/handler outcome do_POST/do_GET produce exactly one status line and let no exception '
            'escape, and a rejected request reaches no registered handler; a document with a DOCTYPE (6 kinds x 3 reference places x '
            '4 parse sites) is refused or handed on without replacement text / fetched content.',
    'note': 'Trusted: CrossHair/z3 path exhaustion; the stream, header, XML and socket stubs listed per obligation. XML '
            'well-formedness and schema validation are libxml2 and outside; entities are decided on a document pool only; MDIB/subscription immutability is claimed only through '
            '"no handler reached".',
}

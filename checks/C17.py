from vf.main import Ob

META = {
    'explanation': 'Framing: mk_chunks is run on a body with SYMBOLIC content (length and chunk size fixed per case: every chunk '
                   'size from 1 to length+1, and 512), its output is parsed by an independent strict HTTP/1.1 chunk recogniser '
                   '(sizes, CRLFs, last chunk, nothing behind it) and fed to the real _read_dechunk: the decoded bytes equal the '
                   'body for every content. _read_dechunk is compared with an independent tolerant reference parser on single-point '
                   'mutations / truncations of valid messages. Negotiation: CompressionHandler.parse_header, '
                   'DispatchingRequestHandler._compress_if_supported, SoapClient._send_soap_request, '
                   'SoapClientAsync.async_post_message_to and the provider notification chain (Accept-Encoding of Subscribe -> '
                   'parse_header -> request_encodings -> Content-Encoding) are run on headers composed by selectors from coding names '
                   'and valid/sloppy weights and compared with an independent RFC 9110 reference: the coding used was declared with '
                   'q > 0, is enabled locally and no enabled coding has a higher weight. Each encode path is followed by the real '
                   'decode path (read_request_body / read_response_body) on concrete payloads.',
    'outside': ['losslessness of gzip / lz4 themselves and their detection of corrupt data: zlib and lz4 are C libraries; they run '
                'only on concrete payloads here (one 290-byte payload with all byte values; truncation and one flipped byte)',
                'multi-megabyte bodies and arbitrary chunk sizes: bodies of 0..4 (quick) / 0..8 (thorough) bytes with SYMBOLIC content are '
                'decided for the chunk sizes 1..len+1 and 512 (a symbolic chunk size is concretised by slicing, CrossHair cannot '
                'exhaust it); that every chunk size > len behaves like len+1 and that the arithmetic is size independent are '
                'arguments, not solver results',
                'chunk extensions and trailers on the receiving side (header lines are limited to 16 bytes by _read_until)',
                'wildcard "*" and "identity" semantics (the library never uses a coding that is not named explicitly: conservative)',
                'Accept-Encoding headers listing the same coding twice with different weights: any non-zero entry counts as acceptable',
                'weights that are not numbers, parameters other than q',
                'tolerant size fields accepted by _read_dechunk ("+1", "0x1", "1_0", surrounding blanks): lenient reading of a '
                'peer\'s framing is not a misinterpretation of the payload'],
}

CHUNK = ['sdc11073.httpserver.httpreader.mk_chunks', 'sdc11073.httpserver.httpreader.HTTPReader._read_dechunk',
         'sdc11073.httpserver.httpreader.HTTPReader._read_until']
PARSE = ['sdc11073.httpserver.compression.CompressionHandler.parse_header']
CODEC = ['sdc11073.httpserver.compression.CompressionHandler.compress_payload',
         'sdc11073.httpserver.compression.CompressionHandler.decompress_payload',
         'sdc11073.httpserver.compression.CompressionHandler.get_handler']
BODY = ['sdc11073.httpserver.httpreader.HTTPReader.read_request_body', 'sdc11073.httpserver.httpreader.HTTPReader.read_response_body']
SERVER = PARSE + CODEC + ['sdc11073.httpserver.httprequesthandler.DispatchingRequestHandler._compress_if_supported']
CLIENT = CODEC + CHUNK + BODY + ['sdc11073.pysoap.soapclient.SoapClient.__init__', 'sdc11073.pysoap.soapclient.SoapClient._send_soap_request',
                                 'sdc11073.pysoap.soapclient_async.SoapClientAsync.__init__',
                                 'sdc11073.pysoap.soapclient_async.SoapClientAsync.async_post_message_to']

S_STREAM = ('FakeStream: read(n) over a bytes object, b"" at end of data, never a short read before that; SpinDetected on the 9th '
            'read at end of data')
S_BIO = 'PyBytesIO: list-backed write/getvalue planted as httpreader.BytesIO (io.BytesIO is C)'
S_HDR = 'CIHeaders: case-insensitive header lookup standing in for email.message.Message / HTTPResponse.getheader'
S_SOCK = 'RecHandler: real DispatchingRequestHandler with send_response/send_header/end_headers/wfile replaced by recorders'
S_CONN = ('FakeConn / FakeSession: http.client.HTTPConnection / aiohttp.ClientSession stand-ins that record the request and answer '
          '200; the clients are built by their real __init__')
S_CODEC = 'real zlib / lz4 on one concrete payload (290 bytes, all byte values)'
S_REF = ('reference parsers in harness/httpstubs.py, harness/C17.py: strict chunk recogniser, tolerant de-chunker, RFC 9110 '
         'Accept-Encoding reader (independent code, part of the claim)')
S_XML = 'StubReader/StubFactory/Service: XML layer and registered handler replaced by fixed successful outcomes'

KINDS = ('none', 'size-field', 'extension', 'header-end', 'data-length', 'data-end', 'tail', 'drop-last-chunk', 'truncate')


def obligations(tier):
    q = tier == 'quick'
    t = 90 if q else 600
    obs = []
    nmax = 4 if q else 8
    for n in range(nmax + 1):
        for cs in list(range(1, n + 2)) + [512]:
            obs.append(Ob(f'C17.chunks.roundtrip.n{n}.cs{cs}', 'harness.C17', 'chunks_roundtrip', bind={'n': n, 'cs': cs, 'lo': 1},
                          timeout=t, twin=(cs == 1 and n in (0, nmax)), functions=CHUNK, stubs=[S_STREAM, S_BIO, S_REF],
                          bounds=f'body of {n} symbolic bytes, chunk size {cs}',
                          claim='mk_chunks output is valid chunked framing cutting the body into chunk-size pieces; _read_dechunk '
                                'returns the body and consumes the message exactly'))

    nshape = 9 if q else 13
    for k, kname in ([(None, 'all')] if q else list(enumerate(KINDS))):
        bind = {'nshape': nshape, 'combo': not q and k != 8}
        if k is not None:
            bind['kind'] = k
        obs.append(Ob('C17.dechunk.agrees' + (f'.{kname}' if k is not None else ''), 'harness.C17', 'dechunk_agrees', bind=bind, timeout=t,
                      twin=(k in (None, 0, 1, 8)), functions=CHUNK[1:], stubs=[S_STREAM, S_REF],
                      bounds=f'valid chunked message ({nshape} shapes, <= {2 if q else 3} data chunks of 1..17 bytes) with '
                             + ('one mutation of any kind' if k is None else f'one "{kname}" mutation') + ', every variant; truncation '
                             'at every offset' + ('' if (q or k == 8) else '; additionally cut 0..11 bytes from the end'),
                      claim='_read_dechunk returns a body iff the tolerant reference does, with the same payload and the same number '
                            'of bytes consumed; every strictly valid message is accepted'))

    # ---- Accept-Encoding parsing
    obs.append(Ob('C17.parse_header.one', 'harness.C17', 'parse_header_items', bind={'count': 1, 'nn': 6, 'nw': 11, 'sep': 0},
                  timeout=t, functions=PARSE, stubs=[S_REF], bounds='1 coding: 6 names x 11 weight spellings',
                  claim='no coding with weight 0 is returned; a coding with non-zero weight is returned'))
    nn2, nw2 = (4, 6) if q else (6, 11)
    for sep in ([None] if q else range(3)):
        bind = {'count': 2, 'nn': nn2, 'nw': nw2}
        if sep is not None:
            bind['sep'] = sep
        obs.append(Ob('C17.parse_header.two' + ('' if sep is None else f'.sep{sep}'), 'harness.C17', 'parse_header_items', bind=bind,
                      timeout=t, twin=(sep in (None, 0)), functions=PARSE, stubs=[S_REF],
                      bounds=f'2 codings: {nn2} names x {nw2} weight spellings each, ' + ('3 separators' if sep is None else f'separator {sep}'),
                      claim='as above, and the result is ordered by descending weight'))
    nn3, nw3 = (3, 4) if q else (4, 6)
    for n0 in ([None] if q else range(nn3)):
        bind = {'count': 3, 'nn': nn3, 'nw': nw3, 'sep': 1}
        if n0 is not None:
            bind['n0'] = n0
        obs.append(Ob('C17.parse_header.three' + ('' if n0 is None else f'.first{n0}'), 'harness.C17', 'parse_header_items', bind=bind,
                      timeout=t, twin=(n0 in (None, 0)), functions=PARSE, stubs=[S_REF],
                      bounds=f'3 codings: {nn3} names x {nw3} weights each' + ('' if n0 is None else f', first name fixed ({n0})'),
                      claim='as above'))
    # ---- negotiation
    nn, nw = (4, 4) if q else (6, 11)
    hdr = f'Accept-Encoding absent or 1..2 codings ({nn} names x {nw} weight spellings)'
    for sup in ([None] if q else range(5)):
        sfx = '' if sup is None else f'.sup{sup}'
        case = 'any of' if sup is None else f'case {sup} of'
        bind = {'nn': nn, 'nw': nw, 'sep': 1}
        if sup is not None:
            bind['sup'] = sup
        obs.append(Ob('C17.negotiate.server' + sfx, 'harness.C17', 'negotiate_server', bind=bind, timeout=t, twin=(sup in (None, 1)),
                      functions=SERVER, stubs=[S_HDR, S_SOCK, S_CODEC, S_REF],
                      bounds=f'{hdr}; server.supported_encodings = {case} ((), gzip, lz4s, all, (lz4, gzip))',
                      claim='Content-Encoding sent at most once, names a coding declared with q > 0 and enabled on the server with no '
                            'enabled coding of higher weight; body is in that coding; otherwise body unchanged'))
        obs.append(Ob('C17.negotiate.notify' + sfx, 'harness.C17', 'negotiate_notify', bind=dict(bind, sep=0, chunk=0 if q else 2),
                      timeout=t, twin=(sup in (None, 2)), functions=PARSE + CLIENT, stubs=[S_CONN, S_STREAM, S_HDR, S_CODEC, S_REF],
                      bounds=f'{hdr} sent by the subscriber; client supported_encodings = {case} (None, (), gzip, lz4s, (lz4, gzip))',
                      claim='a notification is only coded with a coding the subscriber declared with q > 0 and that is enabled '
                            'locally; the subscriber\'s reader recovers the payload'))
    obs.append(Ob('C17.codec.concatenation', 'harness.C17', 'codec_concatenation', timeout=t,
                  functions=['sdc11073.httpserver.compression.GzipCompressionHandler.decompress_payload',
                             'sdc11073.httpserver.compression.Lz4CompressionHandler.decompress_payload'],
                  stubs=['the codecs themselves (zlib, lz4) are C code and run concretely; the solver chooses the selectors'],
                  bounds='gzip / x-lz4 x (two members, unit + garbage, unit + truncated unit, one unit) x payload sizes from {0, 1, 300}',
                  claim='several members decode to the concatenation of their payloads; trailing garbage / a truncated member is '
                        'rejected, never silently dropped'))
    obs.append(Ob('C17.negotiate.client', 'harness.C17', 'negotiate_client', timeout=t, functions=CLIENT,
                  stubs=[S_CONN, S_STREAM, S_HDR, S_CODEC, S_REF],
                  bounds='sync and async client x 8 request_encodings lists (incl. unknown names, None) x 5 supported_encodings x '
                         '4 chunk sizes',
                  claim='request coded with the first peer-accepted coding that is enabled locally, else plain; Accept-Encoding = '
                        'enabled codings; Content-Length xor valid chunked framing; read_request_body recovers the payload'))

    # ---- coded bodies
    for resp, nm in ((False, 'request'), (True, 'response')):
        obs.append(Ob(f'C17.coded_body.{nm}', 'harness.C17', 'coded_body', bind={'response': resp}, timeout=t, functions=BODY + CODEC + CHUNK,
                      stubs=[S_STREAM, S_HDR, S_BIO, S_CODEC],
                      bounds='3 registered codings + none + 9 unsupported/misspelled names x 5 supported_encodings arguments x '
                             'framings (content-length, chunked' + (', close-delimited' if resp else '') + ') x intact/truncated/bit-flipped',
                      claim='intact body in a supported coding -> original bytes; unsupported coding -> exception; what is '
                            'returned always equals the original bytes'))
    obs.append(Ob('C17.response.roundtrip', 'harness.C17', 'response_roundtrip', timeout=t, functions=SERVER + CHUNK + BODY,
                  stubs=[S_STREAM, S_HDR, S_SOCK, S_XML, S_CODEC, S_REF],
                  bounds='POST and GET x 4 Accept-Encoding headers x 5 supported_encodings x 4 chunk sizes',
                  claim='the response written by do_POST/do_GET is valid framing, its coding was acceptable, and read_response_body '
                        'recovers the response bytes'))
    obs.append(Ob('C17.response.keepalive', 'harness.C17', 'keepalive_negotiation', timeout=t, functions=SERVER + CHUNK + BODY,
                  stubs=[S_STREAM, S_HDR, S_SOCK, S_XML, S_CODEC, S_REF],
                  bounds='2 requests on ONE handler instance (keep-alive connection): POST/GET x 6 Accept-Encoding headers each '
                         '(none, gzip, gzip;q=0, identity, weighted list, unknown) x 5 supported_encodings x 4 chunk sizes',
                  claim='the coding of each response is acceptable to ITS request (nothing is carried over from the previous '
                        'request of the connection) and the reader recovers the bytes'))
    return obs


MANIFEST_ENTRY = {
    'engine': 'crosshair',
    'technique': 'bounded symbolic execution (CrossHair/z3) of mk_chunks -> _read_dechunk with symbolic body content and an independent '
                 'chunk-grammar recogniser; exhaustive path exploration of Accept-Encoding parsing and coding choice (server, client, '
                 'notification chain) on selector-composed headers against an independent RFC 9110 reference',
    'text': 'For every body content of 0..4 (thorough 0..8) bytes and every chunk size 1..len+1 and 512 the chunked encoding is valid HTTP/1.1 and '
            'decodes to the body; for every Accept-Encoding header of <= 2 (parse: <= 3) codings with valid or sloppy weights the '
            'coding sent was declared with q > 0, is enabled locally and has maximal weight; unsupported codings are rejected.',
    'note': 'Trusted: CrossHair/z3 path exhaustion, the reference parsers and the stream/connection stubs listed per obligation. '
            'gzip/lz4 losslessness and corrupt-data detection are C code: exercised on concrete payloads only, not decided.',
}

from vf.main import Ob

META = {
    'explanation': 'MultiKeyLookup (the table behind every MDIB lookup and the subscription table) with one unique index, one '
                   'grouping index (index_none_values=False) and one 1:n index over 3 objects whose keys are picked by symbolic '
                   'selectors from pools of distinct keys. CrossHair explores every path of the real add/update/remove/clear code; '
                   'after each operation every index dict is compared with a grouping recomputed by linear scan.',
    'outside': ['histories longer than the stated number of operations (the one-step obligation starts from an arbitrary table '
                'content built by real add_object calls, so induction over histories is an argument, not a solver result)',
                'changing a unique key to a value already in use followed by update_object (precondition of update)',
                'unhashable keys / keys whose hash changes', 'real container tables only for the listed transaction kinds (C11.mdib.*, shared harness with C01)'],
}
F = ['sdc11073.multikey.MultiKeyLookup.add_object', 'sdc11073.multikey.MultiKeyLookup.add_objects',
     'sdc11073.multikey.MultiKeyLookup.update_object', 'sdc11073.multikey.MultiKeyLookup.remove_object',
     'sdc11073.multikey.MultiKeyLookup.remove_objects', 'sdc11073.multikey.MultiKeyLookup.clear',
     'sdc11073.multikey.MultiKeyLookup._mk_indices', 'sdc11073.multikey.MultiKeyLookup._rm_indices',
     'sdc11073.multikey.UIndexDefinition.mk_keys', 'sdc11073.multikey.IndexDefinition.mk_keys',
     'sdc11073.multikey.IndexDefinition1n.mk_keys', 'sdc11073.multikey.IndexDefinition.rm_key',
     'sdc11073.multikey.IndexDefinition.get_one']


OPS = ['add', 'change+update', 'remove', 'remove_objects', 'clear', 'add_objects']


def _cases():
    """case split: one CrossHair process per operation kind (the change operation also per changed attribute)."""
    out = []
    for op, name in enumerate(OPS):
        if op == 1:
            out += [({'op': 1, 'a': a}, f'change_{attr}+update') for a, attr in enumerate(('unique', 'group', 'list'))]
        else:
            out.append(({'op': op}, name))
    return out


def obligations(tier):
    t = 90 if tier == 'quick' else 600
    obs = []
    cases = _cases()
    for bind, name in cases:
        obs.append(Ob(f'C11.step.{name}', 'harness.C11', 'table_step', bind=bind, timeout=t, functions=F,
                      bounds='3 objects (o1 fixed in the table; o0 and the outsider o2 present or absent; o0 with any of 3 group keys x '
                             f'5 list-key values; o2 colliding with o0\'s unique key or not); 1 operation "{name}" with any operands',
                      claim='after the operation every index equals the scan; a rejected insert changes nothing'))
    pairs = [(c1, c2) for c1 in cases for c2 in cases]
    if tier == 'quick':
        pairs = [(c1, c2) for c1, c2 in pairs if (c1[1], c2[1]) in (('add', 'add'), ('remove', 'add'), ('change_group+update', 'remove'),
                                                                   ('add', 'remove_objects'))]
    for (b1, n1), (b2, n2) in pairs:
        bind = {k + '1': v for k, v in b1.items()} | {k + '2': v for k, v in b2.items()}
        obs.append(Ob(f'C11.two.{n1}.{n2}', 'harness.C11', 'table_two_ops', bind=bind, timeout=t if tier == 'quick' else 900,
                      functions=F, twin=(tier == 'quick'), bounds=f'3 objects, operation "{n1}" then "{n2}" with any operands',
                      claim='same over 2-operation sequences (remove then re-add, change then remove, failed add then add ...)'))
    if tier == 'thorough':
        for (b1, n1), (b2, n2) in [(c1, c2) for c1 in cases for c2 in cases]:
            bind = {k + '1': v for k, v in b1.items()} | {k + '2': v for k, v in b2.items()} | {'g0': 0, 'l0': 1}
            wide = (n1.startswith('change_') and (n2.startswith('change_') or n2 in ('remove_objects', 'add_objects'))) or \
                   (n1 in ('remove_objects', 'add_objects') and n2.startswith('change_'))
            if wide:
                # these prefixes do not finish as one query within 900 s (measured): one process per third operation
                for b3, n3 in cases:
                    obs.append(Ob(f'C11.three.{n1}.{n2}.{n3}', 'harness.C11', 'table_three_ops',
                                  bind=bind | {k + '3': v for k, v in b3.items()}, timeout=900, functions=F, twin=False,
                                  bounds=f'3 objects (o0 starts with group key 0 / list key value 1; the operations may change both), '
                                         f'operation "{n1}", then "{n2}", then "{n3}", each with any operands',
                                  claim='same over 3-operation sequences'))
                continue
            obs.append(Ob(f'C11.three.{n1}.{n2}.any', 'harness.C11', 'table_three_ops', bind=bind, timeout=900, functions=F, twin=False,
                          bounds=f'3 objects (o0 starts with group key 0 / list key value 1; the operations may change both), operation '
                                 f'"{n1}", then "{n2}", then ANY operation with any operands',
                          claim='same over 3-operation sequences'))
    # the real MDIB tables (DescriptorsLookup / StatesLookup / MultiStatesLookup, provider and consumer side): transactions and
    # incoming reports that change an indexed attribute (Source, ConditionSignaled, parent via create/delete, handles) - the
    # harnesses of C01 compare every index of both MDIBs with a scan after the step
    from harness.mdibkit import STUBS
    FM = ['sdc11073.mdib.mdibbase.DescriptorsLookup', 'sdc11073.mdib.mdibbase.StatesLookup', 'sdc11073.mdib.mdibbase.MultiStatesLookup',
          'sdc11073.mdib.transactions.DescriptorTransaction.process_transaction',
          'sdc11073.mdib.consumermdib.ConsumerMdib._process_incoming_description_modifications',
          'sdc11073.multikey.MultiKeyLookup.update_object_no_lock']
    for kind, name in ((0, 'update_alert_condition_source'), (1, 'update_alert_signal_condition_signaled'), (3, 'create_metric'),
                       (5, 'delete_subtree'), (6, 'update_context_descriptor')):
        obs.append(Ob(f'C11.mdib.descr.{name}', 'harness.C01', 'mirror_descr_tx', bind={'kind': kind}, timeout=t, functions=FM,
                      stubs=STUBS, bounds='real provider + consumer MDIB (11 descriptors), 1 descriptor transaction, symbolic version '
                      'counters and 3-way attribute selector',
                      claim='after the transaction / the incoming report every index of both MDIBs equals a scan over the stored objects'))
    for kind, name in ((5, 'context_new'), (7, 'context_update_two_of_one_descriptor')):
        obs.append(Ob(f'C11.mdib.state.{name}', 'harness.C01', 'mirror_state_tx', bind={'kind': kind}, timeout=t, functions=FM,
                      stubs=STUBS, bounds='real provider + consumer MDIB, 1 context transaction, symbolic counters',
                      claim='context state tables (handle, descriptor_handle, type) equal a scan on both sides'))
    for mod, mname in ((0, 'create_known'), (1, 'update')):
        obs.append(Ob(f'C11.mdib.consumer.rekey.{mname}', 'harness.C06', 'description_report_rekeys', bind={'mod': mod}, timeout=t,
                      functions=FM[4:] + ['sdc11073.multikey.MultiKeyLookup.update_object'], stubs=STUBS,
                      bounds='real consumer MDIB with alert system; one DescriptionModificationReport part for an AlertSignal / '
                             'AlertCondition the consumer already has, with the same / another / no ConditionSignaled resp. Source; '
                             'symbolic MdibVersions and DescriptorVersions',
                      claim='every index of the consumer tables equals a scan afterwards; an applied newer descriptor carries the '
                            'reported attribute'))
    return obs

MANIFEST_ENTRY = {
    'engine': 'crosshair',
    'technique': 'bounded symbolic execution (CrossHair/z3) of the real MultiKeyLookup code: inductive step from a symbolic table '
                 'state + 2-operation sequences, index-vs-scan oracle',
    'text': 'Every path of one (quick: selected pairs, thorough: all pairs of) table operation(s) on a 3-object table with symbolic '
            'key-equality pattern is explored to exhaustion ("Confirmed over all paths"); after each operation every index is '
            'compared with a linear scan. Bounded: 3 objects, 3 index kinds, <= 2 operations.',
    'note': 'Trusted: CrossHair/z3 path exhaustion; keys are drawn by selector from pools of distinct concrete keys (all equality '
            'patterns for 3 objects); the real MDIB tables are exercised by the C11.mdib.* obligations (harness shared with C01) for 7 transaction kinds.',
}

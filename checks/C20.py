from vf.main import Ob

from harness import loopkit

META = {
    'explanation': 'GetMdState / GetContextStates: a real provider (tests.mockstuff.SomeDevice on tests/mdib_two_mds.xml, plus - through '
                   'the public transaction API - a patient context descriptor in the second MDS and optional extra context states) is '
                   'queried by the real consumer service clients over an in-process loop-back transport (real message factory / reader '
                   'with schema validation, real dispatchers and handlers; only the socket layer is replaced). The requested handle list '
                   '(length 0..3) is built by symbolic selectors from a pool of 10 handle kinds (metric descriptor, context descriptor, '
                   'context-state handle, MDS handle - each also of the other MDS -, unknown handle, a context-state handle that exists '
                   'only in some MDIB shapes; duplicates arise by picking an entry twice); the MDIB shape (second patient state, '
                   'context state in the second MDS) and contextstates_in_getmdib are symbolic. CrossHair enumerates this FINITE space '
                   'by path forking (the handles must be concrete because they travel through lxml) - exhaustive within the stated '
                   'pools, not reasoning over an infinite domain. The parsed response is compared with a reference selection computed '
                   'by linear scans over the provider tables with the rules quoted in the property. GetLocalizedText: the real '
                   'LocalizationStorage.filter_localized_texts with <= 3 (thorough: 4) stored texts whose (Ref, Lang) group and '
                   'TextWidth are selectors and whose Version / line count are genuinely symbolic ints, each request constraint absent '
                   'or present; every returned text must satisfy every given constraint, without constraints the result is exactly '
                   'the texts of the highest stored version; get_supported_languages equals the set of stored languages.',
    'outside': ['handle strings other than the 10 pool entries / lists longer than 3 (handle identity only matters up to which table '
                'entry it matches; the pool has one entry per kind and MDS)',
                'MDIB shapes other than the 4 explored (mdib_two_mds.xml + PC.mds1; with/without a second patient state; with/without '
                'a context state in the second MDS)',
                'GetMdDescription (documented as returning all-or-nothing), GetContextStatesByIdentification / ByFilter',
                'more than 4 stored texts; Ref / Lang values beyond the pools; completeness of FILTERED GetLocalizedText results (the '
                'property only demands that returned texts satisfy the constraints, and exactness for the unfiltered request)',
                'the best-match choice among texts that satisfy the width / lines constraints',
                'line counts > 3 when BOTH TextWidth and NumberOfLines are requested (the library sorts by TextWidth-string * lines; '
                'the string grows with the symbolic count)'],
    'assumptions': ['contextstates_in_getmdib=False is read as documented in SdcProvider ("defines whether get_mdib and getMdStates '
                    'contain context states or not"): the Get service then exposes single states only, so context states / context-state '
                    'handles contribute nothing to GetMdState (a literal reading of BICEPS R5040 would demand them)'],
}

F_STATE = ['sdc11073.provider.porttypes.getserviceimpl.GetService._on_get_md_state',
           'sdc11073.provider.porttypes.contextserviceimpl.ContextService._on_get_context_states',
           'sdc11073.consumer.serviceclients.getservice.GetServiceClient.get_md_state',
           'sdc11073.consumer.serviceclients.contextservice.ContextServiceClient.get_context_states',
           'sdc11073.xml_types.msg_types.GetMdState', 'sdc11073.xml_types.msg_types.GetMdStateResponse',
           'sdc11073.xml_types.msg_types.GetContextStatesResponse',
           'sdc11073.pysoap.msgfactory.MessageFactory.mk_reply_soap_message',
           'sdc11073.pysoap.msgreader.MessageReader.read_received_message',
           'sdc11073.dispatch.messageconverter.MessageConverterMiddleware.do_post',
           'sdc11073.pysoap.soapclient.SoapClient.post_message_to']
F_LOC = ['sdc11073.provider.porttypes.localizationservice.LocalizationStorage.filter_localized_texts',
         'sdc11073.provider.porttypes.localizationservice.LocalizationStorage.add',
         'sdc11073.provider.porttypes.localizationservice.LocalizationStorage.get_supported_languages',
         'sdc11073.provider.porttypes.localizationservice._text_width_filter',
         'sdc11073.provider.porttypes.localizationservice._n_o_l_filter',
         'sdc11073.provider.porttypes.localizationservice._tw2i']
F_WIRE = ['sdc11073.provider.porttypes.localizationservice.LocalizationService._on_get_localized_text',
          'sdc11073.provider.porttypes.localizationservice.LocalizationService._on_get_supported_languages',
          'sdc11073.consumer.serviceclients.localizationservice.LocalizationServiceClient.get_localized_texts',
          'sdc11073.consumer.serviceclients.localizationservice.LocalizationServiceClient.get_supported_languages',
          'sdc11073.xml_types.msg_types.GetLocalizedText']
S_LOOP = loopkit.STUBS + ['handles are concrete (picked by symbolic selectors from a pool of 10): they travel through lxml']
S_LOC = ['_calc_number_of_lines is replaced by a lookup of the planted symbolic line count (the real function is checked separately '
         'by C20.loc.line_count)', 'stored LocalizedText objects are built concretely; Version is planted through the real descriptor']

NONE_W = {'w0': 0, 'w1': 0, 'w2': 0, 'w3': 0, 'wq': 0}
NONE_L = {'nl': 0, 'q0': 0, 'q1': 0, 'l0': 1, 'l1': 1, 'l2': 1, 'l3': 1}
ONE_V = {'vnone': 0, 'has_ver': False, 'rv': 0, 'v0': 7, 'v1': 7, 'v2': 7, 'v3': 7}


def _pad(k, bind):
    """Bind the parameters of texts that do not exist (index >= k) to constants."""
    b = dict(bind, k=k)
    for i in range(k, 4):
        b.setdefault(f'w{i}', 0)
        b.setdefault(f'v{i}', 0)
        b.setdefault(f'l{i}', 1)
        if i >= 1:
            b.setdefault(f'g{i}', 0)
    return b


def _loc_cases(tier):
    """(name, bind, bounds). Text 0 is ('a','en'); in the 3-text cases text 2 is ('a','de') and text 1 takes any of the 4
    (Ref, Lang) groups, i.e. equal to text 0, equal to text 2, other Ref, other Ref and Lang."""
    quick = tier == 'quick'
    T = {'concrete': False}
    g3 = {'g2': 1} if quick else {}
    grp = 'text 1 in any of the 4 (Ref,Lang) groups' + (', text 2 = (a,de)' if quick else ', text 2 too')
    c = []
    c.append(('latest', _pad(3, {**T, **NONE_W, **NONE_L, **g3, 'rq': 0, 'lq': 0, 'has_ver': False, 'rv': 0}),
              f'3 texts ({grp}), Versions any ints (one text may lack a Version), request without constraints'))
    c.append(('version', _pad(3, {**T, **NONE_W, **NONE_L, **g3, 'rq': 0, 'lq': 0, 'has_ver': True}),
              f'3 texts ({grp}), Versions any ints (one text may lack a Version), request: Version = any int'))
    c.append(('version+lang', _pad(3, {**T, **NONE_W, **NONE_L, 'g2': 1, 'rq': 0, 'vnone': 0}),
              '3 texts (text 1 in any of the 4 groups, text 2 = (a,de)), Versions any ints, request: Lang list absent / any of 4 (incl. '
              'an unknown language), Version absent / any int'))
    c.append(('version+ref', _pad(3, {**T, **NONE_W, **NONE_L, 'g2': 1, 'lq': 0, 'vnone': 0}),
              '3 texts (text 1 in any of the 4 groups, text 2 = (a,de)), Versions any ints, request: Ref list absent / any of 4 (incl. an '
              'unknown ref), Version absent / any int'))
    c.append(('ref+lang', _pad(2, {**T, **NONE_W, **NONE_L, 'vnone': 0, **({'has_ver': False, 'rv': 0} if quick else {})}),
              '2 texts (text 1 in any group), Versions any ints, request: Ref list and Lang list each absent / any of 4, Version '
              + ('absent' if quick else 'absent / any int')))
    c.append(('width', _pad(3, {'concrete': True, **NONE_L, **ONE_V, 'g2': 0, 'rq': 0, 'lq': 0, **({'w0': 2} if quick else {})}),
              '3 texts of one version (text 1 in any group, text 2 in the group of text 0), TextWidth each any of (none, xs, s, l)'
              + (' (text 0: s)' if quick else '') + ', request: TextWidth list absent / any of 4; all values concrete (selector '
              'enumeration)'))
    c.append(('lines', _pad(3, {**T, **NONE_W, **ONE_V, 'g2': 0, 'rq': 0, 'lq': 0, **({'g1': 3} if quick else {})}),
              '3 texts of one version (text 1 in ' + ('another' if quick else 'any') + ' group, text 2 in the group of text 0), line '
              'counts any ints >= 1, request: 0, 1 or 2 NumberOfLines values, any ints'))
    if quick:
        c.append(('width+lines', _pad(2, {**T, **ONE_V, 'rq': 0, 'lq': 0, 'w0': 1, 'g1': 0, 'wq': 4}),
                  '2 texts of one version and one group (text 0: xs, text 1: any of 4 widths), line counts 1..3, request: TextWidth list '
                  '[xs, l], 0..2 NumberOfLines values (any ints)'))
        c.append(('mixed', _pad(2, {**T, 'w0': 1, 'w1': 3, 'rq': 0, 'lq': 1, 'vnone': 0, 'wq': 4, 'g1': 0}),
                  '2 texts of one group (widths xs and l), Versions and line counts any ints (1..3 when lines are requested), request: '
                  'Lang=[en], TextWidth list [xs, l], Version absent / any int, 0..2 NumberOfLines values'))
    else:
        for wq in range(5):
            for w0 in range(4):
                c.append((f'width+lines.wq{wq}.w{w0}', _pad(2, {**T, **ONE_V, 'rq': 0, 'lq': 0, 'w0': w0, 'wq': wq}),
                          f'2 texts of one version (text 1 in any group; text 0 width #{w0}, text 1 any of 4 widths), line counts 1..3 '
                          f'when both constraints are given (else any), request: TextWidth list #{wq}, 0..2 NumberOfLines values'))
            c.append((f'mixed.wq{wq}', _pad(2, {**T, 'w0': 1, 'w1': 3, 'rq': 0, 'lq': 1, 'vnone': 0, 'wq': wq}),
                      f'2 texts (text 1 in any group; widths xs and l), Versions and line counts any ints, request: Lang=[en], TextWidth '
                      f'list #{wq}, Version absent / any int, 0..2 NumberOfLines values'))
    if not quick:
        c.append(('latest.4texts', _pad(4, {**T, **NONE_W, **NONE_L, 'g2': 1, 'g3': 2, 'rq': 0, 'lq': 0, 'has_ver': False, 'rv': 0}),
                  '4 texts (text 1 any group, text 2 = (a,de), text 3 = (b,en)), Versions any ints (one may lack it), no constraints'))
        c.append(('version.4texts', _pad(4, {**T, **NONE_W, **NONE_L, 'g2': 1, 'g3': 2, 'rq': 0, 'lq': 0, 'has_ver': True}),
                  '4 texts (text 1 any group, text 2 = (a,de), text 3 = (b,en)), Versions any ints (one may lack it), Version = any int'))
        c.append(('lines.4texts', _pad(4, {**T, **NONE_W, **ONE_V, 'g1': 0, 'g2': 0, 'rq': 0, 'lq': 0}),
                  '4 texts of one version (texts 0-2 in one group, text 3 in any group), line counts any ints >= 1, 0..2 NumberOfLines'))
        c.append(('width.4texts', _pad(4, {'concrete': True, **NONE_L, **ONE_V, 'g1': 0, 'g2': 0, 'rq': 0, 'lq': 0}),
                  '4 texts of one version (texts 0-2 in one group, text 3 in any group), TextWidth each any of 4, TextWidth list absent / '
                  'any of 4; concrete'))
        for rq in (1, 3, 4):
            for lq in (0, 3, 4):
                for wq in (0, 4):
                    c.append((f'mixed.ref{rq}.lang{lq}.wq{wq}', _pad(2, {**T, 'w0': 1, 'w1': 3, 'rq': rq, 'lq': lq, 'wq': wq, 'vnone': 0}),
                              f'2 texts (text 1 in any group; widths xs and l), Versions and line counts any ints, request: Ref list '
                              f'#{rq}, Lang list #{lq}, TextWidth list #{wq}, Version absent / any int, 0..2 NumberOfLines values'))
    return c


def obligations(tier):
    quick = tier == 'quick'
    t = 80 if quick else 600
    obs = []
    # ---- GetMdState / GetContextStates
    for svc, sname in ((0, 'mdstate'), (1, 'contextstates')):
        for ctx_on in ((True, False) if svc == 0 else (True,)):
            flag = '' if svc == 1 else ('.ctx_on' if ctx_on else '.ctx_off')
            for aspect, aname in ((0, 'selection'), (1, 'once')):
                claim = ('the set of returned states equals the reference selection (nothing missing, nothing unselected, unknown '
                         'handles contribute nothing, MDS handle: only the context states of that MDS)'
                         if aspect == 0 else 'no state occurs twice in the response')
                base = {'svc': svc, 'aspect': aspect, 'ctx_on': ctx_on}
                fl = '' if svc == 1 else f', contextstates_in_getmdib={ctx_on}'
                obs.append(Ob(f'C20.{sname}{flag}.{aname}.len0-2', 'harness.C20', 'select_states',
                              bind={**base, 'long_list': False, 'pool8': False, 'h2': 0}, timeout=t, functions=F_STATE, stubs=S_LOOP,
                              bounds='handle list of length 0, 1 or 2, every entry any of the 10 pool handles (111 lists) x all 4 MDIB '
                                     f'shapes{fl}; finite space enumerated by path forking', claim=claim))
                # 1000 handle triples: quick explores the richest MDIB shape, thorough one process per shape
                shapes = [(True, True)] if quick else [(a, b) for a in (False, True) for b in (False, True)]
                for two_pat, other_ctx in shapes:
                    sfx = '' if quick else f'.shape{int(two_pat)}{int(other_ctx)}'
                    obs.append(Ob(f'C20.{sname}{flag}.{aname}.len3{sfx}', 'harness.C20', 'select_states',
                                  bind={**base, 'long_list': True, 'pool8': quick, 'n': 0, 'two_pat': two_pat, 'other_ctx': other_ctx}, timeout=t,
                                  functions=F_STATE, stubs=S_LOOP, twin=False,
                                  bounds='handle list of length 3, every entry any of the ' + ('first 8 pool handles (512 lists)' if quick else '10 pool handles (1000 lists)') + ', MDIB shape: '
                                         f'second patient state={two_pat}, context state in the second MDS={other_ctx}{fl}; finite '
                                         'space enumerated by path forking', claim=claim))
    # ---- localized texts
    for name, bind, bounds in _loc_cases(tier):
        obs.append(Ob(f'C20.loc.{name}', 'harness.C20', 'loc_filter', bind=bind, timeout=t, functions=F_LOC, stubs=S_LOC,
                      bounds=bounds + '; Version and line counts are unconstrained symbolic ints',
                      claim='every returned text is a stored one and satisfies every given Ref / Version / Lang / TextWidth / '
                            'NumberOfLines constraint; without constraints exactly the texts of the highest stored version'))
    obs.append(Ob('C20.loc.history', 'harness.C20', 'loc_history', timeout=t, functions=F_LOC + [
                      'sdc11073.provider.porttypes.localizationservice.LocalizationStorage.add'], stubs=[],
                  bounds='storage filled in two steps (1..2 texts, then 1..2 more) with 0..2 unconstrained queries in between; Versions '
                         'symbolic ints',
                  claim='the unconstrained answer after the second add is exactly the texts of the highest Version over everything '
                        'stored - independent of queries served before'))
    rb = {'r0': 0, 'r1': 1, 'r2': 1, 'r3': 0}
    obs.append(Ob('C20.loc.languages', 'harness.C20', 'loc_languages', bind={'allow_none': False, **rb}, timeout=t, functions=F_LOC,
                  bounds='0..4 stored texts, Lang each any of 3 languages, Refs a,b,b,a; concrete (selector enumeration)',
                  stubs=[], claim='get_supported_languages == set of stored languages, no duplicates'))
    obs.append(Ob('C20.loc.languages.text_without_lang', 'harness.C20', 'loc_languages', bind={'allow_none': True, **rb}, timeout=t,
                  functions=F_LOC, bounds='0..4 stored texts, Lang each any of 3 languages or absent, Refs a,b,b,a; concrete', stubs=[],
                  claim='same when stored texts may lack the (optional) Lang attribute'))
    obs.append(Ob('C20.loc.line_count', 'harness.C20', 'loc_line_count', timeout=t, stubs=[],
                  functions=['sdc11073.provider.porttypes.localizationservice._calc_number_of_lines'],
                  bounds='any text of <= 4 characters', claim='the line count is the number of newline characters + 1'))
    wb = {'w1': 3} if quick else {}
    wtxt = ('stored: text 0 = (a, en, xs, Version 1, one line), text 1 = (any of 4 groups, ' + ('l' if quick else 'any of 4 widths')
            + ', Version 1 / 2 / none, two lines); ')
    obs.append(Ob('C20.loc.wire', 'harness.C20', 'loc_wire', bind={'nq': 0, **wb}, timeout=t, functions=F_WIRE + F_LOC, stubs=S_LOOP,
                  bounds=wtxt + 'request: exactly one of Ref / Lang / TextWidth / Version given (any pool value incl. absent), or all four '
                                'given (2 values each); finite space enumerated by path forking (values travel through XML)',
                  claim='the same oracle holds for GetLocalizedText / GetSupportedLanguages sent by the real consumer client and '
                        'answered by the real LocalizationService handlers (every request parameter reaches the filter)'))
    obs.append(Ob('C20.loc.wire.number_of_lines', 'harness.C20', 'loc_wire', timeout=t, functions=F_WIRE + F_LOC, stubs=S_LOOP,
                  bind={'which': 4, 'rq': 0, 'lq': 0, 'wq': 0, 'vq': 0, 'br': False, 'bl': False, 'bw': False, 'bv': False, **wb},
                  bounds=wtxt + 'request: NumberOfLines absent / [1] / [2] passed as ints (documented signature list[int])',
                  claim='a NumberOfLines constraint can be sent by the consumer client and is honoured'))
    return obs


MANIFEST_ENTRY = {
    'engine': 'crosshair',
    'technique': 'bounded symbolic execution (CrossHair/z3): selector-built handle lists and MDIB shapes through the real Get/Context '
                 'handlers and consumer clients over a loop-back transport vs. a table-scan reference; symbolic Version / line-count '
                 'ints through the real LocalizationStorage filter',
    'text': 'Every handle list of length <= 3 over 10 handle kinds x 4 MDIB shapes x contextstates_in_getmdib is answered by the real '
            'handlers and compared with the BICEPS selection rules (set equality and at-most-once separately); every path of '
            'filter_localized_texts for <= 4 stored texts with symbolic versions / line counts satisfies the given constraints, also when '
            'the storage is filled in two steps with queries in between.',
    'note': 'The state-query part is exhaustive enumeration of a finite selector space by path forking (handles must be concrete for '
            'lxml). Trusted: CrossHair/z3 path exhaustion, the loop-back transport stub (socket layer only), the reference selection.',
}

from vf.main import Ob
from harness.mdibkit import STUBS

META = {
    'explanation': 'One provider transaction on a REAL ProviderMdib whose version counters (DescriptorVersion, StateVersion, parent '
                   'DescriptorVersion, MdibVersion, remembered versions of deleted handles) are unconstrained symbolic naturals. State '
                   'transactions of every kind (empty / committed / aborted, classic and entity interface), descriptor transactions '
                   'with every ordered pair of 7 operations on related objects (descriptor, its state, its parent, a new child, a '
                   'sibling) through both interfaces, and re-creation of remembered handles. Oracle: MdibVersion +1 iff something '
                   'committed, no counter decreases, changed content implies a greater counter, unnamed objects untouched, every '
                   'state carries its descriptor\'s current DescriptorVersion, parents exist, <=1 single state per descriptor, '
                   'indices == scan.',
    'outside': ['concurrent writers (C04/C07 lock argument)', 'histories longer than two transactions (inductive step from arbitrary '
                'counters)', 'more than two operations per descriptor transaction', 'in-place writes to nested members of handed-out '
                'objects (C03)'],
}
F = ['sdc11073.mdib.providermdib.ProviderMdib._transaction_manager',
     'sdc11073.mdib.transactions.DescriptorTransaction.get_descriptor', 'sdc11073.mdib.transactions.DescriptorTransaction.get_state',
     'sdc11073.mdib.transactions.DescriptorTransaction.add_descriptor', 'sdc11073.mdib.transactions.DescriptorTransaction.add_state',
     'sdc11073.mdib.transactions.DescriptorTransaction.remove_descriptor', 'sdc11073.mdib.transactions.DescriptorTransaction.write_entity',
     'sdc11073.mdib.transactions.DescriptorTransaction.remove_entity',
     'sdc11073.mdib.transactions.DescriptorTransaction.process_transaction',
     'sdc11073.mdib.transactions.DescriptorTransaction._update_corresponding_state',
     'sdc11073.mdib.transactions.DescriptorTransaction._increment_parent_descriptor_version',
     'sdc11073.mdib.transactions.StateTransactionBase.get_state', 'sdc11073.mdib.transactions.StateTransactionBase.write_entity',
     'sdc11073.mdib.transactions.ContextStateTransaction.get_context_state',
     'sdc11073.mdib.transactions.ContextStateTransaction.mk_context_state',
     'sdc11073.mdib.transactions.ContextStateTransaction.write_entity',
     'sdc11073.mdib.transactions._TransactionBase._handle_state_updates',
     'sdc11073.mdib.mdibbase.DescriptorsLookup.set_version', 'sdc11073.mdib.mdibbase.StatesLookup.set_version',
     'sdc11073.mdib.mdibbase.MultiStatesLookup.set_version', 'sdc11073.mdib.mdibbase.MdibBase.rm_descriptors_and_states',
     'sdc11073.mdib.mdibbase.EntityGetter._mk_entity', 'sdc11073.mdib.providermdib.ProviderEntityGetter.new_entity']
SK = ['metric', 'alert', 'component', 'context_get', 'context_new', 'metric_entity', 'context_entity']
OPS = ['none', 'update_descr', 'update_state', 'update_parent', 'create_child', 'remove_sibling', 'remove_self', 'remove_parent',
       'remove_context_descriptor', 'create_second_child']
IF = ['classic', 'entity']


def obligations(tier):
    t = 90 if tier == 'quick' else 600
    obs = []
    for kind, name in enumerate(SK):
        obs.append(Ob(f'C02.state.{name}', 'harness.C02', 'state_tx', bind={'kind': kind}, timeout=t, functions=F, stubs=STUBS,
                      bounds='symbolic dv, sv, mv in N, str <= 2; empty / committed / aborted transaction (selector)',
                      claim='MdibVersion +1 iff committed; StateVersion +1; everything else untouched; integrity invariants hold'))
    pairs = [(i, a, b) for i in range(2) for a in range(10) for b in range(10) if (a, b) != (0, 0)]
    if tier == 'quick':
        keep = {(1, 2), (3, 1), (1, 3), (4, 3), (3, 4), (5, 3), (3, 5), (6, 2), (4, 5), (0, 4), (6, 0), (1, 6), (5, 7), (7, 5),
                (0, 7), (4, 7), (0, 8), (8, 1), (4, 9), (9, 5)}
        pairs = [(i, a, b) for (i, a, b) in pairs if (a, b) in keep]
    claim = ('rejected => no effect; committed => MdibVersion +1, counters monotone, changed content => greater counter, parent bumped '
             'on child add/remove, state DescriptorVersion == descriptor\'s, unnamed objects untouched; the descriptor versions the '
             'transaction PUBLISHES per handle are new, strictly increasing and end at the version the MDIB holds')
    for i, a, b in pairs:
        obs.append(Ob(f'C02.descr.{IF[i]}.{OPS[a]}.{OPS[b]}', 'harness.C02', 'descr_tx', bind={'iface': i, 'op1': a, 'op2': b, 'op3': 0},
                      timeout=t, functions=F, stubs=STUBS, twin=(tier == 'quick'),
                      bounds='symbolic dv, sv, mv, parent dv in N; two operations in this order in one descriptor transaction',
                      claim=claim))
    # three operations: the third one arbitrary (quick: the sequences around "children first, parent last")
    triples = [(i, a, b) for i in range(2) for a in (3, 4, 5, 9) for b in (3, 4, 5, 9) if a != b]
    if tier == 'quick':
        triples = [(i, a, b) for (i, a, b) in triples if (a, b) in {(4, 9), (9, 5), (4, 5)}]
    for i, a, b in triples:
        obs.append(Ob(f'C02.descr3.{IF[i]}.{OPS[a]}.{OPS[b]}.any', 'harness.C02', 'descr_tx', bind={'iface': i, 'op1': a, 'op2': b},
                      timeout=t if tier == 'quick' else 900, functions=F, stubs=STUBS, twin=False,
                      bounds='symbolic dv, sv, mv, parent dv in N; three operations in one descriptor transaction: these two, then ANY of '
                             'the 9 operations (symbolic)', claim=claim))
    for kd, nm in enumerate(['entity_after_parent_removed', 'new_entity_after_parent_removed', 'descriptor_copy_after_parent_removed',
                             'context_state_after_descriptor_updated', 'context_state_after_descriptor_removed',
                             'context_state_handle_recreated_in_one_transaction.entity',
                             'context_state_handle_recreated_in_one_transaction.classic']):
        obs.append(Ob(f'C02.stale_object.{nm}', 'harness.C02', 'stale_object_after_removal', bind={'kind': kd}, timeout=t, functions=F,
                      stubs=STUBS, bounds='object obtained before, first transaction removes / updates what it depends on, second '
                                          'transaction writes it (kinds 5, 6: removal and re-creation in ONE transaction); dv, sv, mv, pdv in N',
                      claim='rejected => nothing changed; accepted => every descriptor has a parent, every state a descriptor with the '
                            'same DescriptorVersion, no counter decreased, a re-created handle continues its counter'))
    for kd, nm in enumerate(['descriptor_tx_single_state', 'metric_state_tx', 'context_tx', 'descriptor_tx_multi_state']):
        obs.append(Ob(f'C02.stale_entity.{nm}', 'harness.C02', 'stale_entity_write', bind={'kind': kd}, timeout=t, functions=F,
                      stubs=STUBS, bounds='entity copy with symbolic own counters ev <= dv, esv <= sv (any staleness); dv, sv, mv in N',
                      claim='writing back an outdated entity copy still publishes counters greater than the MDIB held before'))
    for i in range(2):
        for ctx in (False, True):
            obs.append(Ob(f'C02.recreate.{IF[i]}.{"context" if ctx else "descriptor"}', 'harness.C02', 'recreate',
                          bind={'iface': i, 'ctx': ctx}, timeout=t, functions=F, stubs=STUBS,
                          bounds='remembered versions present/absent with unconstrained values; application-chosen initial counters '
                                 'unconstrained', claim='a re-created handle gets counters greater than the remembered ones'))
        obs.append(Ob(f'C02.delete_create.{IF[i]}', 'harness.C02', 'delete_saves_version', bind={'iface': i}, timeout=t, functions=F,
                      stubs=STUBS, bounds='symbolic dv, sv, mv; delete then create in two transactions',
                      claim='versions after re-creation exceed the ones at deletion; MdibVersion +2'))
    return obs


MANIFEST_ENTRY = {
    'engine': 'crosshair',
    'technique': 'bounded symbolic execution (CrossHair/z3) of the real transaction code with symbolic version counters; '
                 'before/after version-map and content-snapshot oracle, case split per operation pair and interface',
    'text': 'Every path of each transaction shape is explored for ALL natural version counters ("Confirmed over all paths"); thorough '
            'covers all 80 ordered operation pairs x 2 interfaces, quick a fixed subset of 36.',
    'note': 'Single-writer; MDIB content besides the counters is the concrete 13-descriptor kit; <= 2 operations per descriptor '
            'transaction; report XML not involved.',
}
